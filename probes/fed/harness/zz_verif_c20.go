package graph

import (
	"context"
	"encoding/json"
	"strconv"
	"strings"

	"github.com/99designs/gqlgen/zzsym"
)

func Setup_C20_entities() { fedSetup() }

type fedShape struct {
	rep     func(i int) map[string]any
	want    func(i int) string // canonical JSON of the expected element, "null" if it must fail
	lookups func(i int) string // world key of the lookup serving this representation ("" none)
	multi   string             // "" or the batch resolver this representation belongs to
	batchID func(i int) string // its key inside the batch
}

func sfx(i int) string { return strconv.Itoa(i) }

var fedShapes = []fedShape{
	{ // 0 Alpha by id
		rep: func(i int) map[string]any { return map[string]any{"__typename": "Alpha", "id": "a" + sfx(i)} },
		want: func(i int) string {
			return `{"__typename":"Alpha","id":"a` + sfx(i) + `","name":"name-of-a` + sfx(i) + `"}`
		},
		lookups: func(i int) string { return "AlphaByID:a" + sfx(i) },
	},
	{ // 1 Alpha by name
		rep: func(i int) map[string]any { return map[string]any{"__typename": "Alpha", "name": "n" + sfx(i)} },
		want: func(i int) string {
			return `{"__typename":"Alpha","id":"id-of-n` + sfx(i) + `","name":"n` + sfx(i) + `"}`
		},
		lookups: func(i int) string { return "AlphaByName:n" + sfx(i) },
	},
	{ // 2 Beta (multi) by id
		rep: func(i int) map[string]any { return map[string]any{"__typename": "Beta", "id": "b" + sfx(i)} },
		want: func(i int) string {
			return `{"__typename":"Beta","id":"b` + sfx(i) + `","name":"name-of-b` + sfx(i) + `"}`
		},
		multi:   "BetaByIDs",
		batchID: func(i int) string { return "b" + sfx(i) },
	},
	{ // 3 Beta (multi) by name
		rep: func(i int) map[string]any { return map[string]any{"__typename": "Beta", "name": "bn" + sfx(i)} },
		want: func(i int) string {
			return `{"__typename":"Beta","id":"id-of-bn` + sfx(i) + `","name":"bn` + sfx(i) + `"}`
		},
		multi:   "BetaByNames",
		batchID: func(i int) string { return "bn" + sfx(i) },
	},
	{ // 4 Gamma, nested key
		rep: func(i int) map[string]any {
			return map[string]any{"__typename": "Gamma", "owner": map[string]any{"id": "o" + sfx(i)}}
		},
		want: func(i int) string {
			return `{"__typename":"Gamma","note":"note-o` + sfx(i) + `","owner":{"id":"o` + sfx(i) + `"}}`
		},
		lookups: func(i int) string { return "GammaByOwnerID:o" + sfx(i) },
	},
	{ // 5 Delta with @requires(size) taken from the same representation
		rep: func(i int) map[string]any {
			return map[string]any{"__typename": "Delta", "id": "d" + sfx(i), "size": json.Number(strconv.Itoa(50 + i)), "dims": fedDims(i)}
		},
		want: func(i int) string {
			if probeConfigName == "fed_computed" {
				// computed_requires: the external fields are not stored on the entity; the resolver of a
				// requiring field receives this representation's required fields (weight = 1000 + size + width,
				// area = width * height + size)
				return `{"__typename":"Delta","area":` + strconv.Itoa((3+i)*(5+i)+50+i) + `,"dims":{"height":0,"width":0},"id":"d` + sfx(i) + `","size":0,"weight":` + strconv.Itoa(1050+i+3+i) + `}`
			}
			return `{"__typename":"Delta","area":2000,"dims":` + fedDimsJSON(i) + `,"id":"d` + sfx(i) + `","size":` + strconv.Itoa(50+i) + `,"weight":1000}`
		},
		lookups: func(i int) string { return "DeltaByID:d" + sfx(i) },
	},
	{ // 6 unknown type
		rep:  func(i int) map[string]any { return map[string]any{"__typename": "Nope", "id": "x" + sfx(i)} },
		want: func(i int) string { return "null" },
	},
	{ // 7 no __typename
		rep:  func(i int) map[string]any { return map[string]any{"id": "x" + sfx(i)} },
		want: func(i int) string { return "null" },
	},
	{ // 8 missing every key
		rep:  func(i int) map[string]any { return map[string]any{"__typename": "Alpha"} },
		want: func(i int) string { return "null" },
	},
	{ // 9 first key null: the second key identifies the entity
		rep: func(i int) map[string]any {
			return map[string]any{"__typename": "Alpha", "id": nil, "name": "n" + sfx(i)}
		},
		want: func(i int) string {
			return `{"__typename":"Alpha","id":"id-of-n` + sfx(i) + `","name":"n` + sfx(i) + `"}`
		},
		lookups: func(i int) string { return "AlphaByName:n" + sfx(i) },
	},
	{ // 11 batch type whose key cannot be unmarshalled: the batch it belongs to fails as a whole (documented batch semantics)
		rep:     func(i int) map[string]any { return map[string]any{"__typename": "Beta", "id": []any{"x"}} },
		want:    func(i int) string { return "null" },
		multi:   "BetaByIDs",
		batchID: func(i int) string { return "!bad" },
	},
	{ // 21 batch type without any key: it fails on its own and is not handed to the batch resolver; the rest of the batch is served
		rep:  func(i int) map[string]any { return map[string]any{"__typename": "Beta"} },
		want: func(i int) string { return "null" },
	},
	{ // 12 compound key, both fields set
		rep: func(i int) map[string]any {
			return map[string]any{"__typename": "Epsilon", "sku": "s" + sfx(i), "variant": "v" + sfx(i)}
		},
		want: func(i int) string {
			return `{"__typename":"Epsilon","sku":"s` + sfx(i) + `","upc":"upc-of-s` + sfx(i) + `/v` + sfx(i) + `","variant":"v` + sfx(i) + `"}`
		},
		lookups: func(i int) string { return "EpsilonBySkuAndVariant:s" + sfx(i) + "/v" + sfx(i) },
	},
	{ // 13 compound key whose last (nullable) field is null: still identified by the compound key
		rep: func(i int) map[string]any {
			return map[string]any{"__typename": "Epsilon", "sku": "s" + sfx(i), "variant": nil, "upc": "u" + sfx(i)}
		},
		want: func(i int) string {
			return `{"__typename":"Epsilon","sku":"s` + sfx(i) + `","upc":"upc-of-s` + sfx(i) + `/NIL","variant":null}`
		},
		lookups: func(i int) string { return "EpsilonBySkuAndVariant:s" + sfx(i) + "/NIL" },
	},
	{ // 14 second key of the compound-key type
		rep: func(i int) map[string]any { return map[string]any{"__typename": "Epsilon", "upc": "u" + sfx(i)} },
		want: func(i int) string {
			return `{"__typename":"Epsilon","sku":"sku-of-u` + sfx(i) + `","upc":"u` + sfx(i) + `","variant":null}`
		},
		lookups: func(i int) string { return "EpsilonByUpc:u" + sfx(i) },
	},
	{ // 19 compound key: a nested field, then a plain one
		rep: func(i int) map[string]any {
			return map[string]any{"__typename": "Kappa", "owner": map[string]any{"id": "ko" + sfx(i)}, "sku": "ks" + sfx(i)}
		},
		want: func(i int) string {
			return `{"__typename":"Kappa","note":"note-ko` + sfx(i) + `/ks` + sfx(i) + `","owner":{"id":"ko` + sfx(i) + `"},"sku":"ks` + sfx(i) + `"}`
		},
		lookups: func(i int) string { return "KappaByOwnerIDAndSku:ko" + sfx(i) + "/ks" + sfx(i) },
	},
	{ // 20 the same with the plain field missing
		rep: func(i int) map[string]any {
			return map[string]any{"__typename": "Kappa", "owner": map[string]any{"id": "ko" + sfx(i)}}
		},
		want: func(i int) string { return "null" },
	},
	{ // 17 an entity that is nothing but its key
		rep:     func(i int) map[string]any { return map[string]any{"__typename": "Theta", "id": "t" + sfx(i)} },
		want:    func(i int) string { return `{"__typename":"Theta","id":"t` + sfx(i) + `"}` },
		lookups: func(i int) string { return "ThetaByID:t" + sfx(i) },
	},
	{ // 18 the same with a nested key
		rep: func(i int) map[string]any {
			return map[string]any{"__typename": "Iota", "owner": map[string]any{"id": "io" + sfx(i)}}
		},
		want: func(i int) string {
			return `{"__typename":"Iota","owner":{"id":"io` + sfx(i) + `","name":"name-of-io` + sfx(i) + `"}}`
		},
		lookups: func(i int) string { return "IotaByOwnerID:io" + sfx(i) },
	},
	{ // 15 batch entity with @requires, first key: the required field comes from this very representation
		rep: func(i int) map[string]any {
			return map[string]any{"__typename": "Zeta", "id": "z" + sfx(i), "size": json.Number(strconv.Itoa(30 + i)), "dims": fedDims(i)}
		},
		want: func(i int) string {
			return `{"__typename":"Zeta","dims":` + fedDimsJSON(i) + `,"id":"z` + sfx(i) + `","name":"name-of-z` + sfx(i) + `","size":` + strconv.Itoa(30+i) + `}`
		},
		multi:   "ZetaByIDs",
		batchID: func(i int) string { return "z" + sfx(i) },
	},
	{ // 16 the same entity by its second key
		rep: func(i int) map[string]any {
			return map[string]any{"__typename": "Zeta", "name": "zn" + sfx(i), "size": json.Number(strconv.Itoa(70 + i)), "dims": fedDims(i)}
		},
		want: func(i int) string {
			return `{"__typename":"Zeta","dims":` + fedDimsJSON(i) + `,"id":"id-of-zn` + sfx(i) + `","name":"zn` + sfx(i) + `","size":` + strconv.Itoa(70+i) + `}`
		},
		multi:   "ZetaByNames",
		batchID: func(i int) string { return "zn" + sfx(i) },
	},
	{ // 10 nested key is not an object
		rep:  func(i int) map[string]any { return map[string]any{"__typename": "Gamma", "owner": "notamap"} },
		want: func(i int) string { return "null" },
	},
}

// the external object several @requires name, each with its own sub-selection
func fedDims(i int) map[string]any {
	return map[string]any{"width": json.Number(strconv.Itoa(3 + i)), "height": json.Number(strconv.Itoa(5 + i))}
}

func fedDimsJSON(i int) string {
	return `{"height":` + strconv.Itoa(5+i) + `,"width":` + strconv.Itoa(3+i) + `}`
}

func canon(v any) string {
	b, _ := json.Marshal(v)
	return string(b)
}

// Harness_C20_entities: for every list of 0..n representations over 11
// shapes (two single-key lookups, a batch type with two keys, nested key,
// @requires, unknown / missing type, missing / null keys, malformed nested
// key) and at most one failing (error / panic) lookup: element i is the
// entity of representation i, or null with an error exactly when that one
// failed; a failure elsewhere does not change it.
func Harness_C20_entities() {
	max := zzsym.Param("maxreps", 2)
	n := zzsym.Choice("n", max+1)
	w := &fedWorld{fault: map[string]int{}, budget: zzsym.Param("budget", 1), gated: zzsym.Param("gated", 0) == 1}
	reps := make([]any, n)
	shapes := make([]int, n)
	ix := make([]int, n) // the entity representation i names: its own, or (duplicates) the one the first representation names
	nshape := zzsym.Param("shapes", len(fedShapes))
	for i := 0; i < n; i++ {
		shapes[i] = zzsym.Choice("shape", nshape)
		if zzsym.Param("requires", 0) == 1 {
			// the shapes around @requires only: a plain entity, the batch type, the requiring entity, an unknown type
			shapes[i] = []int{0, 2, 5, 6}[shapes[i]%4]
			if probeConfigName == "fed_single" {
				// under the default options: the batch entity with two keys and @requires, next to a plain one
				shapes[i] = []int{0, len(fedShapes) - 3, len(fedShapes) - 2, 6}[shapes[i]%4]
			}
		}
		if zzsym.Param("failing", 0) == 1 {
			// shapes that fail without any fault: several failing representations of one type in one request
			shapes[i] = []int{8, 0, 6, 11, 2}[shapes[i]%5]
		}
		ix[i] = i
		if i == n-1 && i > 0 && zzsym.Choice("dup", 2) == 1 {
			// the list names one entity twice
			shapes[i], ix[i] = shapes[0], 0
		}
		reps[i] = fedShapes[shapes[i]].rep(ix[i])
	}
	got := fedRun(w, reps)
	zzsym.Assert(!got.isNull && len(got.list) == n, "_entities answers with one element per representation")
	zzsym.Assert(w.recovers >= w.raised, "every resolver panic reaches the recover hook")
	// batch keys per multi resolver, in representation order
	batch := map[string]string{}
	for i := 0; i < n; i++ {
		s := fedShapes[shapes[i]]
		if s.multi != "" {
			if batch[s.multi] != "" {
				batch[s.multi] += ","
			}
			batch[s.multi] += s.batchID(ix[i])
		}
	}
	failures := 0
	for i := 0; i < n; i++ {
		s := fedShapes[shapes[i]]
		want := s.want(ix[i])
		key := ""
		if s.lookups != nil {
			key = s.lookups(ix[i])
		} else if s.multi != "" {
			key = s.multi + ":" + batch[s.multi]
		}
		if key != "" {
			if f, decided := w.fault[key]; decided && f != 0 {
				want = "null" // this representation's own lookup (or its batch) failed
			}
		}
		if s.multi != "" && strings.Contains(batch[s.multi], "!bad") {
			want = "null" // a malformed key fails the batch it is part of
		}
		if want == "null" {
			failures++
		}
		zzsym.Assert(canon(got.list[i]) == want, "element i is the entity resolved from representation i (null iff that one failed)")
	}
	if failures == 0 {
		zzsym.Assert(got.nerr == 0, "no error without a failing representation")
	} else {
		zzsym.Assert(got.nerr >= 1, "a failed representation is reported")
	}
	if zzsym.Param("failing", 0) == 1 {
		zzsym.Assert(got.nerr == failures, "one error per failed representation")
	}
	zzsym.Reach("c20.compared")
}

// Harness_C20_longLists: long lists (8..40 representations, around the
// powers of two a worker pool would be sized by) of one single-lookup type,
// of the batch type, or alternating between three types, at most one lookup
// failing: element i is the entity of representation i.
func Harness_C20_longLists() {
	n := []int{8, 15, 16, 17, 31, 32, 33, 40}[zzsym.Choice("n", 8)]
	mix := zzsym.Choice("mix", 3) // 0: one single-lookup type, 1: the batch type, 2: alternating Alpha / Beta / Gamma
	w := &fedWorld{fault: map[string]int{}, budget: 0}
	failAt := -1
	if mix != 1 && zzsym.Choice("fail", 2) == 1 {
		failAt = []int{0, n / 2, n - 1}[zzsym.Choice("failAt", 3)]
	}
	reps := make([]any, n)
	shapes := make([]int, n)
	for i := 0; i < n; i++ {
		switch mix {
		case 0:
			shapes[i] = 0
		case 1:
			shapes[i] = 2
		default:
			shapes[i] = []int{0, 2, 4}[i%3]
		}
		reps[i] = fedShapes[shapes[i]].rep(i)
		if i == failAt && fedShapes[shapes[i]].lookups != nil {
			w.fault[fedShapes[shapes[i]].lookups(i)] = 1
		}
	}
	got := fedRun(w, reps)
	zzsym.Assert(!got.isNull && len(got.list) == n, "_entities answers with one element per representation")
	failed := 0
	for i := 0; i < n; i++ {
		s := fedShapes[shapes[i]]
		want := s.want(i)
		if i == failAt && s.lookups != nil {
			want = "null"
			failed++
		}
		zzsym.Assert(canon(got.list[i]) == want, "element i is the entity resolved from representation i (null iff that one failed)")
	}
	zzsym.Assert(got.nerr == failed, "one error per failed representation, none otherwise")
	zzsym.Reach("c20.long")
}

func Setup_C05_entitiesCancel() { fedSetup() }

// Harness_C05_entitiesCancel: an _entities request (1..3 representations of
// single-lookup and batch types) whose context is cancelled before it
// starts or inside the k-th lookup: the response function returns - no
// join waits for a goroutine that was never started - and nothing is left
// running afterwards.
func Harness_C05_entitiesCancel() {
	n := 1 + zzsym.Choice("n", 3)
	w := &fedWorld{fault: map[string]int{}}
	reps := make([]any, n)
	for i := 0; i < n; i++ {
		reps[i] = fedShapes[[]int{0, 4, 2, 1}[zzsym.Choice("shape", 4)]].rep(i)
	}
	ctx, cancel := context.WithCancel(context.Background())
	at := zzsym.Choice("cancelAt", 4) // 0 never, 1 before the request, k>=2: at the start of the (k-1)-th lookup
	if at == 1 {
		cancel()
	}
	w.onLookup = func(k int) {
		if at >= 2 && k == at-1 {
			cancel()
		}
	}
	got := fedRunCtx(ctx, w, reps)
	zzsym.Assert(got.isNull || len(got.list) == n, "the response function returned a response")
	if at == 0 {
		zzsym.Assert(got.nerr == 0 && !got.isNull, "uncancelled: every representation is resolved")
	}
	cancel()
	zzsym.Assert(zzsym.Quiesce() == 0, "nothing is left running after the request ended")
	zzsym.Reach("c05.entities")
}

func Setup_C16_service() { fedSetup() }

// Harness_C16_service: the federation _service field (the schema as SDL) is
// introspection as well: with introspection disabled for the operation it is
// refused - null and one error - whatever an earlier operation of the same
// process was allowed to see.
func Harness_C16_service() {
	prior := zzsym.Choice("prior", 3) // 0 none, 1 an allowed request came first, 2 a refused one
	if prior > 0 {
		fedService(prior == 1)
	}
	enabled := zzsym.Choice("enabled", 2) == 1
	data, nerr := fedService(enabled)
	if enabled {
		zzsym.Assert(nerr == 0 && strings.Contains(data, "type Alpha"), "enabled: _service answers with the schema")
		zzsym.Reach("c16.service.on")
	} else {
		zzsym.Assert(nerr == 1 && !strings.Contains(data, "Alpha"), "disabled: _service is refused (one error, no schema text), whatever was answered before")
		zzsym.Reach("c16.service.off")
	}
}
