package graph

import (
	"context"
	"encoding/json"
	"fmt"
)

func fedNum(v any) (int, error) {
	switch v := v.(type) {
	case json.Number:
		n, err := v.Int64()
		return int(n), err
	case int64:
		return int(v), nil
	case int:
		return v, nil
	}
	return 0, fmt.Errorf("not a number: %T", v)
}

// under computed_requires Delta.weight and Delta.area are resolvers that
// receive the representation's required fields
func (r *fedRoot) Delta() DeltaResolver { return &deltaResolver{r.w} }

type deltaResolver struct{ w *fedWorld }

func (r *deltaResolver) Weight(ctx context.Context, obj *Delta, federationRequires map[string]any) (int, error) {
	n, err := fedNum(federationRequires["size"])
	if err != nil {
		return 0, fmt.Errorf("requires without size: %v", federationRequires)
	}
	d, _ := federationRequires["dims"].(map[string]any)
	wd, err := fedNum(d["width"])
	if err != nil {
		return 0, fmt.Errorf("requires without dims.width: %v", federationRequires)
	}
	return 1000 + n + wd, nil
}

func (r *deltaResolver) Area(ctx context.Context, obj *Delta, federationRequires map[string]any) (int, error) {
	n, err := fedNum(federationRequires["size"])
	if err != nil {
		return 0, fmt.Errorf("requires without size: %v", federationRequires)
	}
	d, _ := federationRequires["dims"].(map[string]any)
	wd, err := fedNum(d["width"])
	if err != nil {
		return 0, fmt.Errorf("requires without dims.width: %v", federationRequires)
	}
	ht, err := fedNum(d["height"])
	if err != nil {
		return 0, fmt.Errorf("requires without dims.height: %v", federationRequires)
	}
	return wd*ht + n, nil
}

func (r *fedRoot) Zeta() ZetaResolver { return &zetaResolver{r.w} }

type zetaResolver struct{ w *fedWorld }

func (r *zetaResolver) Weight(ctx context.Context, obj *Zeta, federationRequires map[string]any) (int, error) {
	return 7, nil
}

func (r *zetaResolver) Area(ctx context.Context, obj *Zeta, federationRequires map[string]any) (int, error) {
	return 9, nil
}
