package graph

import (
	"context"
	"encoding/json"
	"fmt"
)

// under computed_requires Delta.weight is a resolver that receives the
// representation's required fields
func (r *fedRoot) Delta() DeltaResolver { return &deltaResolver{r.w} }

type deltaResolver struct{ w *fedWorld }

func (r *deltaResolver) Weight(ctx context.Context, obj *Delta, federationRequires map[string]any) (int, error) {
	switch v := federationRequires["size"].(type) {
	case json.Number:
		n, err := v.Int64()
		return 1000 + int(n), err
	case int64:
		return 1000 + int(v), nil
	case int:
		return 1000 + v, nil
	}
	return 0, fmt.Errorf("requires without size: %v", federationRequires)
}

func (r *fedRoot) Zeta() ZetaResolver { return &zetaResolver{r.w} }

type zetaResolver struct{ w *fedWorld }

func (r *zetaResolver) Weight(ctx context.Context, obj *Zeta, federationRequires map[string]any) (int, error) {
	return 7, nil
}
