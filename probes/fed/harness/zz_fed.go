package graph

import (
	"context"
	"encoding/json"
	"errors"
	"sort"
	"strconv"
	"strings"
	"sync"

	"github.com/vektah/gqlparser/v2"
	"github.com/vektah/gqlparser/v2/ast"
	"github.com/vektah/gqlparser/v2/gqlerror"

	"github.com/99designs/gqlgen/graphql"
	"github.com/99designs/gqlgen/graphql/executor"
	"github.com/99designs/gqlgen/zzsym"
)

// fedWorld: entity resolvers answer from their inputs; a fault table makes
// one lookup fail (error / panic) or a batch misbehave.
// fedService runs { _service { sdl } } with introspection enabled or not and returns data and the number of errors.
func fedService(enabled bool) (string, int) {
	es := NewExecutableSchema(Config{Resolvers: &fedRoot{&fedWorld{fault: map[string]int{}}}})
	ex := executor.New(es)
	doc, errs := gqlparser.LoadQuery(es.Schema(), `{ s: _service { sdl } }`)
	if errs != nil {
		panic(errs)
	}
	opCtx := &graphql.OperationContext{
		Doc: doc, Operation: doc.Operations[0], DisableIntrospection: !enabled,
		RecoverFunc:            func(ctx context.Context, err any) error { return gqlerror.Errorf("internal system error") },
		ResolverMiddleware:     func(ctx context.Context, next graphql.Resolver) (any, error) { return next(ctx) },
		RootResolverMiddleware: func(ctx context.Context, next graphql.RootResolver) graphql.Marshaler { return next(ctx) },
	}
	ctx := graphql.StartOperationTrace(context.Background())
	rh, ctx2 := ex.DispatchOperation(ctx, opCtx)
	resp := rh(ctx2)
	return string(resp.Data), len(resp.Errors)
}

type fedWorld struct {
	mu       sync.Mutex
	fault    map[string]int // key of a lookup -> 1 error, 2 panic
	budget   int
	onLookup func(n int) // called at the start of the n-th lookup (1-based)
	lookups  int
	recovers int
	raised   int
	gated    bool
}

func (w *fedWorld) outcome(key string) int {
	w.mu.Lock()
	defer w.mu.Unlock()
	if f, ok := w.fault[key]; ok {
		return f
	}
	f := 0
	if w.budget > 0 {
		f = zzsym.Choice("fault:"+key, 3)
		if f != 0 {
			w.budget--
		}
	}
	w.fault[key] = f
	return f
}

var errFed = errors.New("entity lookup failed")

// apply: the lookup identified by key runs now. Resolvers honour their
// context like real data loaders do: a lookup whose context is already
// cancelled (which a failure of another representation must not cause) fails.
func (w *fedWorld) apply(ctx context.Context, key string) error {
	if w.onLookup != nil {
		w.mu.Lock()
		w.lookups++
		n := w.lookups
		w.mu.Unlock()
		w.onLookup(n)
	}
	if w.gated {
		zzsym.Gate(key)
	}
	if err := ctx.Err(); err != nil {
		return err
	}
	switch w.outcome(key) {
	case 1:
		return errFed
	case 2:
		w.mu.Lock()
		w.raised++
		w.mu.Unlock()
		panic("entity resolver panic")
	}
	return nil
}

type fedRoot struct{ w *fedWorld }

func (r *fedRoot) Entity() EntityResolver { return &entityResolver{r.w} }
func (r *fedRoot) Query() QueryResolver   { return &fedQuery{} }

type fedQuery struct{}

func (fedQuery) Dummy(ctx context.Context) (*string, error) { return nil, nil }

type entityResolver struct{ w *fedWorld }

func (r *entityResolver) FindAlphaByID(ctx context.Context, id string) (*Alpha, error) {
	if err := r.w.apply(ctx, "AlphaByID:"+id); err != nil {
		return nil, err
	}
	return &Alpha{ID: id, Name: "name-of-" + id}, nil
}
func (r *entityResolver) FindAlphaByName(ctx context.Context, name string) (*Alpha, error) {
	if err := r.w.apply(ctx, "AlphaByName:"+name); err != nil {
		return nil, err
	}
	return &Alpha{ID: "id-of-" + name, Name: name}, nil
}
func (r *entityResolver) FindManyBetaByIDs(ctx context.Context, reps []*BetaByIDsInput) ([]*Beta, error) {
	var keys []string
	for _, rp := range reps {
		keys = append(keys, rp.ID)
	}
	if err := r.w.apply(ctx, "BetaByIDs:"+strings.Join(keys, ",")); err != nil {
		return nil, err
	}
	out := make([]*Beta, len(reps))
	for i, rp := range reps {
		out[i] = &Beta{ID: rp.ID, Name: "name-of-" + rp.ID}
	}
	return out, nil
}
func (r *entityResolver) FindManyBetaByNames(ctx context.Context, reps []*BetaByNamesInput) ([]*Beta, error) {
	var keys []string
	for _, rp := range reps {
		keys = append(keys, rp.Name)
	}
	if err := r.w.apply(ctx, "BetaByNames:"+strings.Join(keys, ",")); err != nil {
		return nil, err
	}
	out := make([]*Beta, len(reps))
	for i, rp := range reps {
		out[i] = &Beta{ID: "id-of-" + rp.Name, Name: rp.Name}
	}
	return out, nil
}
func (r *entityResolver) FindManyZetaByIDs(ctx context.Context, reps []*ZetaByIDsInput) ([]*Zeta, error) {
	var keys []string
	for _, rp := range reps {
		keys = append(keys, rp.ID)
	}
	if err := r.w.apply(ctx, "ZetaByIDs:"+strings.Join(keys, ",")); err != nil {
		return nil, err
	}
	out := make([]*Zeta, len(reps))
	for i, rp := range reps {
		out[i] = &Zeta{ID: rp.ID, Name: "name-of-" + rp.ID, Weight: 7, Dims: &Dims{}}
	}
	return out, nil
}
func (r *entityResolver) FindManyZetaByNames(ctx context.Context, reps []*ZetaByNamesInput) ([]*Zeta, error) {
	var keys []string
	for _, rp := range reps {
		keys = append(keys, rp.Name)
	}
	if err := r.w.apply(ctx, "ZetaByNames:"+strings.Join(keys, ",")); err != nil {
		return nil, err
	}
	out := make([]*Zeta, len(reps))
	for i, rp := range reps {
		out[i] = &Zeta{ID: "id-of-" + rp.Name, Name: rp.Name, Weight: 7, Dims: &Dims{}}
	}
	return out, nil
}
func (r *entityResolver) FindDeltaByID(ctx context.Context, id string) (*Delta, error) {
	if err := r.w.apply(ctx, "DeltaByID:"+id); err != nil {
		return nil, err
	}
	return &Delta{ID: id, Weight: 1000, Area: 2000, Dims: &Dims{}}, nil
}
func (r *entityResolver) FindThetaByID(ctx context.Context, id string) (*Theta, error) {
	if err := r.w.apply(ctx, "ThetaByID:"+id); err != nil {
		return nil, err
	}
	return &Theta{ID: id}, nil
}
func (r *entityResolver) FindIotaByOwnerID(ctx context.Context, ownerID string) (*Iota, error) {
	if err := r.w.apply(ctx, "IotaByOwnerID:"+ownerID); err != nil {
		return nil, err
	}
	return &Iota{Owner: &Alpha{ID: ownerID, Name: "name-of-" + ownerID}}, nil
}
func (r *entityResolver) FindKappaByOwnerIDAndSku(ctx context.Context, ownerID string, sku string) (*Kappa, error) {
	if err := r.w.apply(ctx, "KappaByOwnerIDAndSku:"+ownerID+"/"+sku); err != nil {
		return nil, err
	}
	n := "note-" + ownerID + "/" + sku
	return &Kappa{Owner: &Alpha{ID: ownerID, Name: "name-of-" + ownerID}, Sku: sku, Note: &n}, nil
}
func (r *entityResolver) FindGammaByOwnerID(ctx context.Context, ownerID string) (*Gamma, error) {
	if err := r.w.apply(ctx, "GammaByOwnerID:"+ownerID); err != nil {
		return nil, err
	}
	n := "note-" + ownerID
	return &Gamma{Owner: &Alpha{ID: ownerID, Name: "name-of-" + ownerID}, Note: &n}, nil
}

func (r *entityResolver) FindEpsilonBySkuAndVariant(ctx context.Context, sku string, variant *string) (*Epsilon, error) {
	v := "NIL"
	if variant != nil {
		v = *variant
	}
	if err := r.w.apply(ctx, "EpsilonBySkuAndVariant:"+sku+"/"+v); err != nil {
		return nil, err
	}
	return &Epsilon{Sku: sku, Variant: variant, Upc: "upc-of-" + sku + "/" + v}, nil
}
func (r *entityResolver) FindEpsilonByUpc(ctx context.Context, upc string) (*Epsilon, error) {
	if err := r.w.apply(ctx, "EpsilonByUpc:"+upc); err != nil {
		return nil, err
	}
	return &Epsilon{Sku: "sku-of-" + upc, Upc: upc}, nil
}

var (
	fedSchema *ast.Schema
	fedDoc    *ast.QueryDocument
)

const fedQueryText = `query($r: [_Any!]!) { _entities(representations: $r) { __typename ... on Alpha { id name } ... on Beta { id name } ... on Gamma { note owner { id } } ... on Delta { id size weight area dims { width height } } ... on Zeta { id name size dims { width height } } ... on Epsilon { sku variant upc } ... on Kappa { sku note owner { id } } ... on Theta { id } ... on Iota { owner { id name } } } }`

func fedSetup() {
	es := NewExecutableSchema(Config{Resolvers: &fedRoot{}})
	fedSchema = es.Schema()
	doc, errs := gqlparser.LoadQuery(fedSchema, fedQueryText)
	if errs != nil {
		panic(errs)
	}
	fedDoc = doc
}

func fedPath(p ast.Path) string {
	var sb strings.Builder
	for i, e := range p {
		switch e := e.(type) {
		case ast.PathName:
			if i > 0 {
				sb.WriteByte('.')
			}
			sb.WriteString(string(e))
		case ast.PathIndex:
			sb.WriteString("[" + strconv.Itoa(int(e)) + "]")
		}
	}
	return sb.String()
}

type fedResult struct {
	list   []any // decoded _entities list (nil if data null)
	isNull bool
	errs   []string
	nerr   int
}

func fedRun(w *fedWorld, reps []any) fedResult {
	return fedRunCtx(context.Background(), w, reps)
}

// fedRunCtx: like fedRun under a caller-supplied request context.
func fedRunCtx(parent context.Context, w *fedWorld, reps []any) fedResult {
	es := NewExecutableSchema(Config{Resolvers: &fedRoot{w}})
	ex := executor.New(es)
	rec := func(ctx context.Context, err any) error {
		w.mu.Lock()
		w.recovers++
		w.mu.Unlock()
		return gqlerror.Errorf("internal system error")
	}
	ex.SetRecoverFunc(rec)
	opCtx := &graphql.OperationContext{
		Variables: map[string]any{"r": reps}, Doc: fedDoc, Operation: fedDoc.Operations[0], DisableIntrospection: true,
		RecoverFunc:            rec,
		ResolverMiddleware:     func(ctx context.Context, next graphql.Resolver) (any, error) { return next(ctx) },
		RootResolverMiddleware: func(ctx context.Context, next graphql.RootResolver) graphql.Marshaler { return next(ctx) },
	}
	ctx := graphql.StartOperationTrace(parent)
	rh, ctx2 := ex.DispatchOperation(ctx, opCtx)
	resp := rh(ctx2)
	var res fedResult
	var data map[string]any
	if err := json.Unmarshal(resp.Data, &data); err != nil || data == nil {
		res.isNull = true
	} else if l, ok := data["_entities"].([]any); ok {
		res.list = l
	} else {
		res.isNull = true
	}
	for _, e := range resp.Errors {
		res.errs = append(res.errs, fedPath(e.Path))
	}
	res.nerr = len(resp.Errors)
	sort.Strings(res.errs)
	return res
}
