package graph

import (
	"context"
	"encoding/json"
	"fmt"
)

// PopulateDeltaRequires is user code under explicit_requires: it copies the
// required field out of the representation it is handed (which must be the
// one the entity was looked up from).
func (ec *executionContext) PopulateDeltaRequires(ctx context.Context, entity *Delta, reps map[string]any) error {
	switch v := reps["size"].(type) {
	case json.Number:
		n, err := v.Int64()
		if err != nil {
			return err
		}
		entity.Size = int(n)
	case int64:
		entity.Size = int(v)
	case int:
		entity.Size = v
	default:
		return fmt.Errorf("representation without size: %T", reps["size"])
	}
	return nil
}
