package graph

import (
	"context"
	"encoding/json"
	"fmt"
)

func fedNum(v any) (int, error) {
	switch v := v.(type) {
	case json.Number:
		n, err := v.Int64()
		return int(n), err
	case int64:
		return int(v), nil
	case int:
		return v, nil
	}
	return 0, fmt.Errorf("not a number: %T", v)
}

// PopulateDeltaRequires is user code under explicit_requires: it copies the
// required fields out of the representation it is handed (which must be the
// one the entity was looked up from).
func (ec *executionContext) PopulateDeltaRequires(ctx context.Context, entity *Delta, reps map[string]any) error {
	var err error
	if entity.Size, err = fedNum(reps["size"]); err != nil {
		return fmt.Errorf("representation without size: %w", err)
	}
	d, ok := reps["dims"].(map[string]any)
	if !ok {
		return fmt.Errorf("representation without dims: %T", reps["dims"])
	}
	if entity.Dims.Width, err = fedNum(d["width"]); err != nil {
		return err
	}
	if entity.Dims.Height, err = fedNum(d["height"]); err != nil {
		return err
	}
	return nil
}
