package graph

import (
	"encoding/json"
	"strconv"
	"strings"

	"github.com/vektah/gqlparser/v2/ast"

	"example.com/probe/ref"
	"github.com/99designs/gqlgen/zzsym"
)

func Setup_C04_faults() {
	Setup_C01_exec()
	c04Arg = mustLoad(`{ me { id a: echo(o: "boom") b: echo(s: "x") best { id } } }`)
}

var c04Arg *ast.QueryDocument

// Harness_C04_argPanic: a panic while a field's arguments are built (custom
// scalar UnmarshalGQL, argument directive) fails exactly that field: null,
// one error, the resolver is not called, the recover hook runs once per panic.
func Harness_C04_argPanic() {
	w := newWorld(zzsym.Param("budget", 1), true)
	op := c04Arg.Operations[0]
	got := runOp(w, c04Arg, op, nil)
	want := ref.Execute(pSchema, c04Arg, op, nil, w)
	zzsym.Assert(got.data == want.Data, "only the field whose arguments failed is null")
	zzsym.Assert(sameErrors(got.errs, want.Errors), "exactly one error per failure")
	zzsym.Assert(w.recovers == w.raised, "the recover hook runs exactly once per panic")
	for _, c := range w.calls {
		zzsym.Assert(c != "me/User.echo" || w.guards["guard3:me.b.echo.s"] == ref.KValue, "the resolver of a field whose argument failed is not called")
	}
	zzsym.Reach("c04.argpanic")
}

// Harness_C04_faults: every single (or, thorough, double) fault point of
// user code - a resolver on the calling goroutine or a spawned one, in a
// list element, or the field directive - failing by error or by panic
// nulls exactly that position (reference = same outcome as an error),
// with one error at its path, the recover hook invoked once per panic, and
// no panic escaping any goroutine.
func Harness_C04_faults() {
	fi := zzsym.Choice("family", len(c01Families))
	fam := c01Families[fi]
	vars := map[string]any{}
	for _, v := range fam.flags {
		vars[v] = true
	}
	w := newWorld(zzsym.Param("budget", 1), true)
	doc := c01Docs[fi]
	op := doc.Operations[0]
	got := runOp(w, doc, op, vars)
	want := ref.Execute(pSchema, doc, op, vars, w)
	zzsym.Assert(len(got.resps) == 1, "one response")
	zzsym.Assert(got.data == want.Data, "only the failing position (and its non-null ancestors) is null")
	zzsym.Assert(sameErrors(got.errs, want.Errors), "exactly one error per failure, at the failing path")
	zzsym.Assert(w.recovers == w.raised, "the recover hook runs exactly once per panic")
	zzsym.Event("data", got.data)
	zzsym.Event("errors", strings.Join(got.errs, " "))
	if w.raised > 0 {
		zzsym.Reach("c04.panic")
	}
	zzsym.Reach("c04.compared")
}

func Setup_C04_deferFaults() { Setup_C13_defer() }

// the @defer families without a known delivery-order finding (C13: F-10, F-15)
var c04DeferFamilies = []int{0, 1, 3, 5, 7, 8, 9}

// Harness_C04_deferFaults: a single fault (error or panic; resolver or
// directive) at any position of an operation with active @defer fragments,
// inside a deferred group or outside: the payloads merged in arrival order
// equal the defer-aware reference (the failing position null, propagation to
// the nearest nullable ancestor stopping at the group's object, everything
// else intact), one error per failure at its path, recover hook once per panic.
func Harness_C04_deferFaults() {
	fi := c04DeferFamilies[zzsym.Choice("family", len(c04DeferFamilies))]
	fam := c13Families[fi]
	vars := map[string]any{}
	for _, v := range fam.flags {
		vars[v] = true
	}
	w := newWorld(zzsym.Param("budget", 1), true)
	doc := c13Docs[fi]
	op := doc.Operations[0]
	got := runOp(w, doc, op, vars)
	want := ref.ExecuteDeferred(pSchema, doc, op, vars, w)
	zzsym.Assert(len(got.resps) >= 1 && len(got.resps) <= 16, "the payload sequence ends")
	var tree, wantTree any
	zzsym.Assert(json.Unmarshal(got.resps[0].Data, &tree) == nil, "initial payload data is JSON")
	zzsym.Assert(json.Unmarshal([]byte(want.Data), &wantTree) == nil, "reference data is JSON")
	for _, r := range got.resps[1:] {
		obj, ok := c13At(tree, r.Path)
		m, isObj := obj.(map[string]any)
		if !(ok && isObj) {
			continue // delivery order is C13's subject
		}
		var data any
		zzsym.Assert(json.Unmarshal(r.Data, &data) == nil, "incremental payload data is JSON")
		if dm, ok := data.(map[string]any); ok {
			for kk, vv := range dm {
				m[kk] = vv
			}
		} else if data == nil {
			// a group whose non-null field failed is null as a whole: its fields stay absent
			zzsym.Reach("c04.defer.nullgroup")
		}
	}
	zzsym.Assert(c13Canon(tree) == c13Canon(wantTree), "only the failing position (and its non-null ancestors up to the deferred group's object) is null")
	// one error per failure; a deferred group whose object was removed from the response by null
	// propagation is not executed, so the reference's errors below that object may be absent
	cnt := map[string]int{}
	for _, e := range scalarListIdx(want.Errors) {
		cnt[e]++
	}
	for _, e := range scalarListIdx(got.errs) {
		cnt[e]--
		zzsym.Assert(cnt[e] >= 0, "exactly one error per failure, at the failing path (no extra error)")
	}
	for e, n := range cnt {
		if n > 0 {
			zzsym.Assert(c04UnderNull(wantTree, e), "exactly one error per failure, at the failing path (no error lost)")
		}
	}
	zzsym.Assert(w.recovers == w.raised, "the recover hook runs exactly once per panic")
	if w.raised > 0 {
		zzsym.Reach("c04.defer.panic")
	}
	zzsym.Reach("c04.defer.compared")
}

func Setup_C04_interceptor() { Setup_C01_exec() }

// operation families without aliases on object-valued fields (the world names positions by field names)
var c04InterceptFamilies = []int{0, 4, 5, 12, 13}

// Harness_C04_interceptor: the field interceptor (around every field, plain
// ones included) fails at one position - answers nil, returns an error or
// panics: only that position is null (with ordinary propagation), one error at
// its path, recover hook once per panic.
func Harness_C04_interceptor() {
	fi := c04InterceptFamilies[zzsym.Choice("family", len(c04InterceptFamilies))]
	fam := c01Families[fi]
	vars := map[string]any{}
	for _, v := range fam.flags {
		vars[v] = true
	}
	w := newWorld(1, true)
	w.intercept = true
	w.onlyIntercept = true
	doc := c01Docs[fi]
	op := doc.Operations[0]
	got := runOp(w, doc, op, vars)
	want := ref.Execute(pSchema, doc, op, vars, w)
	zzsym.Event("data", got.data)
	zzsym.Event("errors", strings.Join(got.errs, " "))
	zzsym.Event("want", want.Data+" "+strings.Join(want.Errors, " "))
	zzsym.Assert(got.data == want.Data, "only the position whose interceptor failed (and its non-null ancestors) is null")
	zzsym.Assert(sameErrors(got.errs, want.Errors), "exactly one error per failure, at the failing path")
	zzsym.Assert(w.recovers == w.raised, "the recover hook runs exactly once per panic")
	if w.raised > 0 {
		zzsym.Reach("c04.interceptor.panic")
	}
	zzsym.Reach("c04.interceptor")
}

func Setup_C04_subscription() { probeSetup() }

// Harness_C04_subscription: a fault (error / panic) while subscribing or while
// resolving a field of one event: only that position of that event fails, the
// stream goes on, recover hook once per panic.
func Harness_C04_subscription() { subscriptionRun(true, 1) }

// c04UnderNull: some proper prefix of the response path p ("me.friends[1].id") is null in tree.
func c04UnderNull(tree any, p string) bool {
	cur := tree
	for _, seg := range strings.Split(p, ".") {
		name, idx := seg, ""
		if k := strings.IndexByte(seg, '['); k >= 0 {
			name, idx = seg[:k], seg[k:]
		}
		m, ok := cur.(map[string]any)
		if !ok {
			return cur == nil
		}
		cur = m[name]
		for idx != "" {
			k := strings.IndexByte(idx, ']')
			n, _ := strconv.Atoi(idx[1:k])
			idx = idx[k+1:]
			l, ok := cur.([]any)
			if !ok || n >= len(l) {
				return cur == nil
			}
			cur = l[n]
		}
	}
	return false
}

func Setup_C04_extensionDup() { Setup_C01_exec() }

// Harness_C04_extensionDup: user code misusing a gqlgen API that panics -
// every resolver-backed field registers the response extension "cost", so
// every registration after the first panics inside graphql.RegisterExtension:
// each of those positions fails like any panicking resolver (null, one
// error, recover hook once), the others keep their values, and the
// operation still completes with the first registration in its extensions.
func Harness_C04_extensionDup() {
	fi := c04InterceptFamilies[zzsym.Choice("family", len(c04InterceptFamilies))]
	fam := c01Families[fi]
	vars := map[string]any{}
	for _, v := range fam.flags {
		vars[v] = true
	}
	w := newWorld(0, true)
	w.intercept = true
	w.regExt = true
	doc := c01Docs[fi]
	op := doc.Operations[0]
	got := runOp(w, doc, op, vars)
	want := ref.Execute(pSchema, doc, op, vars, w)
	zzsym.Event("data", got.data)
	zzsym.Event("want", want.Data+" "+strings.Join(want.Errors, " "))
	zzsym.Assert(len(got.resps) == 1, "the operation completes with one response")
	zzsym.Assert(got.data == want.Data, "only the positions whose registration panicked are null")
	zzsym.Assert(sameErrors(got.errs, want.Errors), "exactly one error per failure, at the failing path")
	zzsym.Assert(w.recovers == w.raised, "the recover hook runs exactly once per panic")
	if w.regs > 0 && len(got.resps) == 1 {
		_, ok := got.resps[0].Extensions["cost"]
		zzsym.Assert(ok, "the first registration is part of the response")
	}
	if w.raised > 0 {
		zzsym.Reach("c04.extdup.panic")
	}
	zzsym.Reach("c04.extdup")
}

func Setup_C04_serializePanic() { probeSetup() }

// Harness_C04_serializePanic: a custom scalar panics while the response is
// being serialised (after earlier fields were written): that response fails
// as a whole (the panic reaches the transport, which answers with an error
// body - C04 servePanic), and the next operation served by the process is
// answered exactly as if nothing had happened.
func Harness_C04_serializePanic() {
	first := mustLoad(`{ me { id name } odds users { id } }`)
	w1 := newWorld(0, false)
	boom, fine := "boom-out", "fine"
	w1.outs["/Query.odds"] = ref.Out{Strs: []*string{&fine, &boom}}
	panicked := func() (p bool) {
		defer func() {
			if recover() != nil {
				p = true
			}
		}()
		runOp(w1, first, first.Operations[0], nil)
		return false
	}()
	zzsym.Assert(panicked, "a panic while serialising reaches the transport (which turns it into an error response)")
	fi := []int{0, 5, 13}[zzsym.Choice("next", 3)]
	fam := c01Families[fi]
	vars := map[string]any{}
	for _, v := range fam.flags {
		vars[v] = true
	}
	doc := mustLoad(fam.query)
	w := newWorld(0, false)
	got := runOp(w, doc, doc.Operations[0], vars)
	want := ref.Execute(pSchema, doc, doc.Operations[0], vars, w)
	zzsym.Event("data", got.data)
	zzsym.Assert(len(got.resps) == 1 && got.data == want.Data && sameErrors(got.errs, want.Errors), "the operation served after a failed serialisation is answered as if nothing had happened")
	zzsym.Assert(w.recovers == 0, "no recover hook for a request in which nothing failed")
	zzsym.Reach("c04.serializepanic")
}

func Setup_C04_errorWithValue() { probeSetup() }

// Harness_C04_errorWithValue: a resolver that returns an error together
// with a non-nil value (it failed after building part of its result): the
// position is null with one error, like any failed position - nullable and
// non-null (with propagation), below list elements, with and without an
// executable directive on the field.
func Harness_C04_errorWithValue() {
	docs := []string{
		`{ me { best { id name } name } }`,
		`{ me { boss { id } name } users { id } }`,
		`{ users { link { id } id } }`,
		`{ me { best @mark(k: 1) { id } friends { boss { id } } } }`,
	}
	spots := [][]string{{"me/User.best"}, {"me/User.boss"}, {"users[1]/User.link"}, {"me/User.best", "me.friends[0]/User.boss"}}
	di := zzsym.Choice("doc", len(docs))
	doc := mustLoad(docs[di])
	w := newWorld(0, false)
	w.outs["/Query.users"] = ref.Out{List: users("users[0]", "users[1]")}
	w.outs["me/User.friends"] = ref.Out{List: users("me.friends[0]", "me.friends[1]")}
	for _, sp := range spots[di] {
		w.outs[sp] = ref.Out{K: ref.KErrVal, Obj: ref.NewUser("half-built")}
	}
	op := doc.Operations[0]
	got := runOp(w, doc, op, nil)
	want := ref.Execute(pSchema, doc, op, nil, w)
	zzsym.Event("data", got.data)
	zzsym.Assert(got.data == want.Data, "a position whose resolver returned an error is null, whatever value came with the error")
	zzsym.Assert(len(want.Errors) >= 1 && sameErrors(got.errs, want.Errors), "one error at the failing position")
	zzsym.Reach("c04.errval")
}
