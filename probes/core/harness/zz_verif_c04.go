package graph

import (
	"strings"

	"example.com/probe/ref"
	"github.com/99designs/gqlgen/zzsym"
)

func Setup_C04_faults() { Setup_C01_exec() }

// Harness_C04_faults: every single (or, thorough, double) fault point of
// user code - a resolver on the calling goroutine or a spawned one, in a
// list element, or the field directive - failing by error or by panic
// nulls exactly that position (reference = same outcome as an error),
// with one error at its path, the recover hook invoked once per panic, and
// no panic escaping any goroutine.
func Harness_C04_faults() {
	fi := zzsym.Choice("family", len(c01Families))
	fam := c01Families[fi]
	vars := map[string]any{}
	for _, v := range fam.flags {
		vars[v] = true
	}
	w := newWorld(zzsym.Param("budget", 1), true)
	doc := c01Docs[fi]
	op := doc.Operations[0]
	got := runOp(w, doc, op, vars)
	want := ref.Execute(pSchema, doc, op, vars, w)
	zzsym.Assert(len(got.resps) == 1, "one response")
	zzsym.Assert(got.data == want.Data, "only the failing position (and its non-null ancestors) is null")
	zzsym.Assert(sameStrings(got.errs, want.Errors), "exactly one error per failure, at the failing path")
	zzsym.Assert(w.recovers == w.raised, "the recover hook runs exactly once per panic")
	zzsym.Event("data", got.data)
	zzsym.Event("errors", strings.Join(got.errs, " "))
	if w.raised > 0 {
		zzsym.Reach("c04.panic")
	}
	zzsym.Reach("c04.compared")
}
