package graph

import (
	"encoding/json"
	"strings"

	"github.com/vektah/gqlparser/v2/ast"

	"github.com/99designs/gqlgen/zzsym"
)

type c16Q struct {
	query string
	keys  []string // response keys (root level) that expose introspection data
	flags []string
}

var c16Queries = []c16Q{
	{`{ __schema { types { name } } }`, []string{"__schema"}, nil},
	{`{ a: __schema { queryType { name } } me { id } }`, []string{"a"}, nil},
	{`query($v: Boolean!) { ...F @include(if: $v) me { id } } fragment F on Query { t: __type(name: "User") { name fields { name args { name } } } }`, []string{"t"}, []string{"v"}},
	{`{ ... on Query { x: __type(name: "Item") { kind name } y: __schema { directives { name } } } }`, []string{"x", "y"}, nil},
}

var c16Docs []*ast.QueryDocument

func Setup_C16_disabled() {
	probeSetup()
	c16Docs = nil
	for _, q := range c16Queries {
		c16Docs = append(c16Docs, mustLoad(q.query))
	}
}

// Harness_C16_disabled: with introspection disabled no shape of query
// (aliases, fragments, @include variables) obtains schema data: the
// introspection fields are null, each with one error; enabled, they answer.
func Harness_C16_disabled() {
	qi := zzsym.Choice("query", len(c16Queries))
	q := c16Queries[qi]
	vars := map[string]any{}
	for _, f := range q.flags {
		vars[f] = zzsym.Bool(f)
	}
	w := newWorld(0, false)
	w.introspection = zzsym.Bool("introspectionEnabled")
	doc := c16Docs[qi]
	got := runOp(w, doc, doc.Operations[0], vars)
	var data map[string]any
	zzsym.Assert(json.Unmarshal([]byte(got.data), &data) == nil, "data is a JSON object")
	for _, k := range q.keys {
		v, present := data[k]
		if !present {
			continue // excluded by @include(if: false)
		}
		if w.introspection {
			zzsym.Assert(v != nil, "enabled: the introspection field answers")
			zzsym.Reach("c16.enabled")
		} else {
			zzsym.Assert(v == nil, "disabled: the introspection field is null")
			n := 0
			for _, e := range got.errs {
				if e == k {
					n++
				}
			}
			zzsym.Assert(n == 1, "disabled: one error at the field's path")
			zzsym.Reach("c16.disabled")
		}
	}
	if !w.introspection {
		zzsym.Assert(!strings.Contains(got.data, "User") && !strings.Contains(got.data, "Item") && !strings.Contains(got.data, "guard"),
			"disabled: no type, field or directive name of the schema appears in the response")
	}
}
