package graph

import (
	"context"
	"encoding/json"
	"strings"

	"github.com/99designs/gqlgen/graphql"
	"github.com/99designs/gqlgen/graphql/executor"
	"github.com/99designs/gqlgen/graphql/handler/extension"
	"github.com/vektah/gqlparser/v2"
	"github.com/vektah/gqlparser/v2/gqlerror"

	"github.com/vektah/gqlparser/v2/ast"

	"github.com/99designs/gqlgen/zzsym"
)

type c16Q struct {
	query string
	keys  []string // response keys (root level) that expose introspection data
	flags []string
}

var c16Queries = []c16Q{
	{`{ __schema { types { name } } }`, []string{"__schema"}, nil},
	{`{ a: __schema { queryType { name } } me { id } }`, []string{"a"}, nil},
	{`query($v: Boolean!) { ...F @include(if: $v) me { id } } fragment F on Query { t: __type(name: "User") { name fields { name args { name } } } }`, []string{"t"}, []string{"v"}},
	{`{ ... on Query { x: __type(name: "Item") { kind name } y: __schema { directives { name } } } }`, []string{"x", "y"}, nil},
	// names that are not types of the schema (keys starting with "u"): enabled they are null without an error, disabled they are refused like every other name
	{`query($n: String!) { u1: __type(name: "Nope") { name } u2: __type(name: "user") { name } u3: __type(name: $n) { kind } t: __type(name: "User") { name } }`, []string{"u1", "u2", "u3", "t"}, nil},
}

var c16Docs []*ast.QueryDocument

func Setup_C16_disabled() {
	probeSetup()
	c16Docs = nil
	for _, q := range c16Queries {
		c16Docs = append(c16Docs, mustLoad(q.query))
	}
}

// Harness_C16_disabled: with introspection disabled no shape of query
// (aliases, fragments, @include variables) obtains schema data: the
// introspection fields are null, each with one error; enabled, they answer.
func Harness_C16_disabled() {
	qi := zzsym.Choice("query", len(c16Queries))
	q := c16Queries[qi]
	vars := map[string]any{"n": []string{"Secret", "", "__Nope"}[zzsym.Choice("unknownName", 3)]}
	for _, f := range q.flags {
		vars[f] = zzsym.Bool(f)
	}
	w := newWorld(0, false)
	w.introspection = zzsym.Bool("introspectionEnabled")
	doc := c16Docs[qi]
	got := runOp(w, doc, doc.Operations[0], vars)
	var data map[string]any
	zzsym.Assert(json.Unmarshal([]byte(got.data), &data) == nil, "data is a JSON object")
	for _, k := range q.keys {
		v, present := data[k]
		if !present {
			continue // excluded by @include(if: false)
		}
		if w.introspection && strings.HasPrefix(k, "u") {
			zzsym.Assert(v == nil && len(got.errs) == 0, "enabled: a name that is not a type is null, without an error")
		} else if w.introspection {
			zzsym.Assert(v != nil, "enabled: the introspection field answers")
			zzsym.Reach("c16.enabled")
		} else {
			zzsym.Assert(v == nil, "disabled: the introspection field is null")
			n := 0
			for _, e := range got.errs {
				if e == k {
					n++
				}
			}
			zzsym.Assert(n == 1, "disabled: one error at the field's path")
			zzsym.Reach("c16.disabled")
		}
	}
	if !w.introspection {
		zzsym.Assert(!strings.Contains(got.data, "User") && !strings.Contains(got.data, "Item") && !strings.Contains(got.data, "guard"),
			"disabled: no type, field or directive name of the schema appears in the response")
	}
}

func Setup_C16_configuredSchema() { probeSetup() }

// Harness_C16_configuredSchema: the server is built with a configured
// schema (Config.Schema) that is a reduced view of the compiled-in one (a
// type and the field leading to it removed): __schema and __type(name:)
// both describe the configured schema - the removed type is unknown to
// both - and agree with each other on every type that remains.
func Harness_C16_configuredSchema() {
	full := NewExecutableSchema(Config{Resolvers: &resolverRoot{}}).Schema()
	reduced := *full
	reduced.Types = map[string]*ast.Definition{}
	for n, d := range full.Types {
		if n == "Box" {
			continue
		}
		if n == "Query" {
			q := *d
			q.Fields = nil
			for _, f := range d.Fields {
				if f.Name != "box" {
					q.Fields = append(q.Fields, f)
				}
			}
			reduced.Types[n] = &q
			reduced.Query = &q
			continue
		}
		reduced.Types[n] = d
	}
	w := newWorld(0, false)
	w.introspection = true
	es := NewExecutableSchema(Config{Schema: &reduced, Resolvers: &resolverRoot{w}, Directives: DirectiveRoot{Guard: w.guardDirective, Mark: w.markDirective}})
	name := []string{"Box", "User", "Query", "Shade", "Nope"}[zzsym.Choice("type", 5)]
	aliased := zzsym.Choice("aliased", 2) == 1
	q := `{ __type(name: "` + name + `") { name fields { name } } __schema { types { name } } }`
	if aliased {
		q = `query($n: String!) { t: __type(name: $n) { name fields { name } } s: __schema { types { name } } }`
	}
	doc, errs := gqlparser.LoadQuery(&reduced, q)
	zzsym.Assert(errs == nil, "the introspection query is valid against the configured schema")
	ex := newExecutorFor(es, w)
	opCtx := opCtxFor(w, doc, map[string]any{"n": name})
	rh, ctx2 := ex.DispatchOperation(graphql.StartOperationTrace(context.Background()), opCtx)
	resp := rh(ctx2)
	type typ struct {
		Name   string
		Fields []struct{ Name string }
	}
	type sch struct{ Types []struct{ Name string } }
	var out struct {
		Type   *typ `json:"__type"`
		T      *typ `json:"t"`
		Schema *sch `json:"__schema"`
		S      *sch `json:"s"`
	}
	zzsym.Assert(len(resp.Errors) == 0 && json.Unmarshal(resp.Data, &out) == nil, "introspection answers without errors")
	t, sc := out.Type, out.Schema
	if aliased {
		t, sc = out.T, out.S
	}
	_, inReduced := reduced.Types[name]
	zzsym.Assert(sc != nil, "__schema is answered")
	zzsym.Assert((t != nil) == inReduced, "__type knows exactly the types of the schema the server was configured with")
	listed := false
	hasBox := false
	for _, x := range sc.Types {
		if x.Name == name {
			listed = true
		}
		if x.Name == "Box" {
			hasBox = true
		}
	}
	zzsym.Assert(listed == inReduced && !hasBox, "__schema lists exactly the types of the configured schema, like __type")
	if t != nil && name == "Query" {
		for _, f := range t.Fields {
			zzsym.Assert(f.Name != "box", "__type describes the configured definition of a type, not the compiled-in one")
		}
	}
	zzsym.Reach("c16.configured")
}

func Setup_C16_gate() { probeSetup() }

// c16Deny is a second gate on introspection (e.g. "internal callers only"): it switches introspection off for the operation.
type c16Deny struct{ on bool }

func (c16Deny) ExtensionName() string                          { return "DenyIntrospection" }
func (c16Deny) Validate(schema graphql.ExecutableSchema) error { return nil }
func (d c16Deny) MutateOperationContext(ctx context.Context, opCtx *graphql.OperationContext) *gqlerror.Error {
	if d.on {
		opCtx.DisableIntrospection = true
	}
	return nil
}

// Harness_C16_gate: the real gate end to end (executor.CreateOperationContext
// with extension.Introspection and a second extension that switches
// introspection off for the operation, registered in either order): the
// extensions are applied in registration order, so the one registered last
// decides - and when that is "off", no shape of introspection query is
// answered.
func Harness_C16_gate() {
	w := newWorld(0, false)
	ex := executor.New(newES(w))
	deny := c16Deny{on: zzsym.Choice("deny", 2) == 1}
	enableFirst := zzsym.Choice("order", 2) == 0
	withEnable := zzsym.Choice("introspectionExtension", 2) == 1
	if enableFirst {
		if withEnable {
			ex.Use(extension.Introspection{})
		}
		ex.Use(deny)
	} else {
		ex.Use(deny)
		if withEnable {
			ex.Use(extension.Introspection{})
		}
	}
	q := []string{`{ __schema { queryType { name } } }`, `{ t: __type(name: "User") { name } }`, `query($n: String!) { ...F } fragment F on Query { x: __type(name: $n) { kind } }`}[zzsym.Choice("query", 3)]
	ctx := graphql.StartOperationTrace(context.Background())
	rc, errs := ex.CreateOperationContext(ctx, &graphql.RawParams{Query: q, Variables: map[string]any{"n": "Item"}})
	zzsym.Assert(len(errs) == 0, "the operation is accepted")
	rh, ctx2 := ex.DispatchOperation(ctx, rc)
	resp := rh(ctx2)
	// enabled iff the introspection extension is present and nothing registered after it switched it off
	enabled := withEnable && (!deny.on || !enableFirst)
	if enabled {
		zzsym.Assert(len(resp.Errors) == 0 && !strings.Contains(string(resp.Data), ":null"), "introspection enabled for this operation: answered")
		zzsym.Reach("c16.gate.on")
	} else {
		zzsym.Assert(len(resp.Errors) == 1 && strings.Contains(string(resp.Data), ":null") && !strings.Contains(string(resp.Data), "Query") && !strings.Contains(string(resp.Data), "OBJECT"), "introspection disabled for this operation: null and one error, no schema data")
		zzsym.Reach("c16.gate.off")
	}
}
