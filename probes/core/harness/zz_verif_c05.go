package graph

import (
	"context"

	"github.com/99designs/gqlgen/graphql"

	"example.com/probe/ref"
	"github.com/99designs/gqlgen/zzsym"
)

func Setup_C05_cancelList() { Setup_C13_defer() }
func Setup_C05_deferOnce()  { Setup_C13_defer() }

// Harness_C05_cancelList: list fan-out (2 and 3 elements, nested resolver
// per element) with the request context cancelled at an arbitrary point
// (never / before execution / inside the k-th resolver call): the response
// function returns (no deadlock at the join) and afterwards nothing is left
// running.
func Harness_C05_cancelList() {
	doc := mustLoad(`{ users { id best { id } } me { friends { id boss { id } } } }`)
	w := newWorld(0, false)
	w.cancels = true
	w.outs["/Query.users"] = ref.Out{List: users("users[0]", "users[1]", "users[2]")}
	w.outs["me/User.friends"] = ref.Out{List: users("me.friends[0]", "me.friends[1]")}
	ctx, cancel := context.WithCancel(context.Background())
	at := zzsym.Choice("cancelAt", 9) // 0 never, 1 before, k>=2: in the (k-1)-th resolver call
	if at == 1 {
		cancel()
	}
	w.onCall = func(n int) {
		if at >= 2 && n == at-1 {
			cancel()
		}
	}
	got := runOpCtx(ctx, -1, w, doc, doc.Operations[0], nil)
	zzsym.Assert(len(got.resps) == 1, "the response function returned a response")
	if at == 0 {
		want := ref.Execute(pSchema, doc, doc.Operations[0], nil, w)
		zzsym.Assert(got.data == want.Data, "uncancelled: the plain result")
	}
	cancel()
	zzsym.Assert(zzsym.Quiesce() == 0, "nothing is left running after the request ended and its context was cancelled")
	zzsym.Reach("c05.list")
}

// Harness_C05_deferOnce: an operation with deferred fragments consumed the
// way a single-response transport does (one payload), then cancelled.
func Harness_C05_deferOnce() {
	fi := zzsym.Choice("family", len(c13Families))
	fam := c13Families[fi]
	vars := map[string]any{}
	for _, v := range fam.flags {
		vars[v] = true
	}
	w := newWorld(0, false)
	w.cancels = true
	doc := c13Docs[fi]
	ctx, cancel := context.WithCancel(context.Background())
	got := runOpCtx(ctx, 1, w, doc, doc.Operations[0], vars)
	zzsym.Assert(len(got.resps) == 1, "the first payload is delivered")
	cancel()
	zzsym.Assert(zzsym.Quiesce() == 0, "no goroutine of the operation outlives the cancelled request when only one payload is taken")
	zzsym.Reach("c05.defer")
}

func Setup_C05_deferCancel() { Setup_C13_defer() }

// Harness_C05_deferCancel: an operation with deferred fragments consumed by a
// streaming transport (drain until nil) while the request context is
// cancelled at an arbitrary point (inside the k-th resolver call, or after
// the k-th payload): the response function always returns and nothing is left
// running.
func Harness_C05_deferCancel() {
	fi := zzsym.Choice("family", len(c13Families))
	fam := c13Families[fi]
	vars := map[string]any{}
	for _, v := range fam.flags {
		vars[v] = true
	}
	w := newWorld(0, false)
	w.cancels = true
	doc := c13Docs[fi]
	ctx, cancel := context.WithCancel(context.Background())
	at := zzsym.Choice("cancelAt", 7) // 0 never; 1..3 inside the k-th resolver call; 4..6 after the (k-3)-th payload
	w.onCall = func(n int) {
		if at >= 1 && at <= 3 && n == at {
			cancel()
		}
	}
	es := newES(w)
	ex := newExecutorFor(es, w)
	rh, ctx2 := ex.DispatchOperation(graphql.StartOperationTrace(ctx), opCtxFor(w, doc, vars))
	n := 0
	for {
		resp := rh(ctx2)
		if resp == nil {
			break
		}
		n++
		if at >= 4 && n == at-3 {
			cancel()
		}
		zzsym.Assert(n <= 16, "the payload sequence ends")
	}
	cancel()
	zzsym.Assert(zzsym.Quiesce() == 0, "nothing is left running after a cancelled streamed operation")
	zzsym.Reach("c05.defercancel")
}

func Setup_C05_deferFaults() { Setup_C13_defer() }

// Harness_C05_deferFaults: an operation with deferred fragments whose
// resolvers fail or yield null at one [two] position(s) - including a
// non-null sibling that nulls the very object carrying a deferred group -
// drained by a streaming transport without any cancellation: once every
// resolver has returned the response function ends the sequence (no payload
// is waited for that was never started) and nothing is left running.
func Harness_C05_deferFaults() {
	fi := zzsym.Choice("family", len(c13Families))
	fam := c13Families[fi]
	vars := map[string]any{}
	for _, v := range fam.flags {
		vars[v] = true
	}
	w := newWorld(zzsym.Param("budget", 1), false)
	doc := c13Docs[fi]
	got := runOp(w, doc, doc.Operations[0], vars)
	zzsym.Assert(len(got.resps) >= 1 && len(got.resps) <= 16, "the payload sequence ends")
	last := got.resps[len(got.resps)-1]
	zzsym.Assert(last.HasNext == nil || !*last.HasNext, "the last payload does not announce another one")
	zzsym.Assert(zzsym.Quiesce() == 0, "nothing is left running after the last payload")
	zzsym.Reach("c05.deferfaults")
}

func Setup_C05_nestedLists() { Setup_C13_defer() }

// Harness_C05_nestedLists: lists of objects inside the elements of a list of
// objects (2..3 outer elements x 2..3 inner elements, a third level below
// the first inner element), no fault and no cancellation: under every
// worker_limit the response function returns the plain result - the workers
// of an outer list never wait for slots that only they can free - and
// nothing is left running.
func Harness_C05_nestedLists() {
	doc := mustLoad(`{ users { id friends { id friends { id } } } }`)
	w := newWorld(0, false)
	w.cancels = true
	n1 := 2 + zzsym.Choice("outer", 2)
	n2 := 2 + zzsym.Choice("inner", 2)
	var outer []string
	for i := 0; i < n1; i++ {
		oid := "users[" + itoa(i) + "]"
		outer = append(outer, oid)
		var inner []string
		for j := 0; j < n2; j++ {
			iid := oid + ".friends[" + itoa(j) + "]"
			inner = append(inner, iid)
			w.outs[iid+"/User.friends"] = ref.Out{List: users(iid+".friends[0]", iid+".friends[1]")}
		}
		w.outs[oid+"/User.friends"] = ref.Out{List: users(inner...)}
	}
	w.outs["/Query.users"] = ref.Out{List: users(outer...)}
	ctx, cancel := context.WithCancel(context.Background())
	got := runOpCtx(ctx, -1, w, doc, doc.Operations[0], nil)
	zzsym.Assert(len(got.resps) == 1, "the response function returned a response")
	want := ref.Execute(pSchema, doc, doc.Operations[0], nil, w)
	zzsym.Assert(got.data == want.Data && len(got.errs) == 0, "nested lists: the plain result")
	cancel()
	zzsym.Assert(zzsym.Quiesce() == 0, "nothing is left running after the request ended")
	zzsym.Reach("c05.nested")
}

func Setup_C05_streamCancel() { probeSetup() }

// Harness_C05_streamCancel: a subscription over a live source - the resolver
// hands out 0..2 events and then keeps its channel open, it only stops
// sending when the context ends (it never closes the channel, which a
// resolver is free not to do) - consumed for k responses, after which the
// caller goes away (context cancelled): the response function then returns
// nil after at most the events still buffered; it never waits for the
// resolver to close the channel, and nothing is left running.
func Harness_C05_streamCancel() {
	doc := mustLoad([]string{`subscription { watch { id best { id } } }`, `subscription { strictWatch { id } }`}[zzsym.Choice("query", 2)])
	w := newWorld(0, false)
	w.liveStream = true
	ctx, cancel := context.WithCancel(context.Background())
	es := newES(w)
	ex := newExecutorFor(es, w)
	oc := opCtxFor(w, doc, nil)
	oc.Operation = doc.Operations[0]
	rh, ctx2 := ex.DispatchOperation(graphql.StartOperationTrace(ctx), oc)
	take := zzsym.Choice("take", 3)
	if take > len(w.subEvents) {
		take = len(w.subEvents) // without a cancellation the next call would rightly wait for the source
	}
	for k := 0; k < take; k++ {
		zzsym.Assert(rh(ctx2) != nil, "a buffered event is answered")
	}
	cancel()
	left := len(w.subEvents) - take
	ended := false
	for k := 0; k <= left; k++ {
		if rh(ctx2) == nil {
			ended = true
			break
		}
	}
	zzsym.Assert(ended, "after the cancellation the stream ends once the buffered events are answered")
	zzsym.Assert(zzsym.Quiesce() == 0, "nothing is left running after a cancelled subscription")
	zzsym.Reach("c05.streamcancel")
}
