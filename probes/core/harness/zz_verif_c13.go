package graph

import (
	"encoding/json"
	"strconv"
	"strings"

	"github.com/vektah/gqlparser/v2/ast"

	"example.com/probe/ref"
	"github.com/99designs/gqlgen/zzsym"
)

var c13Families = []family{
	{`query($d1: Boolean!) { me { id ... @defer(if: $d1, label: "A") { best { id } boss { id } } name } }`, []string{"d1"}},
	{`query($d1: Boolean!, $d2: Boolean!) { me { ... @defer(if: $d1, label: "A") { best { id } } ... @defer(if: $d2, label: "B") { boss { id } friends { id } } } }`, []string{"d1", "d2"}},
	{`query($d1: Boolean!) { users { id ... @defer(if: $d1, label: "L") { friends { id } boss { id } } } }`, []string{"d1"}},
	{`query($d1: Boolean!) { me { ...F @defer(if: $d1, label: "S") } } fragment F on User { pet { __typename } boss { id } }`, []string{"d1"}},
	{`query($d1: Boolean!, $d2: Boolean!) { me { ... @defer(if: $d1, label: "X") { best { id } } } strict { ... @defer(if: $d2, label: "X") { best { id } items { title } } } }`, []string{"d1", "d2"}},
	{`query($d1: Boolean!, $d2: Boolean!) { me { id ... @defer(if: $d1, label: "A") { best { id ... @defer(if: $d2, label: "B") { boss { id } } } } } }`, []string{"d1", "d2"}},
	{`query($d1: Boolean!, $d2: Boolean!) { me { id ... @defer(if: $d1, label: "A") { best { id ... @defer(if: $d2, label: "B") { boss { id } } } friends { id } } } }`, []string{"d1", "d2"}},
	// a non-null resolver-backed sibling outside the fragment: when it fails the object that carries the deferred group is nulled
	{`query($d1: Boolean!) { me { boss { id } ... @defer(if: $d1, label: "A") { best { id } friends { id } } } }`, []string{"d1"}},
	// one label group whose resolver-backed fields are not adjacent (a plain field in between), and interleaved label groups
	{`query($d1: Boolean!) { me { id ... @defer(if: $d1, label: "A") { best { id } name age boss { id } } } }`, []string{"d1"}},
	{`query($d1: Boolean!, $d2: Boolean!) { me { ... @defer(if: $d1, label: "X") { best { id } } ... @defer(if: $d2, label: "Y") { boss { id } } ... @defer(if: $d1, label: "X") { friends { id } } } }`, []string{"d1", "d2"}},
	// a field selected plainly and again, with more sub-fields, inside deferred fragments (inline and spread): whichever
	// payload carries it, the merged result holds the merged selection (the groups hold nullable fields only: which
	// group such a field belongs to when a non-null sibling fails is not settled by the property)
	{`query($d1: Boolean!) { me { id friends { id } ... @defer(if: $d1, label: "A") { friends { name age } best { id } } ...G @defer(if: $d1, label: "B") } } fragment G on User { friends { best { id } } link { id } }`, []string{"d1"}},
	// nullable `if:` variables (names starting with n): true, false, null and not provided - with and without a default ("if" defaults to true)
	{`query($n1: Boolean, $n2: Boolean = false) { me { id ... @defer(if: $n1, label: "N") { best { id } } ... @defer(if: $n2, label: "M") { boss { id } friends { id } } name } }`, []string{"n1", "n2"}},
}

var c13Docs []*ast.QueryDocument

func Setup_C13_defer() {
	probeSetup()
	c13Docs = nil
	for _, f := range c13Families {
		c13Docs = append(c13Docs, mustLoad(f.query))
	}
}

func c13Canon(v any) string {
	b, err := json.Marshal(v)
	if err != nil {
		return "!" + err.Error()
	}
	return string(b)
}

// c13At walks path in tree; ok=false if some step is missing or not an object/list.
func c13At(tree any, path ast.Path) (any, bool) {
	cur := tree
	for _, el := range path {
		switch e := el.(type) {
		case ast.PathName:
			m, ok := cur.(map[string]any)
			if !ok {
				return nil, false
			}
			cur, ok = m[string(e)]
			if !ok {
				return nil, false
			}
		case ast.PathIndex:
			l, ok := cur.([]any)
			if !ok || int(e) < 0 || int(e) >= len(l) {
				return nil, false
			}
			cur = l[int(e)]
		}
	}
	return cur, true
}

// Harness_C13_defer: for every subset of the @defer directives being active
// (symbolic if: variables), every resolver outcome within the budget and
// every completion order of the deferred groups: applying the payloads in
// arrival order rebuilds the plain result (null propagation from inside a
// group stopping at the group's object), no extra errors, every payload's
// object already delivered, hasNext true on all but the last, one payload
// per (path, label), and the sequence ends.
func Harness_C13_defer() {
	fi := zzsym.Choice("family", len(c13Families))
	if only := zzsym.Param("family", -1); only >= 0 {
		zzsym.Assume(fi == only)
	}
	fam := c13Families[fi]
	vars := map[string]any{}
	plainVars := map[string]any{}
	for _, v := range fam.flags {
		plainVars[v] = false
		if strings.HasPrefix(v, "n") {
			switch zzsym.Choice(v, 4) {
			case 0:
				vars[v] = true
			case 1:
				vars[v] = false
			case 2:
				vars[v] = nil
			}
			continue
		}
		vars[v] = zzsym.Bool(v)
	}
	w := newWorld(zzsym.Param("budget", 1), false)
	w.gated = true
	doc := c13Docs[fi]
	op := doc.Operations[0]
	got := runOp(w, doc, op, vars)
	want := ref.ExecuteDeferred(pSchema, doc, op, vars, w)
	plain := ref.Execute(pSchema, doc, op, plainVars, w)

	zzsym.Assert(len(got.resps) >= 1 && len(got.resps) <= 16, "the payload sequence ends")
	var tree, wantTree any
	zzsym.Assert(json.Unmarshal(got.resps[0].Data, &tree) == nil, "initial payload data is JSON")
	zzsym.Assert(json.Unmarshal([]byte(want.Data), &wantTree) == nil, "reference data is JSON")
	seen := map[string]bool{}
	for k, r := range got.resps {
		last := k == len(got.resps)-1
		if len(got.resps) > 1 {
			zzsym.Assert(r.HasNext != nil && *r.HasNext == !last, "hasNext is true on every payload but the last")
		} else {
			zzsym.Assert(r.HasNext == nil || !*r.HasNext, "a single payload has no next")
		}
		if k == 0 {
			continue
		}
		key := pathString(r.Path) + "#" + r.Label
		zzsym.Assert(!seen[key], "each deferred group is delivered exactly once")
		seen[key] = true
		obj, ok := c13At(tree, r.Path)
		m, isObj := obj.(map[string]any)
		if !(ok && isObj) {
			if fin, inFinal := c13At(wantTree, r.Path); !inFinal || fin == nil {
				zzsym.Assert(false, "a deferred payload is delivered for an object that null propagation removed from the response")
			}
		}
		zzsym.Assert(ok && isObj, "a payload never arrives before the payload that delivers its object")
		var data any
		zzsym.Assert(json.Unmarshal(r.Data, &data) == nil, "incremental payload data is JSON")
		if dm, ok := data.(map[string]any); ok {
			for kk, vv := range dm {
				m[kk] = vv
			}
		}
		zzsym.Reach("c13.incremental")
	}
	if c13Canon(tree) != c13Canon(wantTree) {
		zzsym.Event("merged", c13Canon(tree), "want", c13Canon(wantTree))
	}
	zzsym.Assert(c13Canon(tree) == c13Canon(wantTree), "merged payloads equal the plain result (propagation stops at the group's object)")
	// no error that the plain execution would not report
	cnt := map[string]int{}
	for _, e := range plain.Errors {
		cnt[e]++
	}
	for _, e := range got.errs {
		cnt[e]--
		zzsym.Assert(cnt[e] >= 0, "@defer reports no error the plain execution would not report")
	}
	// and every failure of the deferred execution is reported, in the payload that delivers its position: an error of
	// a deferred group belongs to that group's payload, whenever the group happened to finish
	missing := map[string]int{}
	for _, e := range want.Errors {
		missing[e]++
	}
	for _, e := range got.errs {
		missing[e]--
	}
	for e, n := range missing {
		if n > 0 && !c04UnderNull(tree, e) {
			zzsym.Event("missing error", e)
			zzsym.Assert(false, "every failure is reported (none is lost with the payload it belongs to)")
		}
	}
	for k, r := range got.resps {
		if k == 0 {
			continue
		}
		for _, e := range r.Errors {
			zzsym.Assert(strings.HasPrefix(pathString(e.Path), pathString(r.Path)), "an incremental payload carries only errors of positions below its path")
		}
	}
	zzsym.Event("payloads", strconv.Itoa(len(got.resps)))
	zzsym.Reach("c13.compared")
}
