package graph

import (
	"context"
	"strings"
	"sync"

	"github.com/vektah/gqlparser/v2/ast"

	"example.com/probe/ref"
	"github.com/99designs/gqlgen/graphql"
	"github.com/99designs/gqlgen/graphql/executor"
	"github.com/99designs/gqlgen/zzsym"
)

func Setup_C07_sharedDocument() { probeSetup() }

// c07Cache is a query cache (the executor's only permitted memory besides APQ).
type c07Cache struct {
	mu sync.Mutex
	m  map[string]*ast.QueryDocument
}

func (c *c07Cache) Get(ctx context.Context, k string) (*ast.QueryDocument, bool) {
	c.mu.Lock()
	defer c.mu.Unlock()
	d, ok := c.m[k]
	return d, ok
}
func (c *c07Cache) Add(ctx context.Context, k string, d *ast.QueryDocument) {
	c.mu.Lock()
	c.m[k] = d
	c.mu.Unlock()
}

// one query text, executed under different variables: repeated response keys
// whose merged selections depend on the variables (plain repeats, inline
// fragments, fragment spreads), with first selection sets of 1..5 selections
// (so that their backing arrays have and have not spare capacity).
var c07Queries = []string{
	`query Q($s: Boolean!) { me { id name age } me @include(if: $s) { best { id } } me @skip(if: $s) { boss { id } } }`,
	`query Q($s: Boolean!) { me { ...F } me @include(if: $s) { pet { ... on Item { title } } } } fragment F on User { id name age best { id name age } best @skip(if: $s) { boss { id } } best @include(if: $s) { link { id } } }`,
	`query Q($s: Boolean!) { me { id name age ... @include(if: $s) { best { id } } ... @skip(if: $s) { boss { id } } } ... @include(if: $s) { me { link { id } } } }`,
	`query Q($s: Boolean!) { nodes { id ... on User { name age friends { id } } } nodes @skip(if: $s) { ... on Item { title } ... on User { best { id } } } }`,
	`query Q($s: Boolean!) { me { id name age boss { id } friends { id } } me @include(if: $s) { items { title } } me @skip(if: $s) { pet { ... on User { id } } } }`,
	`query Q($s: Boolean!) { me { id } me @include(if: $s) { name } me @skip(if: $s) { age } }`,
}

type c07Out struct {
	data string
	errs int
}

func c07Run(ex *executor.Executor, q string, s bool) c07Out {
	ctx := graphql.StartOperationTrace(context.Background())
	rc, errs := ex.CreateOperationContext(ctx, &graphql.RawParams{Query: q, Variables: map[string]any{"s": s}})
	if len(errs) != 0 {
		return c07Out{"<rejected>", len(errs)}
	}
	rh, ctx2 := ex.DispatchOperation(ctx, rc)
	resp := rh(ctx2)
	return c07Out{string(resp.Data), len(resp.Errors)}
}

// Harness_C07_sharedDocument: two requests with the same query text and
// different variables against one executor with a query cache - one after
// the other (the cached document is frozen after the first) or side by side
// (every schedule the engine explores, under the race detector): each
// response equals what a fresh, uncached execution yields for that request
// alone, and nothing is stored into the shared document.
func Harness_C07_sharedDocument() {
	qi := zzsym.Choice("query", len(c07Queries))
	q := c07Queries[qi]
	w := newWorld(0, false)
	es := newES(w)
	ex := newExecutorFor(es, w)
	cache := &c07Cache{m: map[string]*ast.QueryDocument{}}
	ex.SetQueryCache(cache)
	want := func(s bool) string {
		doc := mustLoad(q)
		return ref.Execute(pSchema, doc, doc.Operations[0], map[string]any{"s": s}, w).Data
	}
	if zzsym.Choice("mode", 2) == 0 {
		s1, s2 := zzsym.Bool("s1"), zzsym.Bool("s2")
		r1 := c07Run(ex, q, s1)
		zzsym.Assert(r1.data == want(s1), "the first request (cache miss) is answered like an uncached one")
		zzsym.Assert(len(cache.m) == 1, "the document is cached")
		for _, d := range cache.m {
			zzsym.Frozen("cached document", d)
		}
		r2 := c07Run(ex, q, s2)
		zzsym.Assert(r2.data == want(s2), "a request served from the cached document is answered like an uncached one")
		zzsym.Reach("c07.doc.sequential")
		return
	}
	if qi >= zzsym.Param("concq", 6) {
		zzsym.Assume(false) // the quick tier explores the schedules of the first documents only
	}
	c07Run(ex, q, true) // fill the cache
	var wg sync.WaitGroup
	var ra, rb c07Out
	wg.Add(2)
	go func() { defer wg.Done(); ra = c07Run(ex, q, true) }()
	go func() { defer wg.Done(); rb = c07Run(ex, q, false) }()
	wg.Wait()
	zzsym.Assert(ra.data == want(true), "a request is answered like an uncached one whatever runs beside it (s=true)")
	zzsym.Assert(rb.data == want(false), "a request is answered like an uncached one whatever runs beside it (s=false)")
	zzsym.Reach("c07.doc.concurrent")
}

func Setup_C07_panicHistory() { probeSetup() }

// Harness_C07_panicHistory: two operations in one process, each with a
// resolver that panics at a different position, under the default recover
// function (a server on which SetRecoverFunc was never called): each
// response is the reference's for that operation alone - the error of the
// second carries its own path, not anything of the first.
func Harness_C07_panicHistory() {
	docs := []string{
		`{ me { best { id } } }`,
		`{ me { pet { __typename } name } }`,
		`{ users { link { id } } }`,
		`{ me { friends { boss { id } } } }`,
		`{ me { best { id } pet { __typename } name } }`, // two panics in one operation
	}
	spots := [][]string{{"me/User.best"}, {"me/User.pet"}, {"users[0]/User.link"}, {"me.friends[0]/User.boss"}, {"me/User.best", "me/User.pet"}}
	i1 := zzsym.Choice("first", len(docs))
	i2 := zzsym.Choice("second", len(docs))
	run := func(i int) (runResult, ref.Result) {
		doc := mustLoad(docs[i])
		w := newWorld(0, false)
		w.defaultRecover = true
		w.outs["/Query.users"] = ref.Out{List: users("users[0]")}
		w.outs["me/User.friends"] = ref.Out{List: users("me.friends[0]")}
		for _, sp := range spots[i] {
			w.outs[sp] = ref.Out{K: ref.KPanic}
		}
		op := doc.Operations[0]
		got := runOp(w, doc, op, nil)
		want := ref.Execute(pSchema, doc, op, nil, w)
		return got, want
	}
	run(i1)
	got, want := run(i2)
	zzsym.Event("errors", strings.Join(got.errs, " "))
	zzsym.Assert(got.data == want.Data, "the data of the second operation is its own")
	zzsym.Assert(len(want.Errors) >= 1 && sameErrors(got.errs, want.Errors), "the errors of the second operation carry their own paths, whatever panicked before")
	zzsym.Reach("c07.panics")
}
