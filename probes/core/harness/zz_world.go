package graph

import (
	"context"
	"errors"
	"fmt"
	"sort"
	"strconv"
	"strings"
	"sync"

	"github.com/vektah/gqlparser/v2"
	"github.com/vektah/gqlparser/v2/ast"
	"github.com/vektah/gqlparser/v2/gqlerror"

	"example.com/probe/ref"
	"github.com/99designs/gqlgen/graphql"
	"github.com/99designs/gqlgen/graphql/executor"
	"github.com/99designs/gqlgen/zzsym"
)

// world decides lazily (one zzsym.Choice per position, cached) what every
// resolver-backed position and directive invocation yields; the generated
// executor's resolvers and the reference read the same answers.
type world struct {
	mu             sync.Mutex
	outs           map[string]ref.Out
	guards         map[string]ref.Kind
	budget         int  // how many positions may still deviate from the default outcome
	panics         bool // outcome alphabet includes panic
	calls          []string
	recovers       int
	raised         int         // panics actually raised by user code
	args           []string    // arguments received by User.calc, rendered
	introspection  bool        // introspection enabled for the operation
	onCall         func(n int) // called at the n-th resolver call (cancellation points)
	liveStream     bool        // subscription resolvers keep their channel open after the last event (a live source that only stops sending when the context ends)
	regExt         bool        // every resolver-backed field registers the response extension "cost": the second registration is an API misuse that panics inside gqlgen
	regs           int
	regExtOwn      bool     // every resolver-backed field registers an extension under its own key
	regKeys        []string // the keys registered so far
	defaultRecover bool     // the operation runs with graphql.DefaultRecover (what a server without SetRecoverFunc uses)
	cancels        bool     // the harness cancels the request context itself (C05): a cancelled context is not a fault then
	subEvents      []*User  // the events the subscription resolver emitted
	onlyIntercept  bool     // deviations are spent on interceptor outcomes only
	intercept      bool     // the field interceptor may fail (C04): one more fault point around every field
	gated          bool     // resolver calls are schedule gates (C06/C13: completion orders are replayed natively)
}

var theWorld *world

func newWorld(budget int, panics bool) *world {
	theWorld = &world{outs: map[string]ref.Out{}, guards: map[string]ref.Kind{}, budget: budget, panics: panics}
	OddPanicHook = theWorld.notePanic
	return theWorld
}

func (w *world) notePanic() {
	w.mu.Lock()
	w.raised++
	w.mu.Unlock()
}

// pick chooses among n alternatives for a position; 0 is the default.
func (w *world) pick(key string, n int) int {
	if w.budget <= 0 || (w.onlyIntercept && !strings.HasPrefix(key, "mw:")) {
		return 0
	}
	c := zzsym.Choice(key, n)
	if c != 0 {
		w.budget--
	}
	return c
}

func users(ids ...string) []*ref.Obj {
	var r []*ref.Obj
	for _, id := range ids {
		if id == "" {
			r = append(r, nil)
		} else {
			r = append(r, ref.NewUser(id))
		}
	}
	return r
}

func (w *world) fault(c, base int) (ref.Out, bool) {
	switch c - base {
	case 0:
		return ref.Out{K: ref.KError}, true
	case 1:
		return ref.Out{K: ref.KPanic}, true
	}
	return ref.Out{}, false
}

func (w *world) na() int { // "alien value" alternative (only with the panic alphabet)
	if w.panics {
		return 1
	}
	return 0
}

func (w *world) nf() int { // number of fault alternatives
	if w.panics {
		return 2
	}
	return 1
}

func (w *world) Resolve(pt, pid, field string, args map[string]any) ref.Out {
	w.mu.Lock()
	defer w.mu.Unlock()
	key := pid + "/" + pt + "." + field
	if o, ok := w.outs[key]; ok {
		return o
	}
	cid := field
	if pid != "" {
		cid = pid + "." + field
	}
	var o ref.Out
	switch pt + "." + field {
	case "Query.box":
		c := w.pick(key, 2+w.nf())
		switch c {
		case 0:
			o = ref.Out{Obj: ref.NewBox(cid)}
		case 1:
			o = ref.Out{K: ref.KNull}
		default:
			o, _ = w.fault(c, 2)
		}
	case "Query.me", "Query.user", "User.best", "Box.inner", "Commands.c", "Item.owner", "User.boss", "Query.strict", "User.link", "Item.link":
		c := w.pick(key, 2+w.nf())
		switch c {
		case 0:
			o = ref.Out{Obj: ref.NewUser(cid)}
		case 1:
			o = ref.Out{K: ref.KNull}
		default:
			o, _ = w.fault(c, 2)
		}
	case "User.friends":
		c := w.pick(key, 5+w.nf())
		switch c {
		case 0:
			o = ref.Out{List: users(cid + "[0]")}
		case 1:
			o = ref.Out{List: []*ref.Obj{}}
		case 2:
			o = ref.Out{K: ref.KNull}
		case 3:
			o = ref.Out{List: users(cid+"[0]", cid+"[1]")}
		case 4:
			o = ref.Out{List: users(cid+"[0]", "")}
		default:
			o, _ = w.fault(c, 5)
		}
	case "Query.users":
		// a Go nil slice in a non-null list position is the empty list: no "null" alternative
		c := w.pick(key, 4+w.nf())
		switch c {
		case 0:
			o = ref.Out{List: users(cid + "[0]")}
		case 1:
			o = ref.Out{List: []*ref.Obj{}}
		case 2:
			o = ref.Out{List: users(cid+"[0]", cid+"[1]")}
		case 3:
			o = ref.Out{List: users(cid+"[0]", "")}
		default:
			o, _ = w.fault(c, 4)
		}
	case "User.items":
		// non-null list: nil slice == empty list (see Query.users)
		c := w.pick(key, 3+w.nf())
		switch c {
		case 0:
			o = ref.Out{List: []*ref.Obj{ref.NewItem(cid + "[0]")}}
		case 1:
			o = ref.Out{List: []*ref.Obj{}}
		case 2:
			o = ref.Out{List: []*ref.Obj{ref.NewItem(cid + "[0]"), nil}}
		default:
			o, _ = w.fault(c, 3)
		}
	case "Query.nodes":
		c := w.pick(key, 4+w.nf()+w.na())
		if w.panics && c == 4+w.nf() {
			// an element of a Go type that is not a schema implementor: the element marshaler panics
			o = ref.Out{List: []*ref.Obj{ref.NewUser(cid + "[0]"), {Type: "Alien", ID: cid + "[1]"}, ref.NewItem(cid + "[2]")}}
			break
		}
		switch c {
		case 0:
			o = ref.Out{List: []*ref.Obj{ref.NewUser(cid + "[0]"), ref.NewItem(cid + "[1]")}}
		case 1:
			o = ref.Out{List: []*ref.Obj{nil}}
		case 2:
			o = ref.Out{K: ref.KNull}
		case 3:
			o = ref.Out{List: []*ref.Obj{}}
		default:
			o, _ = w.fault(c, 4)
		}
	case "User.pet", "Query.node":
		c := w.pick(key, 3+w.nf())
		switch c {
		case 0:
			o = ref.Out{Obj: ref.NewUser(cid)}
		case 1:
			o = ref.Out{Obj: ref.NewItem(cid)}
		case 2:
			o = ref.Out{K: ref.KNull}
		default:
			o, _ = w.fault(c, 3)
		}
	case "User.secret", "User.echo", "User.calc", "User.patch", "User.tint":
		c := w.pick(key, 2+w.nf())
		switch c {
		case 0:
			o = ref.Out{Str: "s:" + cid}
		case 1:
			o = ref.Out{K: ref.KNull}
		default:
			o, _ = w.fault(c, 2)
		}
	case "User.marks", "Query.odds":
		c := w.pick(key, 4+w.nf())
		a, b := "o1:"+cid, "o2:"+cid
		switch c {
		case 0:
			o = ref.Out{Strs: []*string{&a, &b}}
		case 1:
			o = ref.Out{Strs: []*string{&a, nil}}
		case 2:
			o = ref.Out{K: ref.KNull}
		case 3:
			o = ref.Out{Strs: []*string{}}
		default:
			o, _ = w.fault(c, 4)
		}
	case "User.stamps":
		// non-null list: nil slice == empty list (see Query.users)
		c := w.pick(key, 3+w.nf())
		a, b := "o1:"+cid, "o2:"+cid
		switch c {
		case 0:
			o = ref.Out{Strs: []*string{&a}}
		case 1:
			o = ref.Out{Strs: []*string{nil, &b}}
		case 2:
			o = ref.Out{Strs: []*string{}}
		default:
			o, _ = w.fault(c, 3)
		}
	case "Commands.d":
		c := w.pick(key, 2+w.nf())
		switch c {
		case 0:
			o = ref.Out{List: users(cid+"[0]", cid+"[1]")}
		case 1:
			o = ref.Out{List: users(cid+"[0]", "", cid+"[2]")}
		default:
			o, _ = w.fault(c, 2)
		}
	case "Commands.a":
		c := w.pick(key, 1+w.nf())
		switch c {
		case 0:
			o = ref.Out{Int: 41}
		default:
			o, _ = w.fault(c, 1)
		}
	case "Commands.b":
		c := w.pick(key, 2+w.nf())
		switch c {
		case 0:
			o = ref.Out{Int: 42}
		case 1:
			o = ref.Out{K: ref.KNull}
		default:
			o, _ = w.fault(c, 2)
		}
	default:
		panic("world: unknown position " + pt + "." + field)
	}
	w.outs[key] = o
	return o
}

// Intercept: outcome of the field interceptor around (parent, field).
func (w *world) Intercept(pt, pid, field string) ref.Kind {
	if !w.intercept {
		return ref.KValue
	}
	w.mu.Lock()
	defer w.mu.Unlock()
	key := "mw:" + pid + "/" + pt + "." + field
	if g, ok := w.guards[key]; ok {
		return g
	}
	g := ref.KValue
	switch w.pick(key, 2+w.nf()) {
	case 1:
		g = ref.KNull
	case 2:
		g = ref.KError
	case 3:
		g = ref.KPanic
	}
	w.guards[key] = g
	return g
}

// worldPID is the world's id of the object a field context's field is resolved on
// (field names, not aliases; list elements as [i]).
func worldPID(fc *graphql.FieldContext) string {
	var chain []*graphql.FieldContext
	for p := fc.Parent; p != nil; p = p.Parent {
		chain = append(chain, p)
	}
	id := ""
	for k := len(chain) - 1; k >= 0; k-- {
		c := chain[k]
		switch {
		case c.Index != nil:
			id += "[" + strconv.Itoa(*c.Index) + "]"
		case c.Field.Field != nil:
			if id != "" {
				id += "."
			}
			id += c.Field.Name
		}
	}
	return id
}

func (w *world) fieldMiddleware(ctx context.Context, next graphql.Resolver) (any, error) {
	if !w.cancels {
		// user code honours its context (data loaders, database calls do): nothing but the
		// end of the request may cancel it - not, for instance, the failure of a sibling
		if err := ctx.Err(); err != nil {
			return nil, err
		}
	}
	if w.regExtOwn {
		// every resolver-backed field registers a response extension under a key of its own (what tracing / cost extensions do)
		if fc := graphql.GetFieldContext(ctx); fc.IsResolver {
			key := "x:" + worldPID(fc) + "/" + fc.Field.Alias
			w.mu.Lock()
			w.regKeys = append(w.regKeys, key)
			w.mu.Unlock()
			graphql.RegisterExtension(ctx, key, 1)
		}
	}
	if w.regExt {
		if fc := graphql.GetFieldContext(ctx); fc.IsResolver {
			w.mu.Lock()
			n := w.regs
			w.regs++
			if n >= 1 {
				// this registration panics ("extension already registered"): user code failing at this position
				w.guards["mw:"+worldPID(fc)+"/"+fc.Object+"."+fc.Field.Name] = ref.KPanic
				w.raised++
			}
			w.mu.Unlock()
			graphql.RegisterExtension(ctx, "cost", n)
		}
	}
	if w.intercept {
		fc := graphql.GetFieldContext(ctx)
		switch w.Intercept(fc.Object, worldPID(fc), fc.Field.Name) {
		case ref.KNull:
			return nil, nil
		case ref.KError:
			return nil, errBoom
		case ref.KPanic:
			w.notePanic()
			panic("interceptor panic")
		}
	}
	return next(ctx)
}

func (w *world) Guard(k int, pid, field string) ref.Kind {
	w.mu.Lock()
	defer w.mu.Unlock()
	key := "guard" + strconv.Itoa(k) + ":" + pid + "." + field
	if g, ok := w.guards[key]; ok {
		return g
	}
	g := ref.KValue
	if k == 3 {
		// argument directive: pass, error, panic
		switch c := w.pick(key, 1+w.nf()); c {
		case 1:
			g = ref.KError
		case 2:
			g = ref.KPanic
		}
	} else {
		switch c := w.pick(key, 2+w.nf()); c {
		case 1:
			g = ref.KNull
		case 2:
			g = ref.KError
		case 3:
			g = ref.KPanic
		}
	}
	w.guards[key] = g
	return g
}

func (w *world) called(key string) {
	if w.gated {
		zzsym.Gate(key)
	}
	w.mu.Lock()
	w.calls = append(w.calls, key)
	n := len(w.calls)
	hook := w.onCall
	w.mu.Unlock()
	if hook != nil {
		hook(n)
	}
}

// ---- resolvers of the generated ResolverRoot, answering from the world

type resolverRoot struct{ w *world }

func (r *resolverRoot) Query() QueryResolver               { return &queryResolver{r.w} }
func (r *resolverRoot) Commands() CommandsResolver         { return &mutationResolver{r.w} }
func (r *resolverRoot) Subscription() SubscriptionResolver { return &subscriptionResolver{r.w} }
func (r *resolverRoot) User() UserResolver                 { return &userResolver{r.w} }
func (r *resolverRoot) Item() ItemResolver                 { return &itemResolver{r.w} }
func (r *resolverRoot) Box() BoxResolver                   { return &boxResolver{r.w} }

type boxResolver struct{ w *world }

func (r *boxResolver) Inner(ctx context.Context, obj *Box) (*User, error) {
	return r.w.user("Box", obj.ID, "inner")
}
func (r *queryResolver) Box(ctx context.Context) (*Box, error) {
	r.w.called("/Query.box")
	o := r.w.Resolve("Query", "", "box", nil)
	if done, err := outErr(o); done {
		return nil, err
	}
	return &Box{ID: o.Obj.ID, Seal: "seal:" + o.Obj.ID, Code: 7}, nil
}

var errBoom = errors.New("boom")

func outErr(o ref.Out) (bool, error) {
	switch o.K {
	case ref.KErrors:
		return true, gqlerror.List{gqlerror.Errorf("boom 1"), gqlerror.Errorf("boom 2")}
	case ref.KError:
		return true, errBoom
	case ref.KPanic:
		theWorld.notePanic()
		panic("resolver panic")
	case ref.KNull:
		return true, nil
	}
	return false, nil
}

func mkUser(o *ref.Obj) *User {
	if o == nil {
		return nil
	}
	return &User{ID: o.ID, Name: o.Name, Age: o.Age}
}

func mkItem(o *ref.Obj) *Item {
	if o == nil {
		return nil
	}
	return &Item{ID: o.ID, Title: o.Title}
}

func (w *world) user(pt, pid, field string) (*User, error) {
	w.called(pid + "/" + pt + "." + field)
	o := w.Resolve(pt, pid, field, nil)
	if o.K == ref.KErrVal {
		// a resolver that fails after it built (part of) its result and returns both
		return mkUser(o.Obj), errBoom
	}
	if done, err := outErr(o); done {
		return nil, err
	}
	return mkUser(o.Obj), nil
}

func (w *world) userList(pt, pid, field string) ([]*User, error) {
	w.called(pid + "/" + pt + "." + field)
	o := w.Resolve(pt, pid, field, nil)
	if done, err := outErr(o); done {
		return nil, err
	}
	r := make([]*User, len(o.List))
	for i, e := range o.List {
		r[i] = mkUser(e)
	}
	return r, nil
}

func (w *world) oddList(pt, pid, field string) ([]*Odd, error) {
	w.called(pid + "/" + pt + "." + field)
	o := w.Resolve(pt, pid, field, nil)
	if done, err := outErr(o); done {
		return nil, err
	}
	if o.Strs == nil {
		return nil, nil
	}
	r := make([]*Odd, len(o.Strs))
	for i, e := range o.Strs {
		if e != nil {
			r[i] = &Odd{V: *e}
		}
	}
	return r, nil
}

func mkNode(o *ref.Obj) Node {
	if o == nil {
		return nil
	}
	switch o.Type {
	case "User":
		return mkUser(o)
	case "Alien":
		if theWorld != nil {
			theWorld.notePanic() // marshalling it will panic exactly once
		}
		return Alien{ID: o.ID}
	}
	return mkItem(o)
}

type queryResolver struct{ w *world }

func (r *queryResolver) Me(ctx context.Context) (*User, error) { return r.w.user("Query", "", "me") }
func (r *queryResolver) User(ctx context.Context, id string) (*User, error) {
	return r.w.user("Query", "", "user")
}
func (r *queryResolver) Node(ctx context.Context, id string) (Node, error) {
	r.w.called("/Query.node")
	o := r.w.Resolve("Query", "", "node", nil)
	if done, err := outErr(o); done {
		return nil, err
	}
	return mkNode(o.Obj), nil
}
func (r *queryResolver) Users(ctx context.Context, f *Filter) ([]*User, error) {
	return r.w.userList("Query", "", "users")
}
func (r *queryResolver) Nodes(ctx context.Context) ([]Node, error) {
	r.w.called("/Query.nodes")
	o := r.w.Resolve("Query", "", "nodes", nil)
	if done, err := outErr(o); done {
		return nil, err
	}
	res := make([]Node, len(o.List))
	for i, e := range o.List {
		res[i] = mkNode(e)
	}
	return res, nil
}
func (r *queryResolver) Odds(ctx context.Context) ([]*Odd, error) {
	return r.w.oddList("Query", "", "odds")
}
func (r *queryResolver) Strict(ctx context.Context) (*User, error) {
	return r.w.user("Query", "", "strict")
}

type mutationResolver struct{ w *world }

func (r *mutationResolver) A(ctx context.Context, x int) (int, error) {
	r.w.called("/Commands.a")
	o := r.w.Resolve("Commands", "", "a", nil)
	if done, err := outErr(o); done {
		return 0, err
	}
	return o.Int, nil
}
func (r *mutationResolver) B(ctx context.Context, x int) (*int, error) {
	r.w.called("/Commands.b")
	o := r.w.Resolve("Commands", "", "b", nil)
	if done, err := outErr(o); done {
		return nil, err
	}
	v := o.Int
	return &v, nil
}
func (r *mutationResolver) C(ctx context.Context) (*User, error) {
	return r.w.user("Commands", "", "c")
}

func (r *mutationResolver) D(ctx context.Context) ([]*User, error) {
	return r.w.userList("Commands", "", "d")
}

type subscriptionResolver struct{ w *world }

// Watch / StrictWatch: a stream of user events decided by the world:
// subscribing may fail; then 0..2 events, users "watch#1", "watch#2" (the
// second possibly nil).
func (r *subscriptionResolver) events(field string) (<-chan *User, error) {
	w := r.w
	w.called("/Subscription." + field)
	w.mu.Lock()
	c := w.pick("sub:"+field, 4+w.nf())
	w.mu.Unlock()
	var evs []*User
	switch c {
	case 0:
		evs = []*User{mkUser(ref.NewUser(field + "#1")), mkUser(ref.NewUser(field + "#2"))}
	case 1:
		evs = []*User{mkUser(ref.NewUser(field + "#1"))}
	case 2:
		evs = nil
	case 3:
		evs = []*User{mkUser(ref.NewUser(field + "#1")), nil}
	case 4:
		return nil, errBoom
	default:
		w.notePanic()
		panic("subscribe panic")
	}
	w.subEvents = evs
	ch := make(chan *User, len(evs))
	for _, e := range evs {
		ch <- e
	}
	if !w.liveStream {
		close(ch)
	}
	return ch, nil
}
func (r *subscriptionResolver) Watch(ctx context.Context) (<-chan *User, error) {
	return r.events("watch")
}
func (r *subscriptionResolver) StrictWatch(ctx context.Context) (<-chan *User, error) {
	return r.events("strictWatch")
}

func (r *subscriptionResolver) Ticks(ctx context.Context, n *int) (<-chan int, error) {
	ch := make(chan int, 1)
	ch <- 1
	close(ch)
	return ch, nil
}

type userResolver struct{ w *world }

func (r *userResolver) Best(ctx context.Context, obj *User) (*User, error) {
	return r.w.user("User", obj.ID, "best")
}
func (r *userResolver) Boss(ctx context.Context, obj *User) (*User, error) {
	return r.w.user("User", obj.ID, "boss")
}
func (r *userResolver) Friends(ctx context.Context, obj *User) ([]*User, error) {
	return r.w.userList("User", obj.ID, "friends")
}
func (r *userResolver) Items(ctx context.Context, obj *User) ([]*Item, error) {
	r.w.called(obj.ID + "/User.items")
	o := r.w.Resolve("User", obj.ID, "items", nil)
	if done, err := outErr(o); done {
		return nil, err
	}
	res := make([]*Item, len(o.List))
	for i, e := range o.List {
		res[i] = mkItem(e)
	}
	return res, nil
}
func (r *userResolver) Pet(ctx context.Context, obj *User) (Pet, error) {
	r.w.called(obj.ID + "/User.pet")
	o := r.w.Resolve("User", obj.ID, "pet", nil)
	if done, err := outErr(o); done {
		return nil, err
	}
	if o.Obj.Type == "User" {
		return mkUser(o.Obj), nil
	}
	return mkItem(o.Obj), nil
}
func (r *userResolver) str(obj *User, field string) (*string, error) {
	r.w.called(obj.ID + "/User." + field)
	o := r.w.Resolve("User", obj.ID, field, nil)
	if done, err := outErr(o); done {
		return nil, err
	}
	s := o.Str
	return &s, nil
}
func (r *userResolver) Secret(ctx context.Context, obj *User) (*string, error) {
	return r.str(obj, "secret")
}
func (r *userResolver) Echo(ctx context.Context, obj *User, n *int, s *string, o *Odd) (*string, error) {
	return r.str(obj, "echo")
}
func (r *userResolver) Marks(ctx context.Context, obj *User) ([]*Odd, error) {
	return r.w.oddList("User", obj.ID, "marks")
}
func (r *userResolver) Stamps(ctx context.Context, obj *User) ([]*Odd, error) {
	return r.w.oddList("User", obj.ID, "stamps")
}
func (r *userResolver) Link(ctx context.Context, obj *User) (*User, error) {
	return r.w.user("User", obj.ID, "link")
}

func renderFilter(f *Filter) string {
	if f == nil {
		return "nil"
	}
	s := "{min:"
	if f.Min == nil {
		s += "nil"
	} else {
		s += strconv.Itoa(*f.Min)
	}
	s += " tags:"
	if f.Tags == nil {
		s += "nil"
	} else {
		s += "[" + strings.Join(f.Tags, ",") + "]"
	}
	s += " sub:" + renderFilter(f.Sub) + " g:"
	if f.G == nil {
		s += "nil"
	} else {
		s += strconv.Itoa(*f.G)
	}
	return s + "}"
}

func renderInts(xs []int) string {
	if xs == nil {
		return "nil"
	}
	var p []string
	for _, x := range xs {
		p = append(p, strconv.Itoa(x))
	}
	return "[" + strings.Join(p, ",") + "]"
}

// Calc records exactly what the generated argument binder handed over.
func (r *userResolver) Calc(ctx context.Context, obj *User, f *Filter, xs []int, e *Color, o *Odd, id *string, fl *float64, n int, ys [][]int) (*string, error) {
	a := "f=" + renderFilter(f) + " xs=" + renderInts(xs) + " e="
	if e == nil {
		a += "nil"
	} else {
		a += string(*e)
	}
	a += " o="
	if o == nil {
		a += "nil"
	} else {
		a += o.V
	}
	a += " id="
	if id == nil {
		a += "nil"
	} else {
		a += *id
	}
	a += " fl="
	if fl == nil {
		a += "nil"
	} else {
		a += strconv.FormatFloat(*fl, 'g', -1, 64)
	}
	a += " n=" + strconv.Itoa(n) + " ys="
	if ys == nil {
		a += "nil"
	} else {
		var p []string
		for _, y := range ys {
			p = append(p, renderInts(y))
		}
		a += "[" + strings.Join(p, ",") + "]"
	}
	r.w.mu.Lock()
	r.w.args = append(r.w.args, a)
	r.w.mu.Unlock()
	return r.str(obj, "calc")
}

func renderPatch(p *Patch) string {
	if p == nil {
		return "nil"
	}
	s := "{note:"
	switch v, set := p.Note.ValueOK(); {
	case !set:
		s += "unset"
	case v == nil:
		s += "null"
	default:
		s += *v
	}
	s += " count:"
	switch v, set := p.Count.ValueOK(); {
	case !set:
		s += "unset"
	case v == nil:
		s += "null"
	default:
		s += strconv.Itoa(*v)
	}
	s += " tags:"
	switch v, set := p.Tags.ValueOK(); {
	case !set:
		s += "unset"
	case v == nil:
		s += "null"
	default:
		s += "[" + strings.Join(v, ",") + "]"
	}
	s += " sub:"
	switch v, set := p.Sub.ValueOK(); {
	case !set:
		s += "unset"
	case v == nil:
		s += "null"
	default:
		s += renderPatch(v)
	}
	return s + "}"
}

func renderBag(b map[string]any) string {
	if b == nil {
		return "nil"
	}
	var ks []string
	for k := range b {
		ks = append(ks, k)
	}
	sort.Strings(ks)
	s := "{"
	for i, k := range ks {
		if i > 0 {
			s += " "
		}
		s += k + ":"
		switch v := b[k].(type) {
		case nil:
			s += "null"
		case map[string]any:
			if v == nil {
				s += "null"
			} else {
				s += renderBag(v)
			}
		case *int:
			if v == nil {
				s += "null"
			} else {
				s += strconv.Itoa(*v)
			}
		case int:
			s += strconv.Itoa(v)
		case *string:
			if v == nil {
				s += "null"
			} else {
				s += *v
			}
		case string:
			s += v
		default:
			s += fmt.Sprintf("?%T", v)
		}
	}
	return s + "}"
}

// Patch records what the binder handed over for the Omittable-backed and the map-backed input.
func (r *userResolver) Patch(ctx context.Context, obj *User, p *Patch, b map[string]any) (*string, error) {
	r.w.mu.Lock()
	r.w.args = append(r.w.args, "p="+renderPatch(p)+" b="+renderBag(b))
	r.w.mu.Unlock()
	return r.str(obj, "patch")
}

// Tint records the generated enum values the binder handed over.
func (r *userResolver) Tint(ctx context.Context, obj *User, s *Shade, ss []Shade) (*string, error) {
	a := "s="
	if s == nil {
		a += "nil"
	} else {
		a += string(*s)
	}
	a += " ss="
	if ss == nil {
		a += "nil"
	} else {
		var p []string
		for _, x := range ss {
			p = append(p, string(x))
		}
		a += "[" + strings.Join(p, ",") + "]"
	}
	r.w.mu.Lock()
	r.w.args = append(r.w.args, a)
	r.w.mu.Unlock()
	return r.str(obj, "tint")
}

type itemResolver struct{ w *world }

func (r *itemResolver) Owner(ctx context.Context, obj *Item) (*User, error) {
	return r.w.user("Item", obj.ID, "owner")
}
func (r *itemResolver) Link(ctx context.Context, obj *Item) (*User, error) {
	return r.w.user("Item", obj.ID, "link")
}

// ---- directive

func (w *world) guardDirective(ctx context.Context, obj any, next graphql.Resolver, k int) (any, error) {
	fc := graphql.GetFieldContext(ctx)
	pid := ""
	switch o := obj.(type) {
	case *User:
		pid = o.ID
	case *Item:
		pid = o.ID
	case *Box:
		pid = o.ID
	}
	if k == 3 {
		// argument directive: keyed by the response path of the field (the path context ends with the argument name)
		p := graphql.GetPath(ctx)
		arg := ""
		if n := len(p); n > 0 {
			if a, ok := p[n-1].(ast.PathName); ok {
				arg = string(a)
			}
			p = p[:n-1]
		}
		switch w.Guard(3, pathString(p), fc.Field.Name+"."+arg) {
		case ref.KError:
			return nil, errBoom
		case ref.KPanic:
			w.notePanic()
			panic("argument directive panic")
		}
		return next(ctx)
	}
	if k != 1 {
		return next(ctx) // input-field location: pass through
	}
	switch w.Guard(k, pid, fc.Field.Name) {
	case ref.KNull:
		return nil, nil
	case ref.KError:
		return nil, errBoom
	case ref.KPanic:
		w.notePanic()
		panic("directive panic")
	}
	return next(ctx)
}

// markDirective: the executable directive @mark(k) on a field of the operation.
func (w *world) markDirective(ctx context.Context, obj any, next graphql.Resolver, k int) (any, error) {
	fc := graphql.GetFieldContext(ctx)
	pid := ""
	switch o := obj.(type) {
	case *User:
		pid = o.ID
	case *Item:
		pid = o.ID
	case *Box:
		pid = o.ID
	}
	switch w.Guard(5, pid, fc.Field.Name) {
	case ref.KNull:
		return nil, nil
	case ref.KError:
		return nil, errBoom
	case ref.KPanic:
		w.notePanic()
		panic("field directive panic")
	}
	return next(ctx)
}

// ---- running one operation through the generated executor

var (
	pSchema *ast.Schema
)

func probeSetup() {
	ref.CallArgumentDirectivesWithNull = probeCallArgumentDirectivesWithNull
	es := NewExecutableSchema(Config{Resolvers: &resolverRoot{}})
	pSchema = es.Schema()
}

func mustLoad(q string) *ast.QueryDocument {
	doc, errs := gqlparser.LoadQuery(pSchema, q)
	if errs != nil {
		panic(errs)
	}
	return doc
}

func pathString(p ast.Path) string {
	var sb strings.Builder
	for i, e := range p {
		switch e := e.(type) {
		case ast.PathName:
			if i > 0 {
				sb.WriteByte('.')
			}
			sb.WriteString(string(e))
		case ast.PathIndex:
			sb.WriteString("[" + strconv.Itoa(int(e)) + "]")
		}
	}
	return sb.String()
}

// snapshotData: runOpCtx copies each response's data when it arrives.
var snapshotData bool

type runResult struct {
	data  string
	errs  []string // sorted response paths
	resps []*graphql.Response
}

func newES(w *world) graphql.ExecutableSchema {
	return NewExecutableSchema(Config{Resolvers: &resolverRoot{w}, Directives: DirectiveRoot{Guard: w.guardDirective, Mark: w.markDirective}})
}

// runOp executes op of doc on the generated executor with the real
// executor.DispatchOperation around it; it drains the response handler.
func runOp(w *world, doc *ast.QueryDocument, op *ast.OperationDefinition, vars map[string]any) runResult {
	return runOpCtx(context.Background(), -1, w, doc, op, vars)
}

// runOpCtx: like runOp under a caller-supplied context, taking at most
// maxPayloads responses (-1: drain until nil).
func runOpCtx(parent context.Context, maxPayloads int, w *world, doc *ast.QueryDocument, op *ast.OperationDefinition, vars map[string]any) runResult {
	es := newES(w)
	ex := newExecutorFor(es, w)
	opCtx := opCtxFor(w, doc, vars)
	opCtx.Operation = op
	ctx := graphql.StartOperationTrace(parent)
	rh, ctx2 := ex.DispatchOperation(ctx, opCtx)
	var res runResult
	for {
		if maxPayloads >= 0 && len(res.resps) >= maxPayloads {
			break
		}
		resp := rh(ctx2)
		if resp == nil {
			break
		}
		if snapshotData {
			// consume like a transport does: the payload is serialised when it arrives (a
			// subscription's responses share one buffer across calls of the response function)
			cp := *resp
			cp.Data = append([]byte(nil), resp.Data...)
			resp = &cp
		}
		res.resps = append(res.resps, resp)
		if len(res.resps) == 1 {
			res.data = string(resp.Data)
		}
		for _, e := range resp.Errors {
			res.errs = append(res.errs, pathString(e.Path))
		}
		if len(res.resps) > 16 {
			break
		}
	}
	sort.Strings(res.errs)
	return res
}

func newExecutorFor(es graphql.ExecutableSchema, w *world) *executor.Executor {
	ex := executor.New(es)
	ex.SetRecoverFunc(func(ctx context.Context, err any) error {
		w.mu.Lock()
		w.recovers++
		w.mu.Unlock()
		return gqlerror.Errorf("internal system error")
	})
	return ex
}

func opCtxFor(w *world, doc *ast.QueryDocument, vars map[string]any) *graphql.OperationContext {
	oc := opCtxFor0(w, doc, vars)
	if w.defaultRecover {
		oc.RecoverFunc = graphql.DefaultRecover
	}
	return oc
}

func opCtxFor0(w *world, doc *ast.QueryDocument, vars map[string]any) *graphql.OperationContext {
	return &graphql.OperationContext{
		RawQuery: "", Variables: vars, Doc: doc, Operation: doc.Operations[0], DisableIntrospection: !w.introspection,
		RecoverFunc: func(ctx context.Context, err any) error {
			w.mu.Lock()
			w.recovers++
			w.mu.Unlock()
			return gqlerror.Errorf("internal system error")
		},
		ResolverMiddleware:     w.fieldMiddleware,
		RootResolverMiddleware: func(ctx context.Context, next graphql.RootResolver) graphql.Marshaler { return next(ctx) },
	}
}

// scalarListIdx strips the element index from error paths that end in an
// element of one of the probe's scalar lists (User.marks, User.stamps):
// gqlgen reports a null element of a non-null scalar list at the list's path
// (known finding F-18, recorded under C01 where the path clause belongs);
// harnesses about other clauses compare modulo this.
func scalarListIdx(paths []string) []string {
	r := make([]string, len(paths))
	for i, p := range paths {
		r[i] = p
		if k := strings.LastIndexByte(p, '['); k > 0 && strings.HasSuffix(p, "]") {
			if strings.HasSuffix(p[:k], "stamps") || strings.HasSuffix(p[:k], "marks") {
				r[i] = p[:k]
			}
		}
	}
	sort.Strings(r)
	return r
}

// sameErrors: equal multisets of error paths, modulo scalarListIdx.
func sameErrors(got, want []string) bool {
	return sameStrings(scalarListIdx(got), scalarListIdx(want))
}

func sameStrings(a, b []string) bool {
	if len(a) != len(b) {
		return false
	}
	for i := range a {
		if a[i] != b[i] {
			return false
		}
	}
	return true
}
