package graph

import (
	"strings"

	"example.com/probe/ref"
	"github.com/99designs/gqlgen/zzsym"
)

func Setup_C06_schedules() { Setup_C01_exec() }

// families with real fan-out: several resolver-backed siblings and lists
var c06Families = c06Pick()

// c06Pick selects the families with real fan-out (lists, several resolver-backed siblings, merged selections).
func c06Pick() []int {
	var r []int
	for i, f := range c01Families {
		q := f.query
		if strings.Contains(q, "nodes {") || strings.Contains(q, "users {") || strings.Contains(q, "strict {") || strings.Contains(q, "friends {") || strings.Contains(q, "box {") {
			r = append(r, i)
		}
	}
	return r
}

// Harness_C06_schedules: the schedule is explored by the engine (every
// choice among enabled tasks at a blocking point is a decision); on each
// schedule the response equals the (schedule-free) reference and no two
// unordered accesses touch the same location.
func Harness_C06_schedules() {
	fams := c06Families
	if zzsym.Param("merge", 0) == 1 {
		// only the families whose list elements of different concrete types merge type-conditioned selections
		fams = nil
		for _, i := range c06Families {
			if strings.Contains(c01Families[i].query, "... on ") {
				fams = append(fams, i)
			}
		}
	}
	fi := fams[zzsym.Choice("family", len(fams))]
	fam := c01Families[fi]
	vars := map[string]any{}
	for _, v := range fam.flags {
		vars[v] = true
	}
	w := newWorld(zzsym.Param("budget", 1), false)
	w.gated = true
	doc := c01Docs[fi]
	op := doc.Operations[0]
	got := runOp(w, doc, op, vars)
	want := ref.Execute(pSchema, doc, op, vars, w)
	zzsym.Assert(got.data == want.Data, "same data on every schedule")
	zzsym.Assert(sameErrors(got.errs, want.Errors), "same multiset of errors on every schedule")
	zzsym.Event("data", got.data)
	zzsym.Event("errors", strings.Join(got.errs, " "))
	zzsym.Reach("c06.compared")
}

var c06MutListDoc = `mutation { d { id best { id } boss { id } } a(x: 1) }`

var c06MutDoc = `mutation { c { id best { id } boss { id } } a(x: 1) b(x: 2) }`

// Harness_C06_mutationSerial: resolver invocation order for a mutation.
func Harness_C06_mutationSerial() {
	doc := mustLoad([]string{c06MutDoc, c06MutListDoc}[zzsym.Choice("doc", zzsym.Param("docs", 2))])
	w := newWorld(zzsym.Param("budget", 1), false)
	w.gated = true
	runOp(w, doc, doc.Operations[0], nil)
	// positions of the root-field resolver calls in the global call order
	idx := func(key string) int {
		for i, c := range w.calls {
			if c == key {
				return i
			}
		}
		return -1
	}
	c, a, b := idx("/Commands.c"), idx("/Commands.a"), idx("/Commands.b")
	if d := idx("/Commands.d"); d >= 0 {
		// a root field that is a list of objects: the resolvers under its elements run on goroutines of their own
		zzsym.Assert(d == 0 && a > d, "root fields start in document order")
		for i, k := range w.calls {
			if strings.HasPrefix(k, "d[") {
				zzsym.Assert(i < a, "the sub-selection of a mutation field completes before the next root field starts")
			}
		}
		zzsym.Reach("c06.serial")
		return
	}
	zzsym.Assert(c == 0, "first root field starts first")
	zzsym.Assert(a > c && b > a, "root fields start in document order")
	for i, k := range w.calls {
		if strings.HasPrefix(k, "c/") {
			zzsym.Assert(i < a, "the sub-selection of a mutation field completes before the next root field starts")
		}
	}
	zzsym.Reach("c06.serial")
}

// fixedWorld answers every position from a fixed table (default: value).
type fixedWorld struct {
	*world
}

// Harness_C06_invalids: boss (User!) yields null and items ([Item]!) fails
// while best / friends succeed, all four resolved concurrently.
func Harness_C06_invalids() {
	doc := mustLoad(`{ me { boss { id } items { title } best { boss { id } } friends { id } } }`)
	w := newWorld(0, false)
	w.gated = true
	w.outs["me/User.boss"] = ref.Out{K: ref.KNull}
	w.outs["me/User.items"] = ref.Out{K: ref.KError}
	w.outs["me.best/User.boss"] = ref.Out{K: ref.KError}
	op := doc.Operations[0]
	got := runOp(w, doc, op, nil)
	want := ref.Execute(pSchema, doc, op, nil, w)
	zzsym.Assert(got.data == want.Data, "same data on every schedule")
	zzsym.Assert(sameErrors(got.errs, want.Errors), "same multiset of errors on every schedule")
	zzsym.Reach("c06.invalids")
}

// Harness_C06_listInvalids: every element of a list of non-null elements
// fails in a non-null field (three elements, more than the worker slots of
// the worker_limit configurations): on every schedule the list is null and
// the errors of all three elements are reported.
func Harness_C06_listInvalids() {
	doc := mustLoad(`{ me { id friends { id boss { id } } } }`)
	w := newWorld(0, false)
	w.gated = true
	w.outs["me/User.friends"] = ref.Out{List: users("me.friends[0]", "me.friends[1]", "me.friends[2]")}
	w.outs["me.friends[0]/User.boss"] = ref.Out{K: ref.KError}
	w.outs["me.friends[1]/User.boss"] = ref.Out{K: ref.KNull}
	w.outs["me.friends[2]/User.boss"] = ref.Out{K: ref.KError}
	op := doc.Operations[0]
	got := runOp(w, doc, op, nil)
	want := ref.Execute(pSchema, doc, op, nil, w)
	zzsym.Event("errors", strings.Join(got.errs, " "))
	zzsym.Assert(got.data == want.Data, "same data on every schedule")
	zzsym.Assert(sameErrors(got.errs, want.Errors), "same multiset of errors on every schedule (one per failing element)")
	zzsym.Reach("c06.listinvalids")
}

// Harness_C06_sharedVariables: one request variable (an input object that
// leaves defaulted fields out) feeds the arguments of several concurrently
// resolved fields and list elements: every resolver receives the coerced
// value, the request's variables are left as they were, and no two
// goroutines touch the same memory unordered.
func Harness_C06_sharedVariables() {
	doc := mustLoad(`query($f: Filter, $p: Patch) { me { a: calc(f: $f) b: calc(f: $f) c: patch(p: $p) } users { calc(f: $f) } }`)
	w := newWorld(0, false)
	w.gated = true
	vars := map[string]any{
		"f": map[string]any{"tags": []any{"t"}, "sub": map[string]any{"g": int64(2)}},
		"p": map[string]any{"note": "n"},
	}
	op := doc.Operations[0]
	got := runOp(w, doc, op, vars)
	want := ref.Execute(pSchema, doc, op, vars, w)
	zzsym.Assert(got.data == want.Data && len(got.errs) == 0, "same data on every schedule")
	for _, a := range w.args {
		ok := a == "f={min:1 tags:[t] sub:{min:1 tags:nil sub:nil g:2} g:nil} xs=nil e=RED o=nil id=nil fl=nil n=7 ys=nil" || a == "p={note:n count:5 tags:unset sub:unset} b=nil"
		zzsym.Assert(ok, "every resolver receives the coerced value of the shared variable")
	}
	f := vars["f"].(map[string]any)
	_, hasMin := f["min"]
	_, subHasMin := f["sub"].(map[string]any)["min"]
	_, hasCount := vars["p"].(map[string]any)["count"]
	zzsym.Assert(len(f) == 2 && !hasMin && !subHasMin && !hasCount, "the request's variables are not modified by coercing arguments from them")
	zzsym.Reach("c06.sharedvars")
}

// Harness_C06_deepSiblings: several sibling fields failing under one parent
// at response depths 2..8 (the parent's path has 1..7 segments: below
// objects, list elements and nested lists), resolved concurrently: on every
// completion order each failure is reported once, at its own path, and no
// two goroutines touch the same memory unordered.
func Harness_C06_deepSiblings() {
	docs := []string{
		`{ me { a: best { id } b: link { id } c: pet { __typename } } }`,
		`{ me { friends { a: best { id } b: link { id } c: pet { __typename } } } }`,
		`{ me { best { friends { a: best { id } b: link { id } } } } }`,
		`{ me { friends { friends { a: best { id } b: link { id } c: pet { __typename } } } } }`,
		`{ me { best { friends { friends { a: best { id } b: link { id } } } } } }`,
	}
	di := zzsym.Choice("doc", len(docs))
	doc := mustLoad(docs[di])
	w := newWorld(0, false)
	w.gated = true
	// one element per list: the parent of the failing siblings is users' path of 1, 3, 4, 5, 7 segments
	parent := []string{"me", "me.friends[0]", "me.best.friends[0]", "me.friends[0].friends[0]", "me.best.friends[0].friends[0]"}[di]
	switch di {
	case 1:
		w.outs["me/User.friends"] = ref.Out{List: users("me.friends[0]")}
	case 2:
		w.outs["me.best/User.friends"] = ref.Out{List: users("me.best.friends[0]")}
	case 3:
		w.outs["me/User.friends"] = ref.Out{List: users("me.friends[0]")}
		w.outs["me.friends[0]/User.friends"] = ref.Out{List: users("me.friends[0].friends[0]")}
	case 4:
		w.outs["me.best/User.friends"] = ref.Out{List: users("me.best.friends[0]")}
		w.outs["me.best.friends[0]/User.friends"] = ref.Out{List: users("me.best.friends[0].friends[0]")}
	}
	w.outs[parent+"/User.best"] = ref.Out{K: ref.KError}
	w.outs[parent+"/User.link"] = ref.Out{K: ref.KError}
	w.outs[parent+"/User.pet"] = ref.Out{K: ref.KError}
	op := doc.Operations[0]
	got := runOp(w, doc, op, nil)
	want := ref.Execute(pSchema, doc, op, nil, w)
	zzsym.Event("errors", strings.Join(got.errs, " "))
	zzsym.Assert(got.data == want.Data, "same data on every schedule")
	zzsym.Assert(len(want.Errors) >= 2 && sameErrors(got.errs, want.Errors), "each failing sibling is reported once at its own path, whatever the depth and the completion order")
	zzsym.Reach("c06.deep")
}

// Harness_C06_extensions: concurrently resolved fields and list elements
// each register a response extension under a key of their own (the first
// registrations of the response happen side by side): on every completion
// order all of them are part of the response, and no two goroutines touch
// the same memory unordered.
func Harness_C06_extensions() {
	doc := mustLoad(`{ me { a: best { id } b: link { id } } users { boss { id } } }`)
	if zzsym.Param("wide", 0) == 1 {
		doc = mustLoad(`{ me { a: best { id } b: link { id } c: pet { __typename } } users { boss { id } } }`)
	}
	w := newWorld(0, false)
	w.gated = true
	w.regExtOwn = true
	w.outs["/Query.users"] = ref.Out{List: users("users[0]", "users[1]")}
	op := doc.Operations[0]
	got := runOp(w, doc, op, nil)
	want := ref.Execute(pSchema, doc, op, nil, w)
	zzsym.Assert(got.data == want.Data && len(got.errs) == 0, "same data on every schedule")
	zzsym.Assert(len(got.resps) == 1 && len(w.regKeys) >= 5, "every resolver-backed field registered its extension")
	for _, k := range w.regKeys {
		_, ok := got.resps[0].Extensions[k]
		zzsym.Assert(ok, "an extension registered by a resolver is part of the response, whatever ran beside it")
	}
	zzsym.Assert(len(got.resps[0].Extensions) == len(w.regKeys), "and nothing else is")
	zzsym.Reach("c06.extensions")
}
