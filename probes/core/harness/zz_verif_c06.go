package graph

import (
	"strings"

	"example.com/probe/ref"
	"github.com/99designs/gqlgen/zzsym"
)

func Setup_C06_schedules() { Setup_C01_exec() }

// families with real fan-out: several resolver-backed siblings and lists
var c06Families = c06Pick()

// c06Pick selects the families with real fan-out (lists, several resolver-backed siblings, merged selections).
func c06Pick() []int {
	var r []int
	for i, f := range c01Families {
		q := f.query
		if strings.Contains(q, "nodes {") || strings.Contains(q, "users {") || strings.Contains(q, "strict {") || strings.Contains(q, "friends {") || strings.Contains(q, "box {") {
			r = append(r, i)
		}
	}
	return r
}

// Harness_C06_schedules: the schedule is explored by the engine (every
// choice among enabled tasks at a blocking point is a decision); on each
// schedule the response equals the (schedule-free) reference and no two
// unordered accesses touch the same location.
func Harness_C06_schedules() {
	fi := c06Families[zzsym.Choice("family", len(c06Families))]
	fam := c01Families[fi]
	vars := map[string]any{}
	for _, v := range fam.flags {
		vars[v] = true
	}
	w := newWorld(zzsym.Param("budget", 1), false)
	w.gated = true
	doc := c01Docs[fi]
	op := doc.Operations[0]
	got := runOp(w, doc, op, vars)
	want := ref.Execute(pSchema, doc, op, vars, w)
	zzsym.Assert(got.data == want.Data, "same data on every schedule")
	zzsym.Assert(sameErrors(got.errs, want.Errors), "same multiset of errors on every schedule")
	zzsym.Event("data", got.data)
	zzsym.Event("errors", strings.Join(got.errs, " "))
	zzsym.Reach("c06.compared")
}

var c06MutDoc = `mutation { c { id best { id } boss { id } } a(x: 1) b(x: 2) }`

// Harness_C06_mutationSerial: resolver invocation order for a mutation.
func Harness_C06_mutationSerial() {
	doc := mustLoad(c06MutDoc)
	w := newWorld(zzsym.Param("budget", 1), false)
	w.gated = true
	runOp(w, doc, doc.Operations[0], nil)
	// positions of the root-field resolver calls in the global call order
	idx := func(key string) int {
		for i, c := range w.calls {
			if c == key {
				return i
			}
		}
		return -1
	}
	c, a, b := idx("/Commands.c"), idx("/Commands.a"), idx("/Commands.b")
	zzsym.Assert(c == 0, "first root field starts first")
	zzsym.Assert(a > c && b > a, "root fields start in document order")
	for i, k := range w.calls {
		if strings.HasPrefix(k, "c/") {
			zzsym.Assert(i < a, "the sub-selection of a mutation field completes before the next root field starts")
		}
	}
	zzsym.Reach("c06.serial")
}

// fixedWorld answers every position from a fixed table (default: value).
type fixedWorld struct {
	*world
}

// Harness_C06_invalids: boss (User!) yields null and items ([Item]!) fails
// while best / friends succeed, all four resolved concurrently.
func Harness_C06_invalids() {
	doc := mustLoad(`{ me { boss { id } items { title } best { boss { id } } friends { id } } }`)
	w := newWorld(0, false)
	w.gated = true
	w.outs["me/User.boss"] = ref.Out{K: ref.KNull}
	w.outs["me/User.items"] = ref.Out{K: ref.KError}
	w.outs["me.best/User.boss"] = ref.Out{K: ref.KError}
	op := doc.Operations[0]
	got := runOp(w, doc, op, nil)
	want := ref.Execute(pSchema, doc, op, nil, w)
	zzsym.Assert(got.data == want.Data, "same data on every schedule")
	zzsym.Assert(sameErrors(got.errs, want.Errors), "same multiset of errors on every schedule")
	zzsym.Reach("c06.invalids")
}

// Harness_C06_listInvalids: every element of a list of non-null elements
// fails in a non-null field (three elements, more than the worker slots of
// the worker_limit configurations): on every schedule the list is null and
// the errors of all three elements are reported.
func Harness_C06_listInvalids() {
	doc := mustLoad(`{ me { id friends { id boss { id } } } }`)
	w := newWorld(0, false)
	w.gated = true
	w.outs["me/User.friends"] = ref.Out{List: users("me.friends[0]", "me.friends[1]", "me.friends[2]")}
	w.outs["me.friends[0]/User.boss"] = ref.Out{K: ref.KError}
	w.outs["me.friends[1]/User.boss"] = ref.Out{K: ref.KNull}
	w.outs["me.friends[2]/User.boss"] = ref.Out{K: ref.KError}
	op := doc.Operations[0]
	got := runOp(w, doc, op, nil)
	want := ref.Execute(pSchema, doc, op, nil, w)
	zzsym.Event("errors", strings.Join(got.errs, " "))
	zzsym.Assert(got.data == want.Data, "same data on every schedule")
	zzsym.Assert(sameErrors(got.errs, want.Errors), "same multiset of errors on every schedule (one per failing element)")
	zzsym.Reach("c06.listinvalids")
}
