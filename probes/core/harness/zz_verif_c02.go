package graph

import (
	"context"
	"encoding/json"
	"example.com/probe/ref"

	"github.com/99designs/gqlgen/graphql"
	"strings"

	"github.com/vektah/gqlparser/v2/ast"

	"github.com/99designs/gqlgen/zzsym"
)

type c02Case struct {
	query string
	vars  map[string]any
	want  string // arguments the resolver must receive; "" = coercion fails
	errAt string // for failures: path of the error
}

// cases in which an input object literal field is given by a variable that the request does not provide
func (c c02Case) nestedVar() bool { return strings.HasSuffix(c.query, " #nestedvar") }

const c02Def = "f=nil xs=nil e=RED o=nil id=nil fl=nil n=7 ys=nil"

var c02Cases = []c02Case{
	{`{ me { calc } }`, nil, c02Def, ""},
	{`{ me { calc(xs: 5) } }`, nil, "f=nil xs=[5] e=RED o=nil id=nil fl=nil n=7 ys=nil", ""},
	{`{ me { calc(xs: [1, 2]) } }`, nil, "f=nil xs=[1,2] e=RED o=nil id=nil fl=nil n=7 ys=nil", ""},
	{`{ me { calc(xs: []) } }`, nil, "f=nil xs=[] e=RED o=nil id=nil fl=nil n=7 ys=nil", ""},
	{`{ me { calc(f: {}) } }`, nil, "f={min:1 tags:nil sub:nil g:nil} xs=nil e=RED o=nil id=nil fl=nil n=7 ys=nil", ""},
	{`{ me { calc(f: {min: null}) } }`, nil, "f={min:nil tags:nil sub:nil g:nil} xs=nil e=RED o=nil id=nil fl=nil n=7 ys=nil", ""},
	{`{ me { calc(f: {min: 4, tags: "a", sub: {tags: ["x", "y"], g: 2}}) } }`, nil, "f={min:4 tags:[a] sub:{min:1 tags:[x,y] sub:nil g:2} g:nil} xs=nil e=RED o=nil id=nil fl=nil n=7 ys=nil", ""},
	{`{ me { calc(e: GREEN, id: 12, fl: 3, n: 9, o: "fine") } }`, nil, "f=nil xs=nil e=GREEN o=fine id=12 fl=3 n=9 ys=nil", ""},
	{`{ me { calc(e: null, id: "abc", fl: 2.5) } }`, nil, "f=nil xs=nil e=nil o=nil id=abc fl=2.5 n=7 ys=nil", ""},
	{`query($x: [Int!]) { me { calc(xs: $x) } }`, map[string]any{"x": []any{int64(1), int64(2)}}, "f=nil xs=[1,2] e=RED o=nil id=nil fl=nil n=7 ys=nil", ""},
	{`query($x: [Int!]) { me { calc(xs: $x) } }`, map[string]any{}, c02Def, ""},
	{`query($e: Color) { me { calc(e: $e) } }`, map[string]any{}, c02Def, ""},
	{`query($e: Color) { me { calc(e: $e) } }`, map[string]any{"e": nil}, "f=nil xs=nil e=nil o=nil id=nil fl=nil n=7 ys=nil", ""},
	{`query($e: Color) { me { calc(e: $e) } }`, map[string]any{"e": "GREEN"}, "f=nil xs=nil e=GREEN o=nil id=nil fl=nil n=7 ys=nil", ""},
	{`query($f: Filter) { me { calc(f: $f) } }`, map[string]any{"f": map[string]any{"tags": "a", "sub": map[string]any{"min": int64(0)}}}, "f={min:1 tags:[a] sub:{min:0 tags:nil sub:nil g:nil} g:nil} xs=nil e=RED o=nil id=nil fl=nil n=7 ys=nil", ""},
	{`query($n: Int! = 3) { me { calc(n: $n) } }`, map[string]any{"n": int64(3)}, "f=nil xs=nil e=RED o=nil id=nil fl=nil n=3 ys=nil", ""},
	{`{ me { calc(ys: 3) } }`, nil, "f=nil xs=nil e=RED o=nil id=nil fl=nil n=7 ys=[[3]]", ""},
	{`{ me { calc(ys: [1, 2]) } }`, nil, "f=nil xs=nil e=RED o=nil id=nil fl=nil n=7 ys=[[1],[2]]", ""},
	{`{ me { calc(ys: [[1, 2], null]) } }`, nil, "f=nil xs=nil e=RED o=nil id=nil fl=nil n=7 ys=[[1,2],nil]", ""},
	// omitted vs explicit null vs value, through Omittable fields and a map-backed input; defaults fill omitted fields only
	{`{ me { patch } }`, nil, "p=nil b=nil", ""},
	{`{ me { patch(p: {}, b: {}) } }`, nil, "p={note:unset count:5 tags:unset sub:unset} b={b:d}", ""},
	{`{ me { patch(p: {note: null, count: null, tags: null, sub: null}, b: {a: null, b: null, sub: null}) } }`, nil, "p={note:null count:null tags:null sub:null} b={a:null b:null sub:null}", ""},
	{`{ me { patch(p: {note: "x", count: 2, tags: "t", sub: {note: "y"}}, b: {a: 1, b: "z", sub: {a: 2}}) } }`, nil, "p={note:x count:2 tags:[t] sub:{note:y count:5 tags:unset sub:unset}} b={a:1 b:z sub:{a:2 b:d}}", ""},
	{`query($p: Patch, $b: Bag) { me { patch(p: $p, b: $b) } }`, map[string]any{"p": map[string]any{"note": nil, "sub": map[string]any{}}, "b": map[string]any{"sub": map[string]any{"b": nil}}}, "p={note:null count:5 tags:unset sub:{note:unset count:5 tags:unset sub:unset}} b={b:d sub:{b:null}}", ""},
	{`query($n: String, $c: Int) { me { patch(p: {note: $n, count: $c}) } } #nestedvar`, map[string]any{"n": nil}, "p={note:null count:5 tags:unset sub:unset} b=nil", ""},
	{`query($n: String, $c: Int = 9) { me { patch(p: {note: $n, count: $c}) } }`, map[string]any{"n": "v"}, "p={note:v count:9 tags:unset sub:unset} b=nil", ""},
	{`query($t: [String!]) { me { patch(p: {tags: $t}, b: {a: 3}) } } #nestedvar`, map[string]any{}, "p={note:unset count:5 tags:unset sub:unset} b={a:3 b:d}", ""},
	{`query($p: Patch) { me { patch(p: $p) } }`, map[string]any{"p": nil}, "p=nil b=nil", ""},
	{`query($p: Patch) { me { patch(p: $p) } }`, map[string]any{"p": map[string]any{"count": "x"}}, "", "me.patch.p.count"},
	{`{ me { calc(o: "bad") } }`, nil, "", "me.calc.o"},
	{`query($e: Color) { me { calc(e: $e) } }`, map[string]any{"e": "PURPLE"}, "", "me.calc.e"},
	{`query($f: Filter) { me { calc(f: $f) } }`, map[string]any{"f": map[string]any{"min": "x"}}, "", "me.calc.f.min"},
	{`query($x: [Int!]) { me { calc(xs: $x) } }`, map[string]any{"x": []any{int64(1), "two"}}, "", "me.calc.xs[1]"},
}

var c02Docs []*ast.QueryDocument

func Setup_C02_args() {
	probeSetup()
	c02Docs = nil
	for _, c := range c02Cases {
		c02Docs = append(c02Docs, mustLoad(c.query))
	}
}

// Harness_C02_args: the Go values the resolver receives for its arguments
// are the spec-coerced input (literals, variables, defaults of arguments and
// input fields, omitted vs explicit null, nested inputs, single value to
// list, enum, custom scalar, ID/Float from integer literals); an input that
// cannot be coerced is an error at the argument's path and the resolver is
// not called.
func Harness_C02_args() {
	ci := zzsym.Choice("case", len(c02Cases))
	c := c02Cases[ci]
	w := newWorld(0, false)
	doc := c02Docs[ci]
	got := runOp(w, doc, doc.Operations[0], c.vars)
	if len(w.args) > 0 {
		zzsym.Event("args", w.args[0])
	}
	if c.want != "" {
		if c.nestedVar() {
			// spec 6.1.2 / input object coercion: an entry whose value is a variable without a runtime value is treated as omitted
			zzsym.Assert(len(w.args) == 1 && w.args[0] == c.want, "an input field given by a variable the request does not provide is treated as omitted")
		}
		zzsym.Assert(len(w.args) == 1 && w.args[0] == c.want, "the resolver receives exactly the coerced arguments")
		zzsym.Assert(len(got.errs) == 0, "no error for coercible input")
		zzsym.Reach("c02.coerced")
	} else {
		zzsym.Assert(len(w.args) == 0, "the resolver is not called when an argument cannot be coerced")
		zzsym.Assert(len(got.errs) == 1 && got.errs[0] == c.errAt, "one error at the argument's path")
		zzsym.Reach("c02.rejected")
	}
}

// ---- variables through the real pipeline (executor.CreateOperationContext:
// gqlparser's variable coercion, then the generated binders)

type c02VarCase struct {
	query string
	vars  map[string]any
	want  string // arguments the resolver must receive; "" = the request is rejected or the field fails
}

var c02VarCases = []c02VarCase{
	{`query($n: Int = 4) { me { calc(n: $n) } }`, nil, "f=nil xs=nil e=RED o=nil id=nil fl=nil n=4 ys=nil"},
	{`query($n: Int = 4) { me { calc(n: $n) } }`, map[string]any{}, "f=nil xs=nil e=RED o=nil id=nil fl=nil n=4 ys=nil"},
	{`query($n: Int = 4) { me { calc(n: $n) } }`, map[string]any{"n": int64(9)}, "f=nil xs=nil e=RED o=nil id=nil fl=nil n=9 ys=nil"},
	{`query($n: Int = 4) { me { calc(n: $n) } }`, map[string]any{"n": json.Number("12")}, "f=nil xs=nil e=RED o=nil id=nil fl=nil n=12 ys=nil"},
	{`query($n: Int = 4) { me { calc(n: $n) } } #nullvar`, map[string]any{"n": nil}, ""},
	{`query($n: Int = 4) { me { calc(n: $n) } }`, map[string]any{"n": json.Number("1.5")}, ""},
	// gqlgen's Int is deliberately lenient about numeric text (graphql.UnmarshalInt accepts strings; gqlparser lets them through)
	{`query($n: Int = 4) { me { calc(n: $n) } }`, map[string]any{"n": "7"}, "f=nil xs=nil e=RED o=nil id=nil fl=nil n=7 ys=nil"},
	{`query($n: Int = 4) { me { calc(n: $n) } }`, map[string]any{"n": "seven"}, ""},
	{`query($n: Int!) { me { calc(n: $n) } }`, nil, ""},
	{`query($n: Int!) { me { calc(n: $n) } }`, map[string]any{"other": int64(1)}, ""},
	{`query($e: Color = GREEN) { me { calc(e: $e) } }`, nil, "f=nil xs=nil e=GREEN o=nil id=nil fl=nil n=7 ys=nil"},
	{`query($e: Color = GREEN) { me { calc(e: $e) } }`, map[string]any{"e": nil}, "f=nil xs=nil e=nil o=nil id=nil fl=nil n=7 ys=nil"},
	{`query($x: [Int!]) { me { calc(xs: $x) } }`, map[string]any{"x": int64(5)}, "f=nil xs=[5] e=RED o=nil id=nil fl=nil n=7 ys=nil"},
	{`query($x: [Int!]) { me { calc(xs: $x) } }`, map[string]any{"x": []any{int64(1), "two"}}, ""},
	{`query($x: [Int!] = [3, 4]) { me { calc(xs: $x) } }`, nil, "f=nil xs=[3,4] e=RED o=nil id=nil fl=nil n=7 ys=nil"},
	{`query($f: Filter = {min: 2}) { me { calc(f: $f) } }`, nil, "f={min:2 tags:nil sub:nil g:nil} xs=nil e=RED o=nil id=nil fl=nil n=7 ys=nil"},
	{`query($f: Filter) { me { calc(f: $f) } }`, map[string]any{"f": map[string]any{"tags": "a"}}, "f={min:1 tags:[a] sub:nil g:nil} xs=nil e=RED o=nil id=nil fl=nil n=7 ys=nil"},
	{`query($f: Filter) { me { calc(f: $f) } }`, map[string]any{"f": map[string]any{"nope": int64(1)}}, ""},
	{`query($fl: Float, $id: ID) { me { calc(fl: $fl, id: $id) } }`, map[string]any{"fl": json.Number("2.5"), "id": json.Number("12")}, "f=nil xs=nil e=RED o=nil id=12 fl=2.5 n=7 ys=nil"},
	{`query($fl: Float, $id: ID) { me { calc(fl: $fl, id: $id) } }`, map[string]any{"fl": int64(3), "id": "abc"}, "f=nil xs=nil e=RED o=nil id=abc fl=3 n=7 ys=nil"},
	{`query($p: Patch = {note: "d"}) { me { patch(p: $p) } }`, nil, "p={note:d count:5 tags:unset sub:unset} b=nil"},
	// an enum whose Go type is generated (modelgen): exact names only, although gqlparser compares variable values case-insensitively
	{`query($s: Shade, $ss: [Shade!]) { me { tint(s: $s, ss: $ss) } }`, map[string]any{"s": "DARK", "ss": []any{"LIGHT", "DARK"}}, "s=DARK ss=[LIGHT,DARK]"},
	{`query($s: Shade, $ss: [Shade!]) { me { tint(s: $s, ss: $ss) } }`, map[string]any{"s": "LIGHT", "ss": "DARK"}, "s=LIGHT ss=[DARK]"},
	{`query($s: Shade) { me { tint(s: $s) } }`, map[string]any{"s": "dark"}, ""},
	{`query($ss: [Shade!]) { me { tint(ss: $ss) } }`, map[string]any{"ss": []any{"LIGHT", "Dark"}}, ""},
	{`query($s: Shade) { me { tint(s: $s) } }`, map[string]any{"s": "MEDIUM"}, ""},
	{`query($c: Color) { me { calc(e: $c) } }`, map[string]any{"c": "green"}, ""},
}

var c02VarDocsOK bool

func Setup_C02_variables() { probeSetup() }

// Harness_C02_variables: requests with variables through the executor's own
// pipeline (CreateOperationContext: variable defaults, presence, coercion of
// the JSON values, then the generated binders): the resolver receives the
// spec-coerced values - a variable's default when the request gives none,
// single values as lists, json.Number forms - and a request whose variables
// cannot be coerced, or lacks a required one, never reaches the resolver.
func Harness_C02_variables() {
	ci := zzsym.Choice("case", len(c02VarCases))
	c := c02VarCases[ci]
	w := newWorld(0, false)
	es := newES(w)
	ex := newExecutorFor(es, w)
	ctx := graphql.StartOperationTrace(context.Background())
	rc, errs := ex.CreateOperationContext(ctx, &graphql.RawParams{Query: c.query, Variables: c.vars})
	nerr := len(errs)
	if len(errs) == 0 {
		rh, ctx2 := ex.DispatchOperation(ctx, rc)
		resp := rh(ctx2)
		nerr = len(resp.Errors)
	}
	if len(w.args) > 0 {
		zzsym.Event("args", w.args[0])
	}
	if c.want != "" {
		zzsym.Assert(nerr == 0, "no error for coercible variables")
		zzsym.Assert(len(w.args) == 1 && w.args[0] == c.want, "the resolver receives exactly the coerced variable values (defaults included)")
		zzsym.Reach("c02.vars.coerced")
	} else {
		if strings.HasSuffix(c.query, " #nullvar") {
			// spec CoerceArgumentValues: a null runtime value for a non-null argument is a field error
			zzsym.Assert(len(w.args) == 0, "an explicit null variable in a non-null argument position fails the field")
		}
		zzsym.Assert(len(w.args) == 0, "the resolver is not called when a variable is missing or cannot be coerced")
		zzsym.Assert(nerr >= 1, "the failure is reported")
		zzsym.Reach("c02.vars.rejected")
	}
}

var c02MethodCases = []c02VarCase{
	{`{ me { label(first: "Ada", last: "Lovelace") } }`, nil, ""},
	{`{ me { label(last: "Lovelace", sep: "+", first: "Ada") } }`, nil, ""},
	{`query($a: String!, $b: String!, $c: String = "/") { me { x: label(first: $a, last: $b, sep: $c) y: label(first: $b, last: $a) } }`, map[string]any{"a": "Ada", "b": "Lovelace"}, ""},
	{`{ users { label(sep: "", last: "L", first: "F") } }`, nil, ""},
}

func Setup_C02_methodArgs() { probeSetup() }

// Harness_C02_methodArgs: a field bound to a Go method of the model (not to
// a resolver) whose parameters are declared in another order than the
// schema's arguments: every parameter receives the coerced value of the
// argument of its own name (literal order, schema order and method order all
// differ), defaults included.
func Harness_C02_methodArgs() {
	c := c02MethodCases[zzsym.Choice("case", len(c02MethodCases))]
	w := newWorld(0, false)
	doc := mustLoad(c.query)
	op := doc.Operations[0]
	vars := map[string]any{}
	for k, v := range c.vars {
		vars[k] = v
	}
	for _, vd := range op.VariableDefinitions {
		if _, ok := vars[vd.Variable]; !ok && vd.DefaultValue != nil {
			dv, _ := vd.DefaultValue.Value(nil)
			vars[vd.Variable] = dv
		}
	}
	got := runOp(w, doc, op, vars)
	want := ref.Execute(pSchema, doc, op, vars, w)
	zzsym.Event("data", got.data)
	zzsym.Assert(got.data == want.Data && len(got.errs) == 0, "a method-bound field passes every argument to the parameter of its name")
	zzsym.Reach("c02.method")
}
