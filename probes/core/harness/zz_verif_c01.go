package graph

import (
	"strings"

	"github.com/vektah/gqlparser/v2/ast"

	"example.com/probe/ref"
	"github.com/99designs/gqlgen/zzsym"
)

type family struct {
	query string
	flags []string
}

var c01Families = []family{
	{`query($v1: Boolean!, $v2: Boolean!) { me { id name @include(if: $v1) best @skip(if: $v2) { id boss { id } } } }`, []string{"v1", "v2"}},
	{`query($v1: Boolean!, $v2: Boolean!) { me { ...F @include(if: $v1) age ...F @skip(if: $v2) } } fragment F on User { friends { id } }`, []string{"v1", "v2"}},
	{`query($v1: Boolean!) { nodes { __typename id ... on User { name } ... on Item @include(if: $v1) { title owner { id } } } node(id: "1") { ...N } } fragment N on Node { id ... on Item { title } }`, []string{"v1"}},
	{`query($v1: Boolean!) { a: me { id } a: me { age @skip(if: $v1) } strict { items { title } } }`, []string{"v1"}},
	{`{ strict { boss { boss { id } } } me { pet { ... on User { age } ... on Item { title } } } }`, nil},
	{`query($v1: Boolean!) { users { id friends @include(if: $v1) { id } } }`, []string{"v1"}},
	{`mutation { a(x: 1) b(x: 2) c { id best { id } } }`, nil},
	{`{ me { secret echo(s: "x") __typename } }`, nil},
	{`{ me { boss { id } pet { __typename } } strict { boss { id } pet { __typename } } user(id: "7") { boss { id } } }`, nil},
	{`{ me { echo(s: "x") a: echo(o: "fine") b: echo(o: "bad") c: echo(n: 5) } }`, nil},
	{`{ nodes { ... on User { best { id } } link { id name age } ... on User { link { best { id } } } ... on Item { link { boss { id } } } } }`, nil},
	{`query($v1: Boolean!) { me { pet { ... on Pet { __typename } ...PF } } node(id: "2") { ... on Node { id } ...NF @include(if: $v1) } } fragment PF on Pet { ... on User { name } ... on Item { title } } fragment NF on Node { __typename ... on Pet { ... on User { age } } }`, []string{"v1"}},
	{`query($v1: Boolean!) { me { best { id } boss { id age } friends { id best @include(if: $v1) { id } } pet { __typename } items { title owner { id } } } }`, []string{"v1"}},
	// lists of scalars: non-null elements in a nullable and in a non-null list, nullable elements
	{`query($v1: Boolean!) { me { id marks stamps @include(if: $v1) } odds users { stamps } }`, []string{"v1"}},
}

var c01Docs []*ast.QueryDocument

func Setup_C01_exec() {
	probeSetup()
	c01Docs = nil
	for _, f := range c01Families {
		c01Docs = append(c01Docs, mustLoad(f.query))
	}
}

// Harness_C01_exec: the generated executor's response (data bytes and the
// multiset of error paths) equals the reference execution for every
// assignment of the directive variables and every resolver / directive
// outcome in {value, null, error} within the deviation budget.
func Harness_C01_exec() {
	fi := zzsym.Choice("family", len(c01Families))
	if only := zzsym.Param("family", -1); only >= 0 {
		zzsym.Assume(fi == only)
	}
	fam := c01Families[fi]
	vars := map[string]any{}
	for _, v := range fam.flags {
		vars[v] = zzsym.Bool(v)
	}
	w := newWorld(zzsym.Param("budget", 2), false)
	doc := c01Docs[fi]
	op := doc.Operations[0]
	got := runOp(w, doc, op, vars)
	want := ref.Execute(pSchema, doc, op, vars, w)
	zzsym.Event("data", got.data)
	zzsym.Event("errors", strings.Join(got.errs, " "))
	zzsym.Event("want-errors", strings.Join(want.Errors, " "))
	zzsym.Assert(len(got.resps) == 1, "a plain operation yields exactly one response")
	zzsym.Assert(got.data == want.Data, "data equals the reference execution")
	if !sameStrings(got.errs, want.Errors) && sameErrors(got.errs, want.Errors) {
		zzsym.Assert(false, "a null element of a non-null scalar list is reported at the element's path")
	}
	zzsym.Assert(sameErrors(got.errs, want.Errors), "one error per originating failure, at the failing position's path")
	zzsym.Assert(w.recovers == 0, "the recover hook is not invoked when nothing panicked")
	zzsym.Reach("c01.compared")
}
