package graph

import (
	"sort"
	"strings"

	"github.com/vektah/gqlparser/v2/ast"

	"example.com/probe/ref"
	"github.com/99designs/gqlgen/zzsym"
)

type family struct {
	query string
	flags []string
}

var c01Families = []family{
	{`query($v1: Boolean!, $v2: Boolean!) { me { id name @include(if: $v1) best @skip(if: $v2) { id boss { id } } } }`, []string{"v1", "v2"}},
	{`query($v1: Boolean!, $v2: Boolean!) { me { ...F @include(if: $v1) age ...F @skip(if: $v2) } } fragment F on User { friends { id } }`, []string{"v1", "v2"}},
	{`query($v1: Boolean!) { nodes { __typename id ... on User { name } ... on Item @include(if: $v1) { title owner { id } } } node(id: "1") { ...N } } fragment N on Node { id ... on Item { title } }`, []string{"v1"}},
	{`query($v1: Boolean!) { a: me { id } a: me { age @skip(if: $v1) } strict { items { title } } }`, []string{"v1"}},
	{`{ strict { boss { boss { id } } } me { pet { ... on User { age } ... on Item { title } } } }`, nil},
	{`query($v1: Boolean!) { users { id friends @include(if: $v1) { id } } }`, []string{"v1"}},
	{`mutation { a(x: 1) b(x: 2) c { id best { id } } }`, nil},
	{`{ me { secret echo(s: "x") __typename } }`, nil},
	{`{ me { boss { id } pet { __typename } } strict { boss { id } pet { __typename } } user(id: "7") { boss { id } } }`, nil},
	{`{ me { echo(s: "x") a: echo(o: "fine") b: echo(o: "bad") c: echo(n: 5) } }`, nil},
	{`{ nodes { ... on User { best { id } } link { id name age } ... on User { link { best { id } } } ... on Item { link { boss { id } } } } }`, nil},
	{`query($v1: Boolean!) { me { pet { ... on Pet { __typename } ...PF } } node(id: "2") { ... on Node { id } ...NF @include(if: $v1) } } fragment PF on Pet { ... on User { name } ... on Item { title } } fragment NF on Node { __typename ... on Pet { ... on User { age } } }`, []string{"v1"}},
	{`query($v1: Boolean!) { me { best { id } boss { id age } friends { id best @include(if: $v1) { id } } pet { __typename } items { title owner { id } } } }`, []string{"v1"}},
	// lists of scalars: non-null elements in a nullable and in a non-null list, nullable elements
	{`query($v1: Boolean!) { me { id marks stamps @include(if: $v1) } odds users { stamps } }`, []string{"v1"}},
	// @skip and @include on the same node (field, inline fragment, fragment spread), in both orders
	{`query($v1: Boolean!, $v2: Boolean!) { me { id name @skip(if: $v1) @include(if: $v2) best @include(if: $v2) @skip(if: $v1) { id } ... @skip(if: $v1) @include(if: $v2) { age } ...B @include(if: $v2) @skip(if: $v1) } } fragment B on User { boss { id } }`, []string{"v1", "v2"}},
	// an executable directive (declared in another schema file) on plain and resolver-backed fields
	{`query($v1: Boolean!) { me { id name @mark(k: 1) best @mark(k: 2) { id age @mark(k: 3) } boss @include(if: $v1) @mark(k: 4) { id } } users { name @mark(k: 1) } }`, []string{"v1"}},
	// an object with exactly one resolver-backed field, non-null, selected under several aliases
	{`query($v1: Boolean!) { box { id a: inner { id } b: inner { id name } c: inner @include(if: $v1) { age } } me { id } }`, []string{"v1"}},	// schema directives on fields of a Go type that cannot hold nil
	{`{ box { id seal code } me { id } }`, nil},
}

var c01Docs []*ast.QueryDocument

func Setup_C01_exec() {
	probeSetup()
	c01Docs = nil
	for _, f := range c01Families {
		c01Docs = append(c01Docs, mustLoad(f.query))
	}
}

// Harness_C01_exec: the generated executor's response (data bytes and the
// multiset of error paths) equals the reference execution for every
// assignment of the directive variables and every resolver / directive
// outcome in {value, null, error} within the deviation budget.
func Harness_C01_exec() {
	fi := zzsym.Choice("family", len(c01Families))
	if only := zzsym.Param("family", -1); only >= 0 {
		zzsym.Assume(fi == only)
	}
	fam := c01Families[fi]
	vars := map[string]any{}
	for _, v := range fam.flags {
		vars[v] = zzsym.Bool(v)
	}
	w := newWorld(zzsym.Param("budget", 2), false)
	doc := c01Docs[fi]
	op := doc.Operations[0]
	got := runOp(w, doc, op, vars)
	want := ref.Execute(pSchema, doc, op, vars, w)
	zzsym.Event("data", got.data)
	zzsym.Event("errors", strings.Join(got.errs, " "))
	zzsym.Event("want-errors", strings.Join(want.Errors, " "))
	zzsym.Assert(len(got.resps) == 1, "a plain operation yields exactly one response")
	zzsym.Assert(got.data == want.Data, "data equals the reference execution")
	if !sameStrings(got.errs, want.Errors) && sameErrors(got.errs, want.Errors) {
		zzsym.Assert(false, "a null element of a non-null scalar list is reported at the element's path")
	}
	zzsym.Assert(sameErrors(got.errs, want.Errors), "one error per originating failure, at the failing position's path")
	zzsym.Assert(w.recovers == 0, "the recover hook is not invoked when nothing panicked")
	zzsym.Reach("c01.compared")
}

func Setup_C01_subscription() { probeSetup() }

var c01SubQueries = []string{
	`subscription { watch { id name best { id } boss { id } } }`,
	`subscription { strictWatch { id best { id boss { id } } friends { id } } }`,
	`subscription($v1: Boolean!) { w: watch { id ...F @include(if: $v1) } } fragment F on User { age pet { __typename } }`,
}

// subscriptionRun: a subscription whose resolver emits 0..2 events (or fails
// to subscribe): every event is answered by its own response whose data and
// errors are what the execution algorithm prescribes for that event's value
// (reference: the root field answered with the event), a fault while
// resolving one event's fields does not end the stream or leak into the next
// event's response, and after the last event the response function returns nil.
func subscriptionRun(panics bool, budget int) {
	qi := zzsym.Choice("query", len(c01SubQueries))
	doc := mustLoad(c01SubQueries[qi])
	op := doc.Operations[0]
	vars := map[string]any{}
	if qi == 2 {
		vars["v1"] = zzsym.Bool("v1")
	}
	w := newWorld(budget, panics)
	snapshotData = true
	got := runOp(w, doc, op, vars)
	snapshotData = false
	field := op.SelectionSet[0].(*ast.Field).Name
	if w.subEvents == nil && len(got.resps) == 1 && len(got.resps[0].Errors) > 0 && got.resps[0].Data == nil {
		// subscribing failed: one response with the error, no data
		zzsym.Assert(len(got.resps[0].Errors) == 1, "a failed subscription is answered with one error")
		zzsym.Assert(w.recovers == w.raised, "the recover hook runs exactly once per panic")
		zzsym.Reach("c01.sub.failed")
		return
	}
	zzsym.Assert(len(got.resps) == len(w.subEvents), "one response per event, then the stream ends")
	for k, r := range got.resps {
		if k >= len(w.subEvents) {
			break
		}
		ev := w.subEvents[k]
		if ev == nil {
			w.outs["/Subscription."+field] = ref.Out{K: ref.KNull}
		} else {
			w.outs["/Subscription."+field] = ref.Out{Obj: &ref.Obj{Type: "User", ID: ev.ID, Name: ev.Name, Age: ev.Age}}
		}
		want := ref.Execute(pSchema, doc, op, vars, w)
		var errs []string
		for _, e := range r.Errors {
			errs = append(errs, pathString(e.Path))
		}
		sort.Strings(errs)
		zzsym.Event("event", string(r.Data), strings.Join(errs, " "), "want", want.Data, strings.Join(want.Errors, " "))
		zzsym.Assert(string(r.Data) == want.Data, "each event's data is what the execution algorithm prescribes for that event")
		zzsym.Assert(sameErrors(errs, want.Errors), "each event's response carries exactly the errors of that event")
	}
	zzsym.Assert(w.recovers == w.raised, "the recover hook runs exactly once per panic")
	zzsym.Reach("c01.sub.compared")
}

// Harness_C01_subscription: outcomes in {value, null, error}.
func Harness_C01_subscription() { subscriptionRun(false, zzsym.Param("budget", 2)) }

func Setup_C01_errorLists() { probeSetup() }

// Harness_C01_errorLists: a resolver that reports several failures at once
// (it returns a gqlerror.List): every entry of the list is an entry of the
// response, at the field's path - on fields with and without schema
// directives, plain, below list elements, non-null (with propagation).
func Harness_C01_errorLists() {
	docs := []string{
		`{ me { secret name } }`,
		`{ me { best { id } name } }`,
		`{ users { link { id } secret } }`,
		`{ me { friends { boss { id } } id } }`,
		`{ me { a: secret b: best { id } c: echo(s: "x") } }`,
	}
	spots := [][]string{{"me/User.secret"}, {"me/User.best"}, {"users[0]/User.link", "users[1]/User.secret"}, {"me.friends[0]/User.boss"}, {"me/User.secret", "me/User.best", "me/User.echo"}}
	di := zzsym.Choice("doc", len(docs))
	doc := mustLoad(docs[di])
	w := newWorld(0, false)
	w.outs["/Query.users"] = ref.Out{List: users("users[0]", "users[1]")}
	w.outs["me/User.friends"] = ref.Out{List: users("me.friends[0]", "me.friends[1]")}
	for _, sp := range spots[di] {
		w.outs[sp] = ref.Out{K: ref.KErrors}
	}
	op := doc.Operations[0]
	got := runOp(w, doc, op, nil)
	want := ref.Execute(pSchema, doc, op, nil, w)
	zzsym.Event("errors", strings.Join(got.errs, " "))
	zzsym.Assert(got.data == want.Data, "data equals the reference execution")
	zzsym.Assert(len(want.Errors) >= 2 && sameErrors(got.errs, want.Errors), "every entry of an error list a resolver returns is an entry of the response, at the field's path")
	zzsym.Reach("c01.errlists")
}
