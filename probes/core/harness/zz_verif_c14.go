package graph

import (
	"context"

	"github.com/99designs/gqlgen/zzsym"
)

func Setup_C14_generated() { probeSetup() }

// Harness_C14_generated: the generated Complexity() switch: a field without
// a custom function, an unknown field, arguments that fail coercion => (0,
// false) (the default cost applies); otherwise the custom function receives
// the child complexity (symbolic, full width) and exactly the coerced
// arguments, and its result is returned unchanged.
func Harness_C14_generated() {
	child := zzsym.Int("child")
	ret := zzsym.Int("ret")
	var gotChild int
	var gotArgs string
	calls := 0
	cfg := Config{Resolvers: &resolverRoot{newWorld(0, false)}}
	withFunc := zzsym.Choice("custom", 2) == 1
	if withFunc {
		cfg.Complexity.User.Calc = func(childComplexity int, f *Filter, xs []int, e *Color, o *Odd, id *string, fl *float64, n int, ys [][]int) int {
			calls++
			gotChild = childComplexity
			gotArgs = "f=" + renderFilter(f) + " xs=" + renderInts(xs) + " n=" + itoa(n)
			return ret
		}
		cfg.Complexity.Box.Label = func(childComplexity int) int { calls++; gotChild = childComplexity; return ret }
		cfg.Complexity.User.Name = func(childComplexity int) int { calls++; gotChild = childComplexity; return ret }
	}
	es := NewExecutableSchema(cfg)
	type tc struct {
		typ, field string
		args       map[string]any
		ok         bool
		want       string
	}
	cases := []tc{
		{"User", "calc", map[string]any{"n": int64(7), "e": "RED"}, true, "f=nil xs=nil n=7"},
		{"User", "calc", map[string]any{"xs": int64(5), "n": int64(2), "f": map[string]any{"tags": "a"}}, true, "f={min:1 tags:[a] sub:nil g:nil} xs=[5] n=2"},
		{"User", "calc", map[string]any{"o": "bad", "n": int64(7)}, false, ""},
		{"User", "calc", map[string]any{"xs": []any{"x"}, "n": int64(7)}, false, ""},
		{"User", "name", nil, true, ""},
		{"Box", "label", nil, true, ""},
		{"Box", "caption", nil, true, ""}, // a second GraphQL field bound to the same Go field: the one function prices both
		{"User", "nope", nil, false, ""},
		{"Nope", "name", nil, false, ""},
		{"User", "friends", nil, false, ""}, // no custom function registered for it
	}
	c := cases[zzsym.Choice("case", len(cases))]
	got, ok := es.Complexity(context.Background(), c.typ, c.field, child, c.args)
	if withFunc && c.ok {
		zzsym.Assert(ok && got == ret, "the custom function's value is returned unchanged")
		zzsym.Assert(calls == 1 && gotChild == child, "the custom function is called once with the child complexity")
		if c.want != "" {
			zzsym.Assert(gotArgs == c.want, "the custom function receives the coerced arguments")
		}
		zzsym.Reach("c14.custom")
	} else {
		zzsym.Assert(!ok && got == 0 && calls == 0, "no custom cost: (0, false), so the default cost applies")
		zzsym.Reach("c14.default")
	}
}

func itoa(n int) string {
	if n == 0 {
		return "0"
	}
	neg := n < 0
	if neg {
		n = -n
	}
	var b []byte
	for n > 0 {
		b = append([]byte{byte('0' + n%10)}, b...)
		n /= 10
	}
	if neg {
		return "-" + string(b)
	}
	return string(b)
}
