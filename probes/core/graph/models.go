package graph

// Hand-written models: only the plain fields; every other schema field gets a resolver method.

type Node interface {
	IsNode()
	GetID() string
}

type Pet interface {
	IsPet()
}

type User struct {
	ID   string
	Name *string
	Age  int
}

func (User) IsNode()            {}
func (u User) GetID() string    { return u.ID }
func (User) IsPet()             {}

type Item struct {
	ID    string
	Title string
}

func (Item) IsNode()         {}
func (i Item) GetID() string { return i.ID }
func (Item) IsPet()          {}

type Filter struct {
	Min  *int
	Tags []string
	Sub  *Filter
	G    *int
}
