package graph

import (
	"errors"

	"github.com/99designs/gqlgen/graphql"
	"io"
	"strconv"
)

// OddPanicHook lets the harness count the panics raised by user code.
var OddPanicHook func()

// Odd is a custom scalar whose input coercion can fail or panic (user code).
type Odd struct{ V string }

func (o *Odd) UnmarshalGQL(v any) error {
	s, ok := v.(string)
	if !ok {
		return errors.New("Odd must be a string")
	}
	switch s {
	case "bad":
		return errors.New("bad odd")
	case "boom":
		if OddPanicHook != nil {
			OddPanicHook()
		}
		panic("odd panic")
	}
	o.V = s
	return nil
}

// MarshalGQL writes the value when the response is serialised; "boom-out" is
// user code panicking at that late point (after part of the response was written).
func (o Odd) MarshalGQL(w io.Writer) {
	if o.V == "boom-out" {
		if OddPanicHook != nil {
			OddPanicHook()
		}
		panic("odd marshal panic")
	}
	io.WriteString(w, strconv.Quote(o.V))
}

type Color string

const (
	ColorRed   Color = "RED"
	ColorGreen Color = "GREEN"
)

func (e *Color) UnmarshalGQL(v any) error {
	s, ok := v.(string)
	if !ok {
		return errors.New("enums must be strings")
	}
	if s != "RED" && s != "GREEN" {
		return errors.New(s + " is not a valid Color")
	}
	*e = Color(s)
	return nil
}

func (e Color) MarshalGQL(w io.Writer) { io.WriteString(w, strconv.Quote(string(e))) }

// Hand-written models: only the plain fields; every other schema field gets a resolver method.

type Node interface {
	IsNode()
	GetID() string
}

type Pet interface {
	IsPet()
}

type User struct {
	ID   string
	Name *string
	Age  int
}

// Label is the Go method the schema field User.label is bound to: same parameter names, another order.
func (u User) Label(last, sep, first string) string {
	return "first=" + first + "|last=" + last + "|sep=" + sep
}

func (User) IsNode()         {}
func (u User) GetID() string { return u.ID }
func (User) IsPet()          {}

type Box struct {
	ID    string
	Label *string
	Seal  string
	Code  int
}

type Item struct {
	ID    string
	Title string
}

func (Item) IsNode()         {}
func (i Item) GetID() string { return i.ID }
func (Item) IsPet()          {}

// Patch distinguishes an omitted field from an explicit null.
type Patch struct {
	Note  graphql.Omittable[*string]
	Count graphql.Omittable[*int]
	Tags  graphql.Omittable[[]string]
	Sub   graphql.Omittable[*Patch]
}

type Filter struct {
	Min  *int
	Tags []string
	Sub  *Filter
	G    *int
}

// Alien satisfies the Go interfaces Node and Pet but is not a schema type:
// a resolver returning it is a user-code failure inside the element marshaler.
type Alien struct{ ID string }

func (Alien) IsNode()         {}
func (a Alien) GetID() string { return a.ID }
func (Alien) IsPet()          {}
