// Package ref is an independent implementation of the GraphQL execution
// algorithm (June 2018 / October 2021 spec, sections 6.2-6.4) over
// gqlparser's AST and a small world model. It shares no code with gqlgen's
// runtime or generated executors; the harness runs it on the same world and
// the same variables and compares data bytes and the multiset of error paths.
package ref

import (
	"fmt"
	"sort"
	"strconv"
	"strings"

	"github.com/vektah/gqlparser/v2/ast"
)

// ---- world model

type Kind int

const (
	KValue Kind = iota
	KNull
	KError
	KPanic
	KErrVal // user code returns an error together with a value (the value is to be ignored: null and one error, like KError)
	KErrors // user code reports two failures at once (a gqlerror.List of two entries): two entries at the position's path
)

// Obj is an entity of the world.
type Obj struct {
	Type  string // "User" or "Item"
	ID    string
	Name  *string
	Age   int
	Title string
}

// Out is the outcome of one resolver (or directive) invocation.
type Out struct {
	K    Kind
	Obj  *Obj      // object-valued fields
	List []*Obj    // list-valued fields (elements may be nil)
	Strs []*string // lists of scalars (elements may be nil); nil slice = null list
	Str  string    // scalar String fields
	Int  int       // scalar Int fields
}

// World answers, consistently, what each resolver-backed position yields.
type World interface {
	// Resolve: outcome of field `field` on parent (parentID "" for root fields).
	Resolve(parentType, parentID, field string, args map[string]any) Out
	// Guard: outcome of the @guard(k) directive at (parentID, field): KValue = call next,
	// KNull = answer nil without calling next, KError / KPanic. For argument directives
	// (k = 3) the first key is the response path of the field and field is "field.arg".
	Guard(k int, parentID, field string) Kind
}

// Interceptor is implemented by worlds in which a field interceptor (around
// every field, plain ones included, outside its directives and resolver) may
// fail: KValue = call on, KNull = answer nil, KError / KPanic.
type Interceptor interface {
	Intercept(parentType, parentID, field string) Kind
}

func NewUser(id string) *Obj {
	o := &Obj{Type: "User", ID: id, Age: 20 + len(id)%7}
	if len(id)%3 != 0 {
		n := "n:" + id
		o.Name = &n
	}
	return o
}

func NewBox(id string) *Obj { return &Obj{Type: "Box", ID: id} }

func NewItem(id string) *Obj {
	return &Obj{Type: "Item", ID: id, Title: "t:" + id}
}

// ---- result

type Result struct {
	Data   string   // JSON text of the data entry
	Errors []string // response paths of the errors, sorted (multiset)
}

type exec struct {
	deferOn bool // honour @defer: a non-null failure inside a deferred group nulls the group, not the object
	schema  *ast.Schema
	doc     *ast.QueryDocument
	vars    map[string]any
	w       World
	errs    []string
	// AfterRoot is called after each root field of a mutation (serial execution witness)
	rootDone func(name string)
}

type violation struct{} // a non-null position could not be produced

// ExecuteDeferred is Execute with the one documented difference of @defer:
// null propagation from inside a deferred group stops at the group's object.
func ExecuteDeferred(schema *ast.Schema, doc *ast.QueryDocument, op *ast.OperationDefinition, vars map[string]any, w World) Result {
	return execute(schema, doc, op, vars, w, true)
}

// CallArgumentDirectivesWithNull mirrors the generator option of the same
// name (call_argument_directives_with_null): argument directives run for
// absent / null arguments as well. Set by the probe from its configuration.
var CallArgumentDirectivesWithNull bool

// Execute runs operation op of doc.
func Execute(schema *ast.Schema, doc *ast.QueryDocument, op *ast.OperationDefinition, vars map[string]any, w World) Result {
	return execute(schema, doc, op, vars, w, false)
}

func execute(schema *ast.Schema, doc *ast.QueryDocument, op *ast.OperationDefinition, vars map[string]any, w World, deferOn bool) Result {
	e := &exec{schema: schema, doc: doc, vars: vars, w: w, deferOn: deferOn}
	rootType := schema.Query.Name
	if op.Operation == ast.Mutation {
		rootType = schema.Mutation.Name
	}
	if op.Operation == ast.Subscription {
		// one event of the stream: the world answers the root field with the event's value
		rootType = schema.Subscription.Name
	}
	data, ok := e.selectionSet(rootType, nil, op.SelectionSet, "")
	if !ok {
		data = "null"
	}
	sort.Strings(e.errs)
	return Result{Data: data, Errors: e.errs}
}

func (e *exec) fail(path string) { e.errs = append(e.errs, path) }

// ---- CollectFields (spec 6.3.2)

type collected struct {
	key    string
	fields []*ast.Field
	group  string // "" = not deferred; else "label" of the deferred fragment it was collected from
}

// deferLabel returns (true, label) if ds holds an active @defer.
func (e *exec) deferLabel(ds ast.DirectiveList) (bool, string) {
	d := ds.ForName("defer")
	if d == nil || !e.deferOn {
		return false, ""
	}
	if a := d.Arguments.ForName("if"); a != nil {
		// `if` present: deferred only for the value true. gqlgen declares `if: Boolean = true` (nullable): what an
		// explicit null or a variable without a value means is not fixed by the property - whether the fragment is
		// then deferred or inlined only moves the data between payloads; the reference inlines, as gqlgen does
		if v, err := a.Value.Value(e.vars); err != nil || v != true {
			return false, ""
		}
	}
	label := ""
	if a := d.Arguments.ForName("label"); a != nil {
		if v, err := a.Value.Value(e.vars); err == nil {
			if s, ok := v.(string); ok {
				label = s
			}
		}
	}
	return true, "defer:" + label
}

func (e *exec) boolArg(d *ast.Directive, def bool) bool {
	a := d.Arguments.ForName("if")
	if a == nil {
		return def
	}
	v, err := a.Value.Value(e.vars)
	if err != nil {
		return def
	}
	b, ok := v.(bool)
	if !ok {
		return def
	}
	return b
}

func (e *exec) included(ds ast.DirectiveList) bool {
	if d := ds.ForName("skip"); d != nil && e.boolArg(d, false) {
		return false
	}
	if d := ds.ForName("include"); d != nil && !e.boolArg(d, true) {
		return false
	}
	return true
}

func (e *exec) typeApplies(objType, cond string) bool {
	if cond == "" || cond == objType {
		return true
	}
	def := e.schema.Types[cond]
	if def == nil {
		return false
	}
	switch def.Kind {
	case ast.Interface:
		for _, itf := range e.schema.Types[objType].Interfaces {
			if itf == cond {
				return true
			}
		}
	case ast.Union:
		for _, t := range def.Types {
			if t == objType {
				return true
			}
		}
	}
	return false
}

func (e *exec) collect(objType string, set ast.SelectionSet, visited map[string]bool, out *[]*collected) {
	e.collectG(objType, set, visited, out, "")
}

func (e *exec) collectG(objType string, set ast.SelectionSet, visited map[string]bool, out *[]*collected, group string) {
	for _, sel := range set {
		switch s := sel.(type) {
		case *ast.Field:
			if !e.included(s.Directives) {
				continue
			}
			key := s.Alias
			if key == "" {
				key = s.Name
			}
			var c *collected
			for _, x := range *out {
				if x.key == key {
					c = x
				}
			}
			if c == nil {
				c = &collected{key: key, group: group}
				*out = append(*out, c)
			}
			c.fields = append(c.fields, s)
		case *ast.FragmentSpread:
			if !e.included(s.Directives) {
				continue
			}
			if visited[s.Name] {
				continue
			}
			visited[s.Name] = true
			f := e.doc.Fragments.ForName(s.Name)
			if f == nil || !e.typeApplies(objType, f.TypeCondition) {
				continue
			}
			g := group
			if on, l := e.deferLabel(s.Directives); on {
				g = l
			}
			e.collectG(objType, f.SelectionSet, visited, out, g)
		case *ast.InlineFragment:
			if !e.included(s.Directives) {
				continue
			}
			if !e.typeApplies(objType, s.TypeCondition) {
				continue
			}
			g := group
			if on, l := e.deferLabel(s.Directives); on {
				g = l
			}
			e.collectG(objType, s.SelectionSet, visited, out, g)
		}
	}
}

// ---- ExecuteSelectionSet (6.3) / field execution (6.4)

func pathJoin(path, key string) string {
	if path == "" {
		return key
	}
	return path + "." + key
}

// selectionSet returns the JSON object and false if a non-null field failed.
func (e *exec) selectionSet(objType string, obj *Obj, set ast.SelectionSet, path string) (string, bool) {
	var cs []*collected
	e.collect(objType, set, map[string]bool{}, &cs)
	var sb strings.Builder
	sb.WriteByte('{')
	ok := true
	vals := make([]string, len(cs))
	failedGroup := map[string]bool{}
	for i, c := range cs {
		v, fine := e.field(objType, obj, c, pathJoin(path, c.key))
		vals[i] = v
		if !fine {
			if c.group != "" && e.deferrable(objType, c) {
				failedGroup[c.group] = true
			} else {
				ok = false
			}
		}
	}
	for i, c := range cs {
		if i > 0 {
			sb.WriteByte(',')
		}
		sb.WriteString(strconv.Quote(c.key))
		sb.WriteByte(':')
		v := vals[i]
		if c.group != "" && failedGroup[c.group] && e.deferrable(objType, c) {
			v = "null"
		}
		sb.WriteString(v)
		if e.schema.Mutation != nil && objType == e.schema.Mutation.Name && e.rootDone != nil {
			e.rootDone(c.key)
		}
	}
	sb.WriteByte('}')
	if !ok {
		return "null", false
	}
	return sb.String(), true
}

// deferrable: only resolver-backed, non-root fields are delivered later
// (plain fields of a deferred fragment arrive with the object).
func (e *exec) deferrable(objType string, c *collected) bool {
	if objType == "Query" || objType == "Commands" || objType == "Mutation" || objType == "Subscription" {
		return false
	}
	switch objType + "." + c.fields[0].Name {
	case "User.id", "User.name", "User.age", "User.label", "Item.id", "Item.title":
		return false
	}
	return c.fields[0].Name != "__typename"
}

func mergedSelections(fs []*ast.Field) ast.SelectionSet {
	var out ast.SelectionSet
	for _, f := range fs {
		out = append(out, f.SelectionSet...)
	}
	return out
}

func argMap(f *ast.Field, vars map[string]any) map[string]any {
	return f.ArgumentMap(vars)
}

// field executes one collected response key; ok=false means "null in a non-null position".
func (e *exec) field(objType string, obj *Obj, c *collected, path string) (string, bool) {
	f := c.fields[0]
	if f.Name == "__typename" {
		return strconv.Quote(objType), true
	}
	def := e.schema.Types[objType].Fields.ForName(f.Name)
	if def == nil {
		// introspection roots and the like: outside the reference
		return "null", true
	}
	t := def.Type
	if ic, ok := e.w.(Interceptor); ok {
		id := ""
		if obj != nil {
			id = obj.ID
		}
		switch ic.Intercept(objType, id, f.Name) {
		case KNull:
			return e.nullAt(t, path, false)
		case KError, KPanic:
			e.fail(path)
			return e.nullAt(t, path, true)
		}
	}
	// an executable directive on the field of the operation (@mark on FIELD) wraps the field-definition directives
	if m := f.Directives.ForName("mark"); m != nil {
		id := ""
		if obj != nil {
			id = obj.ID
		}
		switch e.w.Guard(5, id, f.Name) {
		case KNull:
			return e.nullAt(t, path, false)
		case KError, KPanic:
			e.fail(path)
			return e.nullAt(t, path, true)
		}
	}
	// field-definition directives wrap the resolver
	if g := def.Directives.ForName("guard"); g != nil {
		k := 0
		if a := g.Arguments.ForName("k"); a != nil {
			k, _ = strconv.Atoi(a.Value.Raw)
		}
		id := ""
		if obj != nil {
			id = obj.ID
		}
		switch e.w.Guard(k, id, f.Name) {
		case KNull:
			return e.nullAt(t, path, false)
		case KError, KPanic:
			e.fail(path)
			return e.nullAt(t, path, true)
		}
	}
	// argument coercion happens before the resolver: a failing custom scalar
	// or argument directive fails the field (resolver not called)
	if len(def.Arguments) > 0 {
		args := argMap(f, e.vars)
		for _, ad := range def.Arguments {
			v, present := args[ad.Name]
			if !present && !(CallArgumentDirectivesWithNull && ad.Directives.ForName("guard") != nil) {
				continue
			}
			if g := ad.Directives.ForName("guard"); g != nil {
				switch e.w.Guard(3, path, f.Name+"."+ad.Name) {
				case KError:
					e.fail(path + "." + ad.Name)
					return e.nullAt(t, path, true)
				case KPanic:
					e.fail(path)
					return e.nullAt(t, path, true)
				}
			}
			if ad.Type.NamedType == "Odd" {
				switch v {
				case "bad":
					e.fail(path + "." + ad.Name)
					return e.nullAt(t, path, true)
				case "boom":
					e.fail(path)
					return e.nullAt(t, path, true)
				}
			}
		}
	}
	// plain fields
	if obj != nil {
		switch objType + "." + f.Name {
		case "User.id", "Item.id", "Box.id":
			return strconv.Quote(obj.ID), true
		case "User.name":
			if obj.Name == nil {
				return "null", true
			}
			return strconv.Quote(*obj.Name), true
		case "User.age":
			return strconv.Itoa(obj.Age), true
		case "User.label":
			// a field bound to a method of the model: computed from the coerced arguments, by name
			a := argMap(f, e.vars)
			return strconv.Quote(fmt.Sprintf("first=%v|last=%v|sep=%v", a["first"], a["last"], a["sep"])), true
		case "Item.title":
			return strconv.Quote(obj.Title), true
		case "Box.seal":
			return strconv.Quote("seal:" + obj.ID), true
		case "Box.code":
			return "7", true
		}
	}
	pid := ""
	if obj != nil {
		pid = obj.ID
	}
	out := e.w.Resolve(objType, pid, f.Name, argMap(f, e.vars))
	switch out.K {
	case KErrors:
		e.fail(path)
		e.fail(path)
		return e.nullAt(t, path, true)
	case KError, KPanic, KErrVal:
		e.fail(path)
		return e.nullAt(t, path, true)
	case KNull:
		return e.nullAt(t, path, false)
	}
	return e.complete(t, out, mergedSelections(c.fields), path)
}

// nullAt: the position holds null; in a non-null position that is a field
// error (reported once) and the null propagates.
func (e *exec) nullAt(t *ast.Type, path string, alreadyReported bool) (string, bool) {
	if t.NonNull {
		if !alreadyReported {
			e.fail(path)
		}
		return "null", false
	}
	return "null", true
}

// complete implements CompleteValue for a non-null resolver result.
func (e *exec) complete(t *ast.Type, out Out, sub ast.SelectionSet, path string) (string, bool) {
	if t.Elem != nil && t.Elem.Elem == nil && e.schema.Types[t.Elem.NamedType] != nil &&
		(e.schema.Types[t.Elem.NamedType].Kind == ast.Scalar || e.schema.Types[t.Elem.NamedType].Kind == ast.Enum) {
		// a list of scalars
		if out.Strs == nil {
			return e.nullAt(t, path, false)
		}
		var sb strings.Builder
		sb.WriteByte('[')
		ok := true
		for i, el := range out.Strs {
			if i > 0 {
				sb.WriteByte(',')
			}
			if el == nil {
				v, fine := e.nullAt(t.Elem, path+"["+strconv.Itoa(i)+"]", false)
				if !fine {
					ok = false
				}
				sb.WriteString(v)
			} else {
				sb.WriteString(strconv.Quote(*el))
			}
		}
		sb.WriteByte(']')
		if !ok {
			return e.nullAt(t, path, true)
		}
		return sb.String(), true
	}
	if t.Elem != nil {
		if out.List == nil {
			return e.nullAt(t, path, false)
		}
		var sb strings.Builder
		sb.WriteByte('[')
		ok := true
		for i, el := range out.List {
			if i > 0 {
				sb.WriteByte(',')
			}
			ep := path + "[" + strconv.Itoa(i) + "]"
			var v string
			var fine bool
			if el == nil {
				v, fine = e.nullAt(t.Elem, ep, false)
			} else {
				v, fine = e.completeObj(t.Elem, el, sub, ep)
			}
			if !fine {
				ok = false
			}
			sb.WriteString(v)
		}
		sb.WriteByte(']')
		if !ok {
			// a failed non-null element nulls the list
			return e.nullAt(t, path, true)
		}
		return sb.String(), true
	}
	def := e.schema.Types[t.NamedType]
	switch def.Kind {
	case ast.Scalar, ast.Enum:
		switch t.NamedType {
		case "Int":
			return strconv.Itoa(out.Int), true
		default:
			return strconv.Quote(out.Str), true
		}
	}
	if out.Obj == nil {
		return e.nullAt(t, path, false)
	}
	return e.completeObj(t, out.Obj, sub, path)
}

func (e *exec) completeObj(t *ast.Type, o *Obj, sub ast.SelectionSet, path string) (string, bool) {
	if e.schema.Types[o.Type] == nil {
		// user code returned a value that is not a type of the schema: that position fails
		e.fail(path)
		return e.nullAt(t, path, true)
	}
	v, ok := e.selectionSet(o.Type, o, sub, path)
	if !ok {
		return e.nullAt(t, path, true)
	}
	return v, true
}
