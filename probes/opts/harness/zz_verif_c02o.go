package graph

import (
	"github.com/99designs/gqlgen/zzsym"
)

func Setup_C02_options() { optsSetup() }

type optsCase struct {
	query string
	vars  map[string]any
	want  string // what the resolver must receive ("" = coercion fails)
	errAt string // for failures: the path of the one error
}

var optsCases = []optsCase{
	{`{ events(filter: {range: {from: 1}}) }`, nil, `events {"range":{"blank":"","eps":1e-7,"from":1,"off":false,"ratio":0.1234567891,"to":9,"zero":0}}`, ""},
	{`{ events(filter: {since: "2020-01-02T03:04:05Z", range: {from: 2, to: 3}, tags: "a", subs: {from: 7}}) }`, nil,
		`events {"range":{"blank":"","eps":1e-7,"from":2,"off":false,"ratio":0.1234567891,"to":3,"zero":0},"since":"2020-01-02T03:04:05Z","subs":[{"blank":"","eps":1e-7,"from":7,"off":false,"ratio":0.1234567891,"to":9,"zero":0}],"tags":["a"]}`, ""},
	{`query($f: Filter!) { events(filter: $f) }`, map[string]any{"f": map[string]any{"range": map[string]any{"from": int64(4)}, "opt": nil}},
		`events {"range":{"blank":"","eps":1e-7,"from":4,"off":false,"ratio":0.1234567891,"to":9,"zero":0}}`, ""},
	{`{ maybe }`, nil, `maybe null`, ""},
	{`{ maybe(filter: null) }`, nil, `maybe null`, ""},
	{`{ maybe(filter: {range: {from: 5}, opt: {from: 6, to: null}, subs: [{from: 1}, {from: 2, at: "2021-05-06T07:08:09Z"}]}) }`, nil,
		`maybe {"opt":{"blank":"","eps":1e-7,"from":6,"off":false,"ratio":0.1234567891,"zero":0},"range":{"blank":"","eps":1e-7,"from":5,"off":false,"ratio":0.1234567891,"to":9,"zero":0},"subs":[{"blank":"","eps":1e-7,"from":1,"off":false,"ratio":0.1234567891,"to":9,"zero":0},{"at":"2021-05-06T07:08:09Z","blank":"","eps":1e-7,"from":2,"off":false,"ratio":0.1234567891,"to":9,"zero":0}]}`, ""},
	// values gqlparser cannot judge (a custom scalar) that the Go-side coercion refuses: one error at the input field's path, the resolver is not called
	{`{ events(filter: {since: "yesterday", range: {from: 1}}) }`, nil, "", "events.filter.since"},
	{`query($f: Filter!) { events(filter: $f) }`, map[string]any{"f": map[string]any{"since": "nope", "range": map[string]any{"from": int64(1)}}}, "", "events.filter.since"},
	{`{ events(filter: {since: "", range: {from: 1}}) }`, nil, "", "events.filter.since"},
	{`query($t: Time) { maybe(filter: {since: $t, range: {from: 1, at: ""}}) }`, map[string]any{"t": "2020-01-02T03:04:05Z"}, "", "maybe.filter.range.at"},
	{`{ events(filter: {range: {from: 1, at: "bad"}}) }`, nil, "", "events.filter.range.at"},
	{`{ events(filter: {range: {from: 1}, opt: {from: 2, at: "bad"}}) }`, nil, "", "events.filter.opt.at"},
	{`{ events(filter: {range: {from: 1}, subs: [{from: 1}, {from: 2, at: "bad"}]}) }`, nil, "", "events.filter.subs[1].at"},
	{`{ maybe(filter: {range: {from: 1, at: "bad"}}) }`, nil, "", "maybe.filter.range.at"},
	{`query($f: Filter) { maybe(filter: $f) }`, map[string]any{"f": map[string]any{"range": map[string]any{"from": int64(1)}, "subs": []any{map[string]any{"from": int64(3), "at": "x"}}}}, "", "maybe.filter.subs[0].at"},
}

// Harness_C02_options: input objects through the generated binders under the
// options that change how they are handed around (pointer results of
// unmarshalInput*, value or pointer struct fields, slices of values): the
// resolver receives exactly the coerced input, and an input that cannot be
// coerced is one error at the input field's own path - not a panic, not an
// error somewhere else - and the resolver is not called.
func Harness_C02_options() {
	c := optsCases[zzsym.Choice("case", len(optsCases))]
	got := optsRun(c.query, c.vars)
	for _, x := range got.seen {
		zzsym.Event("seen", x)
	}
	zzsym.Assert(!got.rejected, "corpus annotation: the request passes validation and variable coercion")
	zzsym.Assert(got.recovers == 0, "no panic of gqlgen's own while binding arguments")
	if c.want != "" {
		zzsym.Assert(len(got.seen) == 1 && got.seen[0] == c.want, "the resolver receives exactly the coerced input")
		zzsym.Assert(len(got.errs) == 0, "no error for coercible input")
		zzsym.Reach("c02.opts.coerced")
	} else {
		zzsym.Assert(len(got.seen) == 0, "the resolver is not called when an input field cannot be coerced")
		zzsym.Assert(len(got.errs) == 1 && got.errs[0] == c.errAt, "one error at the input field's path")
		zzsym.Reach("c02.opts.rejected")
	}
}
