package graph

import (
	"context"
	"encoding/json"
	"sort"
	"strconv"
	"strings"

	"github.com/vektah/gqlparser/v2"
	"github.com/vektah/gqlparser/v2/ast"
	"github.com/vektah/gqlparser/v2/gqlerror"

	"github.com/99designs/gqlgen/graphql"
	"github.com/99designs/gqlgen/graphql/executor"
)

type optsRoot struct{ seen *[]string }

func (r *optsRoot) Query() QueryResolver { return &optsQuery{r.seen} }

type optsQuery struct{ seen *[]string }

// canonArg renders what the resolver received: JSON with null members dropped (the generated models'
// omitempty choices and pointer / value fields differ between configurations, the values do not)
func canonArg(v any) string {
	b, err := json.Marshal(v)
	if err != nil {
		return "!" + err.Error()
	}
	var x any
	if err := json.Unmarshal(b, &x); err != nil {
		return "!" + err.Error()
	}
	return canonJSON(x)
}

func canonJSON(x any) string {
	switch x := x.(type) {
	case nil:
		return "null"
	case map[string]any:
		var ks []string
		for k, v := range x {
			if v != nil {
				ks = append(ks, k)
			}
		}
		sort.Strings(ks)
		s := "{"
		for i, k := range ks {
			if i > 0 {
				s += ","
			}
			s += strconv.Quote(k) + ":" + canonJSON(x[k])
		}
		return s + "}"
	case []any:
		s := "["
		for i, e := range x {
			if i > 0 {
				s += ","
			}
			s += canonJSON(e)
		}
		return s + "]"
	default:
		b, _ := json.Marshal(x)
		return string(b)
	}
}

func (q *optsQuery) Events(ctx context.Context, filter Filter) (*string, error) {
	*q.seen = append(*q.seen, "events "+canonArg(filter))
	s := "ok"
	return &s, nil
}

func (q *optsQuery) Maybe(ctx context.Context, filter *Filter) (*string, error) {
	if filter == nil {
		*q.seen = append(*q.seen, "maybe null")
	} else {
		*q.seen = append(*q.seen, "maybe "+canonArg(filter))
	}
	s := "ok"
	return &s, nil
}

var optsSchema *ast.Schema

func optsSetup() {
	optsSchema = NewExecutableSchema(Config{Resolvers: &optsRoot{}}).Schema()
}

func optsPath(p ast.Path) string {
	var sb strings.Builder
	for i, e := range p {
		switch e := e.(type) {
		case ast.PathName:
			if i > 0 {
				sb.WriteByte('.')
			}
			sb.WriteString(string(e))
		case ast.PathIndex:
			sb.WriteString("[" + strconv.Itoa(int(e)) + "]")
		}
	}
	return sb.String()
}

type optsResult struct {
	data     string
	errs     []string
	seen     []string
	recovers int
	rejected bool // refused before execution (validation / variable coercion)
}

func optsRun(query string, vars map[string]any) optsResult {
	var res optsResult
	es := NewExecutableSchema(Config{Resolvers: &optsRoot{&res.seen}})
	ex := executor.New(es)
	ex.SetRecoverFunc(func(ctx context.Context, err any) error {
		res.recovers++
		return gqlerror.Errorf("internal system error")
	})
	ctx := graphql.StartOperationTrace(context.Background())
	rc, errs := ex.CreateOperationContext(ctx, &graphql.RawParams{Query: query, Variables: vars})
	if len(errs) != 0 {
		res.rejected = true
		for _, e := range errs {
			res.errs = append(res.errs, optsPath(e.Path))
		}
		return res
	}
	rh, ctx2 := ex.DispatchOperation(ctx, rc)
	resp := rh(ctx2)
	res.data = string(resp.Data)
	for _, e := range resp.Errors {
		res.errs = append(res.errs, optsPath(e.Path))
	}
	return res
}

var _ = gqlparser.MustLoadQuery
