package graphql

import (
	"bytes"
	"encoding/json"
	"math"
	"strconv"
	"strings"

	"github.com/99designs/gqlgen/zzsym"
)

// Harness_C02_typedInts: the integer Unmarshal functions on typed inputs
// (the Go types a JSON decoder or the query parser hands over), values
// symbolic at full width: when no error is returned the result is
// mathematically the input; inputs inside the target range are accepted.
func Harness_C02_typedInts() {
	i64 := zzsym.Int64("x")
	var in any
	src := zzsym.Choice("src", 2)
	if src == 0 {
		in = i64
	} else {
		in = int(i64)
	}
	switch zzsym.Choice("fn", 8) {
	case 0:
		r, err := UnmarshalInt(in)
		zzsym.Assert(err == nil && int64(r) == i64, "UnmarshalInt keeps the value")
	case 1:
		r, err := UnmarshalInt64(in)
		zzsym.Assert(err == nil && r == i64, "UnmarshalInt64 keeps the value")
	case 2:
		r, err := UnmarshalInt32(in)
		inRange := i64 >= math.MinInt32 && i64 <= math.MaxInt32
		zzsym.Assert((err == nil) == inRange, "UnmarshalInt32 accepts exactly the 32-bit range")
		if err == nil {
			zzsym.Assert(int64(r) == i64, "UnmarshalInt32 keeps the value")
		}
	case 3:
		r, err := UnmarshalUint(in)
		zzsym.Assert((err == nil) == (i64 >= 0), "UnmarshalUint rejects exactly the negative inputs")
		if err == nil {
			zzsym.Assert(uint64(r) == uint64(i64), "UnmarshalUint keeps the value")
		}
	case 4:
		r, err := UnmarshalUint64(in)
		zzsym.Assert((err == nil) == (i64 >= 0), "UnmarshalUint64 rejects exactly the negative inputs")
		if err == nil {
			zzsym.Assert(r == uint64(i64), "UnmarshalUint64 keeps the value")
		}
	case 5:
		r, err := UnmarshalUint32(in)
		inRange := i64 >= 0 && i64 <= math.MaxUint32
		zzsym.Assert((err == nil) == inRange, "UnmarshalUint32 accepts exactly the unsigned 32-bit range")
		if err == nil {
			zzsym.Assert(int64(r) == i64, "UnmarshalUint32 keeps the value")
		}
	case 6:
		r, err := UnmarshalIntID(in)
		zzsym.Assert(err == nil && int64(r) == i64, "UnmarshalIntID keeps the value")
	case 7:
		var in2 any = in
		neg := i64 < 0
		val := uint64(i64)
		switch zzsym.Choice("uintid-src", 3) {
		case 1:
			x32 := zzsym.Int32("x32")
			in2, neg, val = x32, x32 < 0, uint64(x32)
		case 2:
			u := zzsym.Uint64("u64")
			in2, neg, val = u, false, u
		}
		r, err := UnmarshalUintID(in2)
		if err == nil {
			zzsym.Assert(!neg, "UnmarshalUintID does not turn a negative input into a huge unsigned id")
			zzsym.Assert(uint64(r) == val, "UnmarshalUintID keeps the value")
		}
		zzsym.Assert(neg || err == nil, "UnmarshalUintID accepts every non-negative input")
	}
	zzsym.Reach("c02.typed")
}

// boundary grid of decimal integer texts: every width boundary +- 1, signs, junk
var c02Grid = []string{
	"0", "1", "-1", "+5", "007", "127", "128", "-128", "-129", "32767", "32768", "2147483647", "2147483648", "-2147483648", "-2147483649",
	"4294967295", "4294967296", "9223372036854775807", "9223372036854775808", "-9223372036854775808", "-9223372036854775809",
	"18446744073709551615", "18446744073709551616", "1.0", "1e3", "", " 1", "abc", "0x10", "-0",
}

// c02Canon: the canonical decimal text of a grid entry that is a plain integer ("" if it is not).
func c02Canon(s string) string {
	t := strings.TrimPrefix(s, "+")
	neg := strings.HasPrefix(t, "-")
	d := strings.TrimPrefix(t, "-")
	if d == "" {
		return ""
	}
	for _, c := range d {
		if c < '0' || c > '9' {
			return ""
		}
	}
	d = strings.TrimLeft(d, "0")
	if d == "" {
		return "0"
	}
	if neg {
		return "-" + d
	}
	return d
}

// Harness_C02_stringInts: the same functions on string and json.Number
// inputs from the boundary grid: an accepted input yields the number the
// text denotes (its canonical decimal rendering is unchanged), never a
// wrapped or truncated one.
func Harness_C02_stringInts() {
	s := c02Grid[zzsym.Choice("text", len(c02Grid))]
	var in any = s
	if zzsym.Choice("asNumber", 2) == 1 {
		in = json.Number(s)
	}
	canon := c02Canon(s)
	check := func(err error, rendered string) {
		if err == nil {
			zzsym.Assert(canon != "" && rendered == canon, "an accepted numeric text yields exactly the number it denotes")
		}
	}
	switch zzsym.Choice("fn", 8) {
	case 0:
		r, err := UnmarshalInt(in)
		check(err, strconv.Itoa(r))
	case 1:
		r, err := UnmarshalInt64(in)
		check(err, strconv.FormatInt(r, 10))
	case 2:
		r, err := UnmarshalInt32(in)
		check(err, strconv.FormatInt(int64(r), 10))
	case 3:
		r, err := UnmarshalUint(in)
		check(err, strconv.FormatUint(uint64(r), 10))
	case 4:
		r, err := UnmarshalUint64(in)
		check(err, strconv.FormatUint(r, 10))
	case 5:
		r, err := UnmarshalUint32(in)
		check(err, strconv.FormatUint(uint64(r), 10))
	case 6:
		r, err := UnmarshalIntID(in)
		check(err, strconv.Itoa(r))
	case 7:
		r, err := UnmarshalUintID(in)
		check(err, strconv.FormatUint(uint64(r), 10))
	}
	zzsym.Reach("c02.strings")
}

// Harness_C08_intRoundTrip: Marshal* of boundary values is a JSON number
// (or, for the ID forms, a JSON string of digits) that decodes and
// unmarshals back to the same value.
func Harness_C08_intRoundTrip() {
	vals := []int64{0, 1, -1, 127, -128, 32767, math.MaxInt32, math.MinInt32, math.MaxInt32 + 1, math.MaxUint32, math.MaxInt64, math.MinInt64}
	v := vals[zzsym.Choice("value", len(vals))]
	var buf bytes.Buffer
	dec := func() any {
		d := json.NewDecoder(bytes.NewReader(buf.Bytes()))
		d.UseNumber()
		var x any
		zzsym.Assert(d.Decode(&x) == nil, "the marshalled integer is valid JSON")
		return x
	}
	switch zzsym.Choice("fn", 7) {
	case 0:
		MarshalInt(int(v)).MarshalGQL(&buf)
		r, err := UnmarshalInt(dec())
		zzsym.Assert(err == nil && int64(r) == v, "Int round-trips")
	case 1:
		MarshalInt64(v).MarshalGQL(&buf)
		r, err := UnmarshalInt64(dec())
		zzsym.Assert(err == nil && r == v, "Int64 round-trips")
	case 2:
		MarshalInt32(int32(v)).MarshalGQL(&buf)
		r, err := UnmarshalInt32(dec())
		zzsym.Assert(err == nil && r == int32(v), "Int32 round-trips")
	case 3:
		MarshalUint64(uint64(v)).MarshalGQL(&buf)
		r, err := UnmarshalUint64(dec())
		zzsym.Assert(err == nil && r == uint64(v), "Uint64 round-trips")
	case 4:
		MarshalUint32(uint32(v)).MarshalGQL(&buf)
		r, err := UnmarshalUint32(dec())
		zzsym.Assert(err == nil && r == uint32(v), "Uint32 round-trips")
	case 5:
		MarshalIntID(int(v)).MarshalGQL(&buf)
		x := dec()
		_, isStr := x.(string)
		zzsym.Assert(isStr, "an integer ID is serialised as a JSON string")
		r, err := UnmarshalIntID(x)
		zzsym.Assert(err == nil && int64(r) == v, "IntID round-trips")
	case 6:
		MarshalUintID(uint(v)).MarshalGQL(&buf)
		r, err := UnmarshalUintID(dec())
		zzsym.Assert(err == nil && r == uint(v), "UintID round-trips")
	}
	zzsym.Reach("c08.ints")
}

// Harness_C08_float: for every float64 bit pattern the default Float binding
// (FloatContext) reports non-finite values as errors and otherwise emits a
// valid JSON number token that decodes to exactly the original value, and
// unmarshalling the decoded value (as float64, json.Number or string) gives
// the original back; the plain Float binding does the same for finite
// values. The digit generation of strconv/fmt is a contract model under the
// engine (shortest text that parses back to the value at the formatter's bit
// size); the native replays run the real formatter.
func Harness_C08_float() {
	f := zzsym.Float64("f")
	var buf bytes.Buffer
	finite := !math.IsInf(f, 0) && !math.IsNaN(f)
	if zzsym.Choice("binding", 2) == 1 {
		zzsym.Assume(finite) // the plain binding has no error channel: finite values only
		MarshalFloat(f).MarshalGQL(&buf)
	} else {
		err := MarshalFloatContext(f).MarshalGQLContext(nil, &buf)
		zzsym.Assert((err == nil) == finite, "MarshalFloatContext errors exactly on non-finite values")
		if err != nil {
			zzsym.Assert(buf.Len() == 0, "nothing is emitted for a non-finite float")
			zzsym.Reach("c08.float")
			return
		}
	}
	v, ok := zzsym.FloatToken(buf.String())
	zzsym.Assert(ok, "a finite float is emitted as a valid JSON number token")
	zzsym.Assert(v == f, "the emitted number decodes to exactly the original float64")
	var back float64
	var err error
	switch zzsym.Choice("decoded-as", 3) {
	case 0:
		back, err = UnmarshalFloatContext(nil, v)
	case 1:
		back, err = UnmarshalFloatContext(nil, json.Number(buf.String()))
	case 2:
		back, err = UnmarshalFloat(buf.String())
	}
	zzsym.Assert(err == nil && back == f, "unmarshalling the decoded value gives the original back")
	zzsym.Reach("c08.float")
}
