package introspection

import (
	"github.com/vektah/gqlparser/v2/ast"

	"github.com/99designs/gqlgen/zzsym"
)

type c16Dep struct {
	on     bool
	reason bool
}

func c16MkDep(name string) c16Dep {
	d := c16Dep{on: zzsym.Bool("dep:" + name)}
	if d.on {
		d.reason = zzsym.Bool("reason:" + name)
	}
	return d
}

func (d c16Dep) directives(tag string) ast.DirectiveList {
	var ds ast.DirectiveList
	ds = append(ds, &ast.Directive{Name: "other"})
	if d.on {
		dir := &ast.Directive{Name: "deprecated"}
		if d.reason {
			dir.Arguments = ast.ArgumentList{{Name: "reason", Value: &ast.Value{Raw: "why:" + tag, Kind: ast.StringValue}}}
		}
		ds = append(ds, dir)
	}
	return ds
}

func c16CheckDep(d c16Dep, tag string, isDep bool, reason *string, fieldStyle bool, what string) {
	zzsym.Assert(isDep == d.on, what+": isDeprecated is the element's own @deprecated")
	switch {
	case !d.on:
		zzsym.Assert(reason == nil, what+": no deprecationReason when not deprecated")
	case d.reason:
		zzsym.Assert(reason != nil && *reason == "why:"+tag, what+": deprecationReason is the element's own reason")
	case fieldStyle:
		zzsym.Assert(reason != nil && *reason == "No longer supported", what+": default deprecation reason")
	}
}

func c16Type(name string) *ast.Type { return ast.NamedType(name, nil) }

type c16Default struct {
	v    *ast.Value
	want string // the GraphQL literal introspection must report; "" = no default declared
}

// default values of every literal kind
var c16Defaults = []c16Default{
	{nil, ""},
	{&ast.Value{Raw: "null", Kind: ast.NullValue}, "null"},
	{&ast.Value{Raw: "s\"q", Kind: ast.StringValue}, `"s\"q"`},
	{&ast.Value{Raw: "7", Kind: ast.IntValue}, "7"},
	{&ast.Value{Raw: "false", Kind: ast.BooleanValue}, "false"},
	{&ast.Value{Raw: "RED", Kind: ast.EnumValue}, "RED"},
	{&ast.Value{Raw: "1.5", Kind: ast.FloatValue}, "1.5"},
	{&ast.Value{Kind: ast.ListValue, Children: ast.ChildValueList{{Value: &ast.Value{Raw: "1", Kind: ast.IntValue}}, {Value: &ast.Value{Raw: "null", Kind: ast.NullValue}}}}, "[1,null]"},
	{&ast.Value{Kind: ast.ObjectValue, Children: ast.ChildValueList{{Name: "a", Value: &ast.Value{Raw: "1", Kind: ast.IntValue}}}}, "{a:1}"},
	{&ast.Value{Kind: ast.ListValue}, "[]"},
}

func c16PickDefault(name string) c16Default {
	return c16Defaults[zzsym.Choice("default:"+name, zzsym.Param("defaults", 3))]
}

func c16CheckDefault(d c16Default, got *string, what string) {
	if d.want == "" {
		zzsym.Assert(got == nil, what+": no default value when none declared")
	} else {
		zzsym.Assert(got != nil && *got == d.want, what+": the declared default value is reported as its GraphQL literal")
	}
}

// Harness_C16_fields: an object type with 2 fields x 2 arguments, each
// element with symbolic @deprecated (with/without reason), description and
// default value: every wrapped element reports its own data.
func Harness_C16_fields() {
	schema := &ast.Schema{Types: map[string]*ast.Definition{}}
	def := &ast.Definition{Kind: ast.Object, Name: "T"}
	names := []string{"a", "b"}
	fdep := map[string]c16Dep{}
	adep := map[string]c16Dep{}
	hasDesc := zzsym.Bool("desc")
	hasDefault := zzsym.Bool("default")
	ydef := c16Default{}
	if hasDefault {
		ydef = c16PickDefault("arg.y")
	}
	for _, fn := range names {
		fd := c16MkDep(fn)
		fdep[fn] = fd
		f := &ast.FieldDefinition{Name: fn, Type: c16Type("String"), Directives: fd.directives(fn)}
		if hasDesc {
			f.Description = "d:" + fn
		}
		for _, an := range []string{"x", "y"} {
			key := fn + "." + an
			ad := c16MkDep(key)
			adep[key] = ad
			arg := &ast.ArgumentDefinition{Name: an, Type: ast.NonNullNamedType("Int", nil), Directives: ad.directives(key)}
			if hasDesc {
				arg.Description = "d:" + key
			}
			if hasDefault && an == "y" {
				arg.DefaultValue = ydef.v
			}
			f.Arguments = append(f.Arguments, arg)
		}
		def.Fields = append(def.Fields, f)
	}
	def.Fields = append(def.Fields, &ast.FieldDefinition{Name: "__typename", Type: c16Type("String")})
	schema.Types["T"] = def
	schema.Types["String"] = &ast.Definition{Kind: ast.Scalar, Name: "String"}
	schema.Types["Int"] = &ast.Definition{Kind: ast.Scalar, Name: "Int"}
	t := WrapTypeFromDef(schema, def)
	incl := zzsym.Bool("includeDeprecated")
	got := t.Fields(incl)
	// expected field list
	var want []string
	for _, fn := range names {
		if incl || !fdep[fn].on {
			want = append(want, fn)
		}
	}
	zzsym.Assert(len(got) == len(want), "fields(includeDeprecated) lists exactly the fields it should")
	for i := range got {
		f := &got[i]
		fn := want[i]
		zzsym.Assert(f.Name == fn, "fields keep schema order and names")
		c16CheckDep(fdep[fn], fn, f.IsDeprecated(), f.DeprecationReason(), true, "field")
		zzsym.Assert((f.Description() != nil) == hasDesc && (!hasDesc || *f.Description() == "d:"+fn), "field description")
		zzsym.Assert(f.Type != nil && f.Type.Name() != nil && *f.Type.Name() == "String", "field type")
		zzsym.Assert(len(f.Args) == 2, "every argument is listed")
		for j, an := range []string{"x", "y"} {
			a := &f.Args[j]
			key := fn + "." + an
			zzsym.Assert(a.Name == an, "argument names")
			c16CheckDep(adep[key], key, a.IsDeprecated(), a.DeprecationReason(), false, "argument")
			zzsym.Assert((a.Description() != nil) == hasDesc && (!hasDesc || *a.Description() == "d:"+key), "argument description")
			zzsym.Assert(a.Type.Kind() == "NON_NULL" && a.Type.OfType() != nil && *a.Type.OfType().Name() == "Int", "argument type chain NON_NULL -> Int")
			if hasDefault && an == "y" {
				c16CheckDefault(ydef, a.DefaultValue, "argument")
			} else {
				zzsym.Assert(a.DefaultValue == nil, "no default value when none declared")
			}
		}
	}
	zzsym.Reach("c16.fields")
}

// Harness_C16_inputsEnums: input fields, enum values and directive
// arguments report their own deprecation / default / description.
func Harness_C16_inputsEnums() {
	schema := &ast.Schema{Types: map[string]*ast.Definition{}, Directives: map[string]*ast.DirectiveDefinition{}}
	schema.Types["Int"] = &ast.Definition{Kind: ast.Scalar, Name: "Int"}
	in := &ast.Definition{Kind: ast.InputObject, Name: "In"}
	idep := map[string]c16Dep{}
	var qdef c16Default
	for _, fn := range []string{"p", "q"} {
		d := c16MkDep("in." + fn)
		idep[fn] = d
		f := &ast.FieldDefinition{Name: fn, Type: ast.ListType(c16Type("Int"), nil), Directives: d.directives("in." + fn)}
		if fn == "q" {
			qdef = c16PickDefault("in.q")
			f.DefaultValue = qdef.v
		}
		in.Fields = append(in.Fields, f)
	}
	schema.Types["In"] = in
	en := &ast.Definition{Kind: ast.Enum, Name: "E"}
	edep := map[string]c16Dep{}
	for _, vn := range []string{"A", "B"} {
		d := c16MkDep("enum." + vn)
		edep[vn] = d
		en.EnumValues = append(en.EnumValues, &ast.EnumValueDefinition{Name: vn, Description: "d:" + vn, Directives: d.directives("enum." + vn)})
	}
	schema.Types["E"] = en
	ddep := c16MkDep("dir.arg")
	ddef := c16PickDefault("dir.arg")
	schema.Directives["tag"] = &ast.DirectiveDefinition{Name: "tag", Locations: []ast.DirectiveLocation{ast.LocationField}, IsRepeatable: true,
		Arguments: ast.ArgumentDefinitionList{{Name: "arg", Type: c16Type("Int"), Directives: ddep.directives("dir.arg"), DefaultValue: ddef.v}}}

	ifs := WrapTypeFromDef(schema, in).InputFields()
	zzsym.Assert(len(ifs) == 2, "all input fields are listed")
	for i, fn := range []string{"p", "q"} {
		f := &ifs[i]
		zzsym.Assert(f.Name == fn, "input field names")
		c16CheckDep(idep[fn], "in."+fn, f.IsDeprecated(), f.DeprecationReason(), false, "input field")
		zzsym.Assert(f.Type.Kind() == "LIST" && *f.Type.OfType().Name() == "Int", "input field type chain LIST -> Int")
		if fn == "q" {
			c16CheckDefault(qdef, f.DefaultValue, "input field")
		} else {
			zzsym.Assert(f.DefaultValue == nil, "input field without default")
		}
	}
	incl := zzsym.Bool("includeDeprecated")
	evs := WrapTypeFromDef(schema, en).EnumValues(incl)
	var want []string
	for _, vn := range []string{"A", "B"} {
		if incl || !edep[vn].on {
			want = append(want, vn)
		}
	}
	zzsym.Assert(len(evs) == len(want), "enumValues(includeDeprecated) lists exactly the values it should")
	for i := range evs {
		v := &evs[i]
		zzsym.Assert(v.Name == want[i] && *v.Description() == "d:"+want[i], "enum value name and description")
		c16CheckDep(edep[want[i]], "enum."+want[i], v.IsDeprecated(), v.DeprecationReason(), false, "enum value")
	}
	ds := WrapSchema(schema).Directives()
	zzsym.Assert(len(ds) == 1 && ds[0].Name == "tag" && ds[0].IsRepeatable && len(ds[0].Locations) == 1 && ds[0].Locations[0] == "FIELD", "directive definition")
	da := &ds[0].Args[0]
	zzsym.Assert(da.Name == "arg", "directive argument name")
	c16CheckDefault(ddef, da.DefaultValue, "directive argument")
	c16CheckDep(ddep, "dir.arg", da.IsDeprecated(), da.DeprecationReason(), false, "directive argument")
	zzsym.Reach("c16.inputs")
}
