package introspection

import (
	"github.com/vektah/gqlparser/v2"
	"github.com/vektah/gqlparser/v2/ast"
	"sort"
	"strings"

	"github.com/99designs/gqlgen/zzsym"
)

type c16Dep struct {
	on     bool
	reason bool
}

func c16MkDep(name string) c16Dep {
	d := c16Dep{on: zzsym.Bool("dep:" + name)}
	if d.on {
		d.reason = zzsym.Bool("reason:" + name)
	}
	return d
}

func (d c16Dep) directives(tag string) ast.DirectiveList {
	var ds ast.DirectiveList
	ds = append(ds, &ast.Directive{Name: "other"})
	if d.on {
		dir := &ast.Directive{Name: "deprecated"}
		if d.reason {
			dir.Arguments = ast.ArgumentList{{Name: "reason", Value: &ast.Value{Raw: "why:" + tag, Kind: ast.StringValue}}}
		}
		ds = append(ds, dir)
	}
	return ds
}

func c16CheckDep(d c16Dep, tag string, isDep bool, reason *string, fieldStyle bool, what string) {
	zzsym.Assert(isDep == d.on, what+": isDeprecated is the element's own @deprecated")
	switch {
	case !d.on:
		zzsym.Assert(reason == nil, what+": no deprecationReason when not deprecated")
	case d.reason:
		zzsym.Assert(reason != nil && *reason == "why:"+tag, what+": deprecationReason is the element's own reason")
	case fieldStyle:
		zzsym.Assert(reason != nil && *reason == "No longer supported", what+": default deprecation reason")
	}
}

func c16Type(name string) *ast.Type { return ast.NamedType(name, nil) }

type c16Default struct {
	v    *ast.Value
	want string // the GraphQL literal introspection must report; "" = no default declared
}

// default values of every literal kind
var c16Defaults = []c16Default{
	{nil, ""},
	{&ast.Value{Raw: "null", Kind: ast.NullValue}, "null"},
	{&ast.Value{Raw: "s\"q", Kind: ast.StringValue}, `"s\"q"`},
	{&ast.Value{Raw: "7", Kind: ast.IntValue}, "7"},
	{&ast.Value{Raw: "false", Kind: ast.BooleanValue}, "false"},
	{&ast.Value{Raw: "RED", Kind: ast.EnumValue}, "RED"},
	{&ast.Value{Raw: "1.5", Kind: ast.FloatValue}, "1.5"},
	{&ast.Value{Kind: ast.ListValue, Children: ast.ChildValueList{{Value: &ast.Value{Raw: "1", Kind: ast.IntValue}}, {Value: &ast.Value{Raw: "null", Kind: ast.NullValue}}}}, "[1,null]"},
	{&ast.Value{Kind: ast.ObjectValue, Children: ast.ChildValueList{{Name: "a", Value: &ast.Value{Raw: "1", Kind: ast.IntValue}}}}, "{a:1}"},
	{&ast.Value{Kind: ast.ListValue}, "[]"},
	{&ast.Value{Kind: ast.ObjectValue}, "{}"},
}

func c16PickDefault(name string) c16Default {
	// how many literal kinds this element ranges over: its own bound if one is given ("defaults:<element>"), else the common one
	return c16Defaults[zzsym.Choice("default:"+name, zzsym.Param("defaults:"+name, zzsym.Param("defaults", 3)))]
}

func c16CheckDefault(d c16Default, got *string, what string) {
	if d.want == "" {
		zzsym.Assert(got == nil, what+": no default value when none declared")
	} else {
		zzsym.Assert(got != nil && *got == d.want, what+": the declared default value is reported as its GraphQL literal")
	}
}

// Harness_C16_fields: an object type with 2 fields x 2 arguments, each
// element with symbolic @deprecated (with/without reason), description and
// default value: every wrapped element reports its own data.
func Harness_C16_fields() {
	schema := &ast.Schema{Types: map[string]*ast.Definition{}}
	def := &ast.Definition{Kind: ast.Object, Name: "T"}
	names := []string{"a", "b"}
	fdep := map[string]c16Dep{}
	adep := map[string]c16Dep{}
	hasDesc := zzsym.Bool("desc")
	hasDefault := zzsym.Bool("default")
	ydef := c16Default{}
	if hasDefault {
		ydef = c16PickDefault("arg.y")
	}
	for _, fn := range names {
		fd := c16MkDep(fn)
		fdep[fn] = fd
		f := &ast.FieldDefinition{Name: fn, Type: c16Type("String"), Directives: fd.directives(fn)}
		if hasDesc {
			f.Description = "d:" + fn
		}
		for _, an := range []string{"x", "y"} {
			key := fn + "." + an
			ad := c16MkDep(key)
			adep[key] = ad
			arg := &ast.ArgumentDefinition{Name: an, Type: ast.NonNullNamedType("Int", nil), Directives: ad.directives(key)}
			if hasDesc {
				arg.Description = "d:" + key
			}
			if hasDefault && an == "y" {
				arg.DefaultValue = ydef.v
			}
			f.Arguments = append(f.Arguments, arg)
		}
		def.Fields = append(def.Fields, f)
	}
	def.Fields = append(def.Fields, &ast.FieldDefinition{Name: "__typename", Type: c16Type("String")})
	schema.Types["T"] = def
	schema.Types["String"] = &ast.Definition{Kind: ast.Scalar, Name: "String"}
	schema.Types["Int"] = &ast.Definition{Kind: ast.Scalar, Name: "Int"}
	t := WrapTypeFromDef(schema, def)
	incl := zzsym.Bool("includeDeprecated")
	if zzsym.Choice("askedBefore", 2) == 1 {
		// another alias on the same __Type object asked first, with the other value of includeDeprecated
		t.Fields(!incl)
	}
	got := t.Fields(incl)
	// expected field list
	var want []string
	for _, fn := range names {
		if incl || !fdep[fn].on {
			want = append(want, fn)
		}
	}
	zzsym.Assert(len(got) == len(want), "fields(includeDeprecated) lists exactly the fields it should")
	for i := range got {
		f := &got[i]
		fn := want[i]
		zzsym.Assert(f.Name == fn, "fields keep schema order and names")
		c16CheckDep(fdep[fn], fn, f.IsDeprecated(), f.DeprecationReason(), true, "field")
		zzsym.Assert((f.Description() != nil) == hasDesc && (!hasDesc || *f.Description() == "d:"+fn), "field description")
		zzsym.Assert(f.Type != nil && f.Type.Name() != nil && *f.Type.Name() == "String", "field type")
		zzsym.Assert(len(f.Args) == 2, "every argument is listed")
		for j, an := range []string{"x", "y"} {
			a := &f.Args[j]
			key := fn + "." + an
			zzsym.Assert(a.Name == an, "argument names")
			c16CheckDep(adep[key], key, a.IsDeprecated(), a.DeprecationReason(), false, "argument")
			zzsym.Assert((a.Description() != nil) == hasDesc && (!hasDesc || *a.Description() == "d:"+key), "argument description")
			zzsym.Assert(a.Type.Kind() == "NON_NULL" && a.Type.OfType() != nil && *a.Type.OfType().Name() == "Int", "argument type chain NON_NULL -> Int")
			if hasDefault && an == "y" {
				c16CheckDefault(ydef, a.DefaultValue, "argument")
			} else {
				zzsym.Assert(a.DefaultValue == nil, "no default value when none declared")
			}
		}
	}
	zzsym.Reach("c16.fields")
}

// Harness_C16_inputsEnums: input fields, enum values and directive
// arguments report their own deprecation / default / description.
func Harness_C16_inputsEnums() {
	schema := &ast.Schema{Types: map[string]*ast.Definition{}, Directives: map[string]*ast.DirectiveDefinition{}}
	schema.Types["Int"] = &ast.Definition{Kind: ast.Scalar, Name: "Int"}
	in := &ast.Definition{Kind: ast.InputObject, Name: "In"}
	idep := map[string]c16Dep{}
	var qdef c16Default
	for _, fn := range []string{"p", "q"} {
		d := c16MkDep("in." + fn)
		idep[fn] = d
		f := &ast.FieldDefinition{Name: fn, Type: ast.ListType(c16Type("Int"), nil), Directives: d.directives("in." + fn)}
		if fn == "q" {
			qdef = c16PickDefault("in.q")
			f.DefaultValue = qdef.v
		}
		in.Fields = append(in.Fields, f)
	}
	schema.Types["In"] = in
	en := &ast.Definition{Kind: ast.Enum, Name: "E"}
	edep := map[string]c16Dep{}
	for _, vn := range []string{"A", "B"} {
		d := c16MkDep("enum." + vn)
		edep[vn] = d
		en.EnumValues = append(en.EnumValues, &ast.EnumValueDefinition{Name: vn, Description: "d:" + vn, Directives: d.directives("enum." + vn)})
	}
	schema.Types["E"] = en
	ddep := c16MkDep("dir.arg")
	ddef := c16PickDefault("dir.arg")
	schema.Directives["tag"] = &ast.DirectiveDefinition{Name: "tag", Locations: []ast.DirectiveLocation{ast.LocationField}, IsRepeatable: true,
		Arguments: ast.ArgumentDefinitionList{{Name: "arg", Type: c16Type("Int"), Directives: ddep.directives("dir.arg"), DefaultValue: ddef.v}}}

	ifs := WrapTypeFromDef(schema, in).InputFields()
	zzsym.Assert(len(ifs) == 2, "all input fields are listed")
	for i, fn := range []string{"p", "q"} {
		f := &ifs[i]
		zzsym.Assert(f.Name == fn, "input field names")
		c16CheckDep(idep[fn], "in."+fn, f.IsDeprecated(), f.DeprecationReason(), false, "input field")
		zzsym.Assert(f.Type.Kind() == "LIST" && *f.Type.OfType().Name() == "Int", "input field type chain LIST -> Int")
		if fn == "q" {
			c16CheckDefault(qdef, f.DefaultValue, "input field")
		} else {
			zzsym.Assert(f.DefaultValue == nil, "input field without default")
		}
	}
	incl := zzsym.Bool("includeDeprecated")
	et := WrapTypeFromDef(schema, en)
	if zzsym.Choice("askedBefore", 2) == 1 {
		// another alias on the same __Type object asked first, with the other value of includeDeprecated
		et.EnumValues(!incl)
		et.InputFields()
	}
	evs := et.EnumValues(incl)
	var want []string
	for _, vn := range []string{"A", "B"} {
		if incl || !edep[vn].on {
			want = append(want, vn)
		}
	}
	zzsym.Assert(len(evs) == len(want), "enumValues(includeDeprecated) lists exactly the values it should")
	for i := range evs {
		v := &evs[i]
		zzsym.Assert(v.Name == want[i] && *v.Description() == "d:"+want[i], "enum value name and description")
		c16CheckDep(edep[want[i]], "enum."+want[i], v.IsDeprecated(), v.DeprecationReason(), false, "enum value")
	}
	ds := WrapSchema(schema).Directives()
	zzsym.Assert(len(ds) == 1 && ds[0].Name == "tag" && ds[0].IsRepeatable && len(ds[0].Locations) == 1 && ds[0].Locations[0] == "FIELD", "directive definition")
	da := &ds[0].Args[0]
	zzsym.Assert(da.Name == "arg", "directive argument name")
	c16CheckDefault(ddef, da.DefaultValue, "directive argument")
	c16CheckDep(ddep, "dir.arg", da.IsDeprecated(), da.DeprecationReason(), false, "directive argument")
	zzsym.Reach("c16.inputs")
}

// ---- relations: kinds, interfaces, possible types, wrapper chains, type
// list, root types, directives

const c16RelSDL = `
schema { query: Root mutation: Change }
"""a node"""
interface Node { id: ID! }
interface Named implements Node { id: ID! name: String }
interface Lonely { x: Int }
type User implements Node & Named { id: ID! name: String friends: [User!]! matrix: [[Int!]] pet: Pet }
type Item implements Node { id: ID! title: String! }
type Robot { serial: Int }
union Pet = User | Item
union Solo = Robot
enum Color { RED GREEN }
input Filter { min: Int = 1 req: Int! = 2 tags: [String!] = ["a", "b"] sub: Filter }
input Pick @oneOf { a: Int b: String }
scalar Odd @specifiedBy(url: "https://example.com/odd")
scalar Plain
directive @tag(name: String! = "t", weight: Int, names: [String!]! = ["x"], mode: Color! = RED) repeatable on FIELD_DEFINITION | OBJECT | ARGUMENT_DEFINITION
directive @once on QUERY | FIELD
type Root { node(id: ID!): Node named: Named lonely: Lonely pet: Pet solo: Solo color(c: Color = RED, strict: Boolean! = false): Color find(f: Filter = {min: 3}, p: Pick): [Node] odd: Odd plain: Plain }
type Change { rename(name: String!): User }
`

var c16RelSchema *ast.Schema

func Setup_C16_relations() {
	c16RelSchema = gqlparser.MustLoadSchema(&ast.Source{Name: "rel.graphql", Input: c16RelSDL})
}

func c16Names(ts []Type) string {
	var ns []string
	for _, t := range ts {
		n := "<nil>"
		if t.Name() != nil {
			n = *t.Name()
		}
		ns = append(ns, t.Kind()+":"+n)
	}
	sort.Strings(ns)
	return strings.Join(ns, ",")
}

// c16Chain renders a type reference through its ofType chain: NON_NULL(LIST(NON_NULL(Int))).
func c16Chain(t *Type) string {
	if t == nil {
		return "nil"
	}
	switch t.Kind() {
	case "NON_NULL", "LIST":
		zzsym.Assert(t.Name() == nil, "wrapper types have no name")
		return t.Kind() + "(" + c16Chain(t.OfType()) + ")"
	}
	zzsym.Assert(t.OfType() == nil, "a named type has no ofType")
	return *t.Name()
}

// c16SameDefault: the reported default value is the definition's, printed as a GraphQL literal.
func c16SameDefault(got *string, def *ast.Value) bool {
	if def == nil {
		return got == nil
	}
	return got != nil && *got == def.String()
}

func c16AstChain(t *ast.Type) string {
	if t.NonNull {
		c := *t
		c.NonNull = false
		return "NON_NULL(" + c16AstChain(&c) + ")"
	}
	if t.Elem != nil {
		return "LIST(" + c16AstChain(t.Elem) + ")"
	}
	return t.NamedType
}

// Harness_C16_relations: for one type (any of the schema's) or one directive:
// kind, name, description, interfaces (objects and interfaces), possible
// types (interfaces and unions: object types only), the ofType chain of every
// field / argument / input field type, specifiedByURL, oneOf, and for the
// schema the sorted type list, the root types and every directive with its
// locations, repeatability and arguments - all equal to the ast.Schema.
func Harness_C16_relations() {
	// introspection only reads the schema, so a second introspection of the same schema answers like the first
	zzsym.Frozen("introspection does not write into the schema it describes", c16RelSchema)
	if zzsym.Choice("prior", 2) == 1 {
		for _, t := range WrapSchema(c16RelSchema).Types() {
			t.Interfaces()
			t.PossibleTypes()
			t.Fields(true)
			t.InputFields()
			t.EnumValues(true)
		}
		WrapSchema(c16RelSchema).Directives()
	}
	s := WrapSchema(c16RelSchema)
	var names []string
	for n := range c16RelSchema.Types {
		names = append(names, n)
	}
	sort.Strings(names)
	types := s.Types()
	zzsym.Assert(len(types) == len(names), "__schema.types lists every type once")
	pick := zzsym.Choice("type", len(names)+1)
	if pick == len(names) {
		// schema-level data
		for k := range types {
			zzsym.Assert(types[k].Name() != nil && *types[k].Name() == names[k], "__schema.types is the schema's type set (sorted by name)")
		}
		zzsym.Assert(*s.QueryType().Name() == "Root" && *s.MutationType().Name() == "Change" && s.SubscriptionType() == nil, "root operation types are the schema's")
		var dn []string
		for n := range c16RelSchema.Directives {
			dn = append(dn, n)
		}
		sort.Strings(dn)
		ds := s.Directives()
		zzsym.Assert(len(ds) == len(dn), "__schema.directives lists every directive once")
		for k, d := range ds {
			def := c16RelSchema.Directives[dn[k]]
			zzsym.Assert(d.Name == def.Name && d.IsRepeatable == def.IsRepeatable, "directive name and repeatability")
			var want []string
			for _, l := range def.Locations {
				want = append(want, string(l))
			}
			zzsym.Assert(strings.Join(d.Locations, ",") == strings.Join(want, ","), "directive locations")
			zzsym.Assert(len(d.Args) == len(def.Arguments), "directive arguments")
			for j, a := range d.Args {
				zzsym.Assert(a.Name == def.Arguments[j].Name && c16Chain(a.Type) == c16AstChain(def.Arguments[j].Type), "directive argument name and type")
				zzsym.Assert(c16SameDefault(a.DefaultValue, def.Arguments[j].DefaultValue), "directive argument default value (nullable or not)")
			}
		}
		zzsym.Reach("c16.rel.schema")
		return
	}
	def := c16RelSchema.Types[names[pick]]
	t := WrapTypeFromDef(c16RelSchema, def)
	zzsym.Assert(t.Kind() == string(def.Kind) && *t.Name() == def.Name, "kind and name")
	zzsym.Assert((t.Description() == nil) == (def.Description == "") && (t.Description() == nil || *t.Description() == def.Description), "description")
	// interfaces: declared ones, for objects and for interfaces
	var wantIf []string
	if def.Kind == ast.Object || def.Kind == ast.Interface {
		for _, n := range def.Interfaces {
			wantIf = append(wantIf, "INTERFACE:"+n)
		}
	}
	sort.Strings(wantIf)
	if def.Kind == ast.Interface && len(def.Interfaces) > 0 {
		zzsym.Assert(c16Names(t.Interfaces()) == strings.Join(wantIf, ","), "an interface reports the interfaces it implements")
	}
	zzsym.Assert(def.Kind == ast.Interface || c16Names(t.Interfaces()) == strings.Join(wantIf, ","), "interfaces are exactly the declared ones")
	// possible types: objects implementing the interface / members of the union
	var wantPT []string
	for _, o := range c16RelSchema.Types {
		if o.Kind != ast.Object {
			continue
		}
		switch def.Kind {
		case ast.Interface:
			for _, n := range o.Interfaces {
				if n == def.Name {
					wantPT = append(wantPT, "OBJECT:"+o.Name)
				}
			}
		case ast.Union:
			for _, n := range def.Types {
				if n == o.Name {
					wantPT = append(wantPT, "OBJECT:"+o.Name)
				}
			}
		}
	}
	sort.Strings(wantPT)
	zzsym.Assert(c16Names(t.PossibleTypes()) == strings.Join(wantPT, ","), "possibleTypes are exactly the implementing objects / union members")
	// fields and their type chains
	fs := t.Fields(true)
	nf := 0
	for _, f := range def.Fields {
		if !strings.HasPrefix(f.Name, "__") {
			nf++
		}
	}
	if def.Kind == ast.Object || def.Kind == ast.Interface {
		zzsym.Assert(len(fs) == nf, "every field once")
		k := 0
		for _, f := range def.Fields {
			if strings.HasPrefix(f.Name, "__") {
				continue
			}
			zzsym.Assert(fs[k].Name == f.Name && c16Chain(fs[k].Type) == c16AstChain(f.Type), "field name and type (ofType chain)")
			zzsym.Assert(len(fs[k].Args) == len(f.Arguments), "every argument once")
			for j, a := range f.Arguments {
				zzsym.Assert(fs[k].Args[j].Name == a.Name && c16Chain(fs[k].Args[j].Type) == c16AstChain(a.Type), "argument name and type")
				zzsym.Assert(c16SameDefault(fs[k].Args[j].DefaultValue, a.DefaultValue), "argument default value")
			}
			k++
		}
	} else {
		zzsym.Assert(len(fs) == 0, "only objects and interfaces have fields")
	}
	ifs := t.InputFields()
	if def.Kind == ast.InputObject {
		zzsym.Assert(len(ifs) == len(def.Fields), "every input field once")
		for j, f := range def.Fields {
			zzsym.Assert(ifs[j].Name == f.Name && c16Chain(ifs[j].Type) == c16AstChain(f.Type), "input field name and type")
			zzsym.Assert(c16SameDefault(ifs[j].DefaultValue, f.DefaultValue), "input field default value")
		}
	} else {
		zzsym.Assert(len(ifs) == 0, "only input objects have input fields")
	}
	evs := t.EnumValues(true)
	zzsym.Assert((def.Kind == ast.Enum && len(evs) == len(def.EnumValues)) || (def.Kind != ast.Enum && len(evs) == 0), "enum values")
	zzsym.Assert(t.IsOneOf() == (def.Kind == ast.InputObject && def.Directives.ForName("oneOf") != nil), "isOneOf")
	if sb := def.Directives.ForName("specifiedBy"); sb != nil && def.Kind == ast.Scalar {
		zzsym.Assert(t.SpecifiedByURL() != nil && *t.SpecifiedByURL() == sb.Arguments.ForName("url").Value.Raw, "specifiedByURL")
	} else {
		zzsym.Assert(t.SpecifiedByURL() == nil, "no specifiedByURL unless declared on a scalar")
	}
	zzsym.Reach("c16.rel.type")
}
