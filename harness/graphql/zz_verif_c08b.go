package graphql

import (
	"bytes"
	"context"
	"encoding/json"
	"errors"
	"io"
	"math"
	"strconv"
	"strings"
	"time"

	"github.com/google/uuid"
	"github.com/vektah/gqlparser/v2/ast"

	"github.com/99designs/gqlgen/zzsym"
)

// c08Child builds one child marshaler of a composition; want is its JSON.
func c08Child(name string, depth int) (Marshaler, string) {
	max := 9
	if depth == 0 {
		max = 7
	}
	c08Leaf++
	switch zzsym.Choice(name, max) {
	case 5:
		// a Map value (all marshalers of a response are built before any is written)
		k := "k" + strconv.Itoa(c08Leaf)
		return MarshalMap(map[string]any{k: "v%d\n", "n": json.Number(strconv.Itoa(c08Leaf))}), `{"` + k + `":"v%d\n","n":` + strconv.Itoa(c08Leaf) + `}`
	case 6:
		return MarshalAny([]any{"a" + strconv.Itoa(c08Leaf), nil, true}), `["a` + strconv.Itoa(c08Leaf) + `",null,true]`
	case 0:
		return Null, "null"
	case 1:
		return True, "true"
	case 2:
		return MarshalInt(-42), "-42"
	case 3:
		return MarshalString("a\"b"), `"a\"b"`
	case 4:
		// a context marshaler that fails: null is emitted instead
		return WrapContextMarshaler(c08Ctx, ContextWriterFunc(func(ctx context.Context, w io.Writer) error { return errors.New("cannot marshal") })), "null"
	case 7:
		n := zzsym.Choice(name+".len", zzsym.Param("fan", 3))
		arr := Array{}
		want := "["
		for i := 0; i < n; i++ {
			m, w := c08Child(name+"[]", depth-1)
			arr = append(arr, m)
			if i > 0 {
				want += ","
			}
			want += w
		}
		return arr, want + "]"
	default:
		n := zzsym.Choice(name+".fields", zzsym.Param("fan", 3))
		var fields []CollectedField
		aliases := []string{"x", "y\"q", ""}
		for i := 0; i < n; i++ {
			fields = append(fields, CollectedField{Field: &ast.Field{Alias: aliases[i], Name: "f"}})
		}
		// the object's fields are given at construction, or (as generated code does for deferred groups) the later ones are added one by one
		grown := n > 1 && zzsym.Choice(name+".grown", 2) == 1
		var fs *FieldSet
		if grown {
			fs = NewFieldSet(fields[:1])
			for i := 1; i < n; i++ {
				fs.AddField(fields[i])
			}
		} else {
			fs = NewFieldSet(fields)
		}
		want := "{"
		for i := 0; i < n; i++ {
			m, w := c08Child(name+"{}", depth-1)
			fs.Values[i] = m
			if i > 0 {
				want += ","
			}
			k, _ := json.Marshal(aliases[i])
			want += string(k) + ":" + w
		}
		return fs, want + "}"
	}
}

var c08Ctx context.Context

// c08Leaf numbers the leaves of a composition so that every Map / Any leaf has its own content.
var c08Leaf int

// Harness_C08_composition: objects (FieldSet) and lists (Array) of depth <= 2
// with 0..2 children each drawn from {null, true, number, string, failing
// context marshaler, list, object}: the bytes are exactly the JSON text of the
// composition (punctuation, key quoting, order), hence valid JSON.
func Harness_C08_composition() {
	c08Ctx = WithResponseContext(context.Background(), DefaultErrorPresenter, DefaultRecover)
	c08Leaf = 0
	m, want := c08Child("root", zzsym.Param("depth", 2))
	var buf bytes.Buffer
	m.MarshalGQL(&buf)
	var compact bytes.Buffer
	zzsym.Assert(json.Compact(&compact, buf.Bytes()) == nil, "the composition is valid JSON")
	zzsym.Assert(compact.String() == want, "the composition serialises to exactly its JSON text (up to insignificant white space)")
	zzsym.Assert(json.Valid(buf.Bytes()), "the composition is valid JSON")
	zzsym.Reach("c08.composition")
}

// Harness_C08_misc: Boolean, Time, UUID, Map, Any, Float (plain binding),
// Omittable: round trips and the documented null forms.
func Harness_C08_misc() {
	var buf bytes.Buffer
	dec := func() any {
		var x any
		d := json.NewDecoder(bytes.NewReader(buf.Bytes()))
		d.UseNumber()
		zzsym.Assert(d.Decode(&x) == nil, "the output is valid JSON")
		return x
	}
	switch zzsym.Choice("scalar", 11) {
	case 9:
		// Any holding a float64 of any bit pattern: a valid number that decodes to it, or a reported failure - never an invalid token
		f := zzsym.Float64("f")
		panicked := func() (p bool) {
			defer func() {
				if recover() != nil {
					p = true
				}
			}()
			MarshalAny(f).MarshalGQL(&buf)
			return false
		}()
		finite := !math.IsInf(f, 0) && !math.IsNaN(f)
		zzsym.Assert(panicked == !finite, "Any reports a non-finite float as a failure and emits every finite one")
		if !panicked {
			v, ok := zzsym.FloatToken(strings.TrimSpace(buf.String()))
			zzsym.Assert(ok && v == f, "Any emits a float64 as a JSON number that decodes to it")
		} else {
			zzsym.Assert(buf.Len() == 0 || json.Valid(buf.Bytes()), "no invalid token is emitted for a non-finite float inside Any")
		}
	case 10:
		// Any holding the other leaf kinds
		for _, x := range []any{nil, "q\"<", true, false, int(-7), int64(1) << 40, json.Number("12")} {
			buf.Reset()
			MarshalAny(x).MarshalGQL(&buf)
			var back any
			d := json.NewDecoder(bytes.NewReader(buf.Bytes()))
			d.UseNumber()
			zzsym.Assert(d.Decode(&back) == nil, "Any emits valid JSON for every leaf kind")
			want := x
			switch n := x.(type) {
			case int:
				want = json.Number(strconv.Itoa(n))
			case int64:
				want = json.Number(strconv.FormatInt(n, 10))
			}
			zzsym.Assert(back == want, "Any round-trips its leaf value")
		}
	case 0:
		b := zzsym.Bool("b")
		MarshalBoolean(b).MarshalGQL(&buf)
		r, err := UnmarshalBoolean(dec())
		zzsym.Assert(err == nil && r == b, "Boolean round-trips")
	case 1:
		MarshalTime(time.Time{}).MarshalGQL(&buf)
		zzsym.Assert(buf.String() == "null", "the zero time is null")
	case 2:
		// UTC, named and anonymous fixed zones on both sides of UTC (whole and fractional hours, the extremes in use), sub-second parts, far years
		loc := time.UTC
		if m := []int{0, 0, 330, -210, 840, -720, 1, -1, 765}[zzsym.Choice("zone", 9)]; m != 0 || zzsym.Choice("fixedUTC", 2) == 1 {
			loc = time.FixedZone("", m*60)
		}
		t := time.Date([]int{2024, 1, 1970, 9999}[zzsym.Choice("year", 4)], 2, 28, 23, 59, 59, []int{123456789, 0, 120000000}[zzsym.Choice("nanos", 3)], loc)
		MarshalTime(t).MarshalGQL(&buf)
		s, ok := dec().(string)
		zzsym.Assert(ok, "a time is a JSON string")
		r, err := UnmarshalTime(s)
		zzsym.Assert(err == nil && r.Equal(t), "Time round-trips")
	case 3:
		MarshalUUID(uuid.Nil).MarshalGQL(&buf)
		zzsym.Assert(buf.String() == "null", "the nil UUID is null")
	case 4:
		id := uuid.UUID{0x12, 0x34, 0x56, 0x78, 0x9a, 0xbc, 0x4d, 0xef, 0x80, 0x12, 0x34, 0x56, 0x78, 0x9a, 0xbc, 0xde}
		MarshalUUID(id).MarshalGQL(&buf)
		s, _ := dec().(string)
		r, err := UnmarshalUUID(s)
		zzsym.Assert(err == nil && r == id, "UUID round-trips")
	case 5:
		m := map[string]any{"a": json.Number("1"), "b": []any{"x", nil, true}, "c\"": map[string]any{}}
		MarshalMap(m).MarshalGQL(&buf)
		r, err := UnmarshalMap(dec())
		zzsym.Assert(err == nil && len(r) == 3 && r["a"] == json.Number("1"), "Map round-trips")
		_, isMap := r["c\""].(map[string]any)
		zzsym.Assert(isMap, "Map keys are quoted correctly")
	case 6:
		MarshalAny([]any{"<&>", json.Number("2"), nil}).MarshalGQL(&buf)
		l, ok := dec().([]any)
		zzsym.Assert(ok && len(l) == 3 && l[0] == "<&>" && l[2] == nil, "Any round-trips")
	case 7:
		o := OmittableOf("v\n")
		o.MarshalGQL(&buf)
		zzsym.Assert(dec() == "v\n", "a set Omittable serialises its value")
	case 8:
		var o Omittable[*string]
		o.MarshalGQL(&buf)
		zzsym.Assert(buf.String() == "null", "an unset Omittable is null")
	}
	zzsym.Reach("c08.misc")
}
