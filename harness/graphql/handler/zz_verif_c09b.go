package handler

import (
	"io"
	"net/http"
	"net/url"
	"strings"

	"github.com/99designs/gqlgen/graphql/handler/extension"
	"github.com/99designs/gqlgen/graphql/handler/transport"
	"github.com/99designs/gqlgen/zzsym"
)

func Setup_C09_persisted() { Setup_C09_http() }

// Harness_C09_persisted: the document is not in the request but supplied by
// an operation-parameter mutator (automatic persisted queries: the request
// carries only the hash of a text registered earlier): over GET still only
// query operations are executed, every transport executes exactly the
// operation the request names, and the status follows the outcome.
func Harness_C09_persisted() {
	es := &hES{}
	store := &c15Store{m: map[string]string{}}
	srv := New(es)
	srv.AddTransport(transport.GET{})
	srv.AddTransport(transport.POST{})
	srv.Use(extension.AutomaticPersistedQuery{Cache: store})
	d := hDocs[zzsym.Choice("doc", len(hDocs)-1)] // the empty document cannot be registered
	store.m[c15Sum(d.query)] = d.query
	acc := hAccepts[zzsym.Choice("accept", 3)]
	get := zzsym.Choice("method", 2) == 0
	r := &http.Request{Header: http.Header{}, URL: &url.URL{Path: "/query"}}
	if acc.header != "" {
		r.Header.Set("Accept", acc.header)
	}
	if get {
		r.Method = "GET"
		v := url.Values{}
		v.Set("extensions", c15Ext(c15Sum(d.query)))
		if d.op != "" {
			v.Set("operationName", d.op)
		}
		r.URL.RawQuery = v.Encode()
		r.Body = http.NoBody
	} else {
		r.Method = "POST"
		r.Header.Set("Content-Type", "application/json")
		body := `{"extensions":` + c15Ext(c15Sum(d.query))
		if d.op != "" {
			body += `,"operationName":"` + d.op + `"`
		}
		r.Body = io.NopCloser(strings.NewReader(body + `}`))
	}
	w := newHWriter()
	srv.ServeHTTP(w, r)
	hCheckBody(w)
	executed := len(es.execs) > 0
	if get {
		zzsym.Assert(!executed || d.kind == "query", "GET executes only query operations, wherever the document comes from")
	}
	if executed {
		zzsym.Assert(len(es.execs) == 1 && es.execs[0] == d.kind+":"+d.name, "exactly the operation the request names is executed, once")
		zzsym.Assert(w.status == 200, "a request whose execution started is answered 200")
		zzsym.Reach("c09.persisted.executed")
	} else {
		zzsym.Reach("c09.persisted.refused")
	}
	if w.status < 200 || w.status > 299 {
		zzsym.Assert(!executed, "nothing runs for a request answered with a non-2xx status")
	}
	if d.kind == "" {
		zzsym.Assert(!executed, "an invalid request executes nothing")
		if acc.want == hGRJ {
			zzsym.Assert(w.status == 400, "invalid document: 400 under application/graphql-response+json")
		} else {
			zzsym.Assert(w.status == 422, "invalid document: 422 under application/json")
		}
	} else if !get || d.kind == "query" {
		zzsym.Assert(executed, "a valid request for an allowed operation is executed")
	} else {
		zzsym.Assert(w.status < 200 || w.status > 299, "a mutation or subscription over GET is refused")
	}
}
