package handler

import (
	"context"
	"io"
	"net/http"
	"net/url"
	"strings"

	"github.com/vektah/gqlparser/v2/gqlerror"

	"github.com/99designs/gqlgen/graphql"
	"github.com/99designs/gqlgen/graphql/handler/extension"
	"github.com/99designs/gqlgen/graphql/handler/transport"
	"github.com/99designs/gqlgen/zzsym"
)

func Setup_C09_persisted() { Setup_C09_http() }

// Harness_C09_persisted: the document is not in the request but supplied by
// an operation-parameter mutator (automatic persisted queries: the request
// carries only the hash of a text registered earlier): over GET still only
// query operations are executed, every transport executes exactly the
// operation the request names, and the status follows the outcome.
func Harness_C09_persisted() {
	es := &hES{}
	store := &c15Store{m: map[string]string{}}
	srv := New(es)
	srv.AddTransport(transport.GET{})
	srv.AddTransport(transport.POST{})
	srv.Use(extension.AutomaticPersistedQuery{Cache: store})
	d := hDocs[zzsym.Choice("doc", len(hDocs)-1)] // the empty document cannot be registered
	store.m[c15Sum(d.query)] = d.query
	acc := hAccepts[zzsym.Choice("accept", 3)]
	get := zzsym.Choice("method", 2) == 0
	r := &http.Request{Header: http.Header{}, URL: &url.URL{Path: "/query"}}
	if acc.header != "" {
		r.Header.Set("Accept", acc.header)
	}
	if get {
		r.Method = "GET"
		v := url.Values{}
		v.Set("extensions", c15Ext(c15Sum(d.query)))
		if d.op != "" {
			v.Set("operationName", d.op)
		}
		r.URL.RawQuery = v.Encode()
		r.Body = http.NoBody
	} else {
		r.Method = "POST"
		r.Header.Set("Content-Type", "application/json")
		body := `{"extensions":` + c15Ext(c15Sum(d.query))
		if d.op != "" {
			body += `,"operationName":"` + d.op + `"`
		}
		r.Body = io.NopCloser(strings.NewReader(body + `}`))
	}
	w := newHWriter()
	srv.ServeHTTP(w, r)
	hCheckBody(w)
	executed := len(es.execs) > 0
	if get {
		zzsym.Assert(!executed || d.kind == "query", "GET executes only query operations, wherever the document comes from")
	}
	if executed {
		zzsym.Assert(len(es.execs) == 1 && es.execs[0] == d.exec(), "exactly the operation the request names is executed, once")
		zzsym.Assert(w.status == 200, "a request whose execution started is answered 200")
		zzsym.Reach("c09.persisted.executed")
	} else {
		zzsym.Reach("c09.persisted.refused")
	}
	if w.status < 200 || w.status > 299 {
		zzsym.Assert(!executed, "nothing runs for a request answered with a non-2xx status")
	}
	if d.kind == "" {
		zzsym.Assert(!executed, "an invalid request executes nothing")
		if acc.want == hGRJ {
			zzsym.Assert(w.status == 400, "invalid document: 400 under application/graphql-response+json")
		} else {
			zzsym.Assert(w.status == 422, "invalid document: 422 under application/json")
		}
	} else if !get || d.kind == "query" {
		zzsym.Assert(executed, "a valid request for an allowed operation is executed")
	} else {
		zzsym.Assert(w.status < 200 || w.status > 299, "a mutation or subscription over GET is refused")
	}
}

func Setup_C09_negotiationSequence() { Setup_C09_http() }

// Harness_C09_negotiationSequence: two requests through one server whose
// transports carry configured response headers (none / some without a
// Content-Type): the Content-Type and the client-error status of the second
// answer follow the second request's own Accept header, whatever the first
// request negotiated.
func Harness_C09_negotiationSequence() {
	es := &hES{}
	rhi := zzsym.Choice("resphdr", 2)
	var hdr map[string][]string
	if hRespHdrs[rhi].hdr != nil {
		hdr = map[string][]string{}
		for k, v := range hRespHdrs[rhi].hdr {
			hdr[k] = append([]string(nil), v...)
		}
	}
	srv := hServer(es, hdr)
	mk := func(d hDoc, get bool, acc hAccept) *http.Request {
		r := &http.Request{Header: http.Header{}, URL: &url.URL{Path: "/query"}}
		if acc.header != "" {
			r.Header.Set("Accept", acc.header)
		}
		if get {
			r.Method = "GET"
			v := url.Values{}
			v.Set("query", d.query)
			r.URL.RawQuery = v.Encode()
			r.Body = http.NoBody
		} else {
			r.Method = "POST"
			r.Header.Set("Content-Type", "application/json")
			r.Body = io.NopCloser(strings.NewReader(hJSONBody(d)))
		}
		return r
	}
	acc1 := hAccepts[zzsym.Choice("accept1", 3)]
	acc2 := hAccepts[zzsym.Choice("accept2", 3)]
	get1, get2 := zzsym.Choice("m1", 2) == 0, zzsym.Choice("m2", 2) == 0
	second := []hDoc{hDocs[0], hDocs[7]}[zzsym.Choice("second", 2)] // a valid query / a validation error
	srv.ServeHTTP(newHWriter(), mk(hDocs[0], get1, acc1))
	w := newHWriter()
	srv.ServeHTTP(w, mk(second, get2, acc2))
	ct, ok := hContentType(w)
	zzsym.Assert(ok && ct == acc2.want, "the Content-Type of an answer is negotiated from its own request's Accept header")
	if second.kind == "" {
		if acc2.want == hGRJ {
			zzsym.Assert(w.status == 400, "invalid document: 400 under application/graphql-response+json")
		} else {
			zzsym.Assert(w.status == 422, "invalid document: 422 under application/json")
		}
	} else {
		zzsym.Assert(w.status == 200, "a request whose execution started is answered 200")
	}
	if hdr != nil {
		_, polluted := hdr["Content-Type"]
		zzsym.Assert(!polluted && len(hdr) == len(hRespHdrs[rhi].hdr), "the configured response headers are not modified by serving requests")
	}
	zzsym.Reach("c09.negseq")
}

func Setup_C09_routing() { Setup_C09_http() }

// Harness_C09_routing: which transport serves a request depends on the order
// the transports were added and on the request's method and Content-Type:
// for both orders and every (method, Content-Type, where the document is)
// combination, a GET never executes a mutation, whatever is executed is the
// operation the request names, and the status follows the outcome.
func Harness_C09_routing() {
	es := &hES{}
	srv := New(es)
	ts := []graphql.Transport{transport.Options{}, transport.GET{}, transport.POST{}, transport.GRAPHQL{}, transport.UrlEncodedForm{}}
	if zzsym.Choice("order", 2) == 1 {
		for i, j := 0, len(ts)-1; i < j; i, j = i+1, j-1 {
			ts[i], ts[j] = ts[j], ts[i]
		}
	}
	for _, t := range ts {
		srv.AddTransport(t)
	}
	srv.SetRecoverFunc(func(ctx context.Context, err any) error {
		zzsym.Assert(false, "the recover hook ran although no user code panicked (gqlgen's own panic)")
		return gqlerror.Errorf("internal system error")
	})
	method := []string{"GET", "POST", "PUT"}[zzsym.Choice("method", 3)]
	ct := []string{"", "application/json", "application/graphql-response+json", "application/json; charset=utf-8", "application/graphql-response+json;charset=utf-8", "application/graphql", "application/x-www-form-urlencoded", "text/plain"}[zzsym.Choice("ctype", 8)]
	inBody := hDocs[[]int{0, 5, 2}[zzsym.Choice("body", 3)]] // a query, a mutation, a named mutation among two operations
	inURL := zzsym.Choice("url", 3)                          // 0 nothing, 1 a query, 2 a mutation
	r := &http.Request{Method: method, Header: http.Header{}, URL: &url.URL{Path: "/query"}}
	if ct != "" {
		r.Header.Set("Content-Type", ct)
	}
	if inURL != 0 {
		v := url.Values{}
		v.Set("query", hDocs[[]int{0, 0, 5}[inURL]].query)
		r.URL.RawQuery = v.Encode()
	}
	body := hJSONBody(inBody)
	if ct == "application/graphql" {
		body = inBody.query
	}
	r.Body = io.NopCloser(strings.NewReader(body))
	w := newHWriter()
	srv.ServeHTTP(w, r)
	hCheckBody(w)
	executed := len(es.execs) > 0
	if method == "GET" {
		for _, e := range es.execs {
			zzsym.Assert(strings.HasPrefix(e, "query:"), "over GET only query operations are ever executed, whichever transport picks the request up")
		}
	}
	zzsym.Assert(len(es.execs) <= 1, "at most one operation is executed per request")
	if executed {
		zzsym.Assert(w.status == 200, "a request whose execution started is answered 200")
		zzsym.Reach("c09.routing.executed")
	} else {
		zzsym.Reach("c09.routing.refused")
	}
	if w.status < 200 || w.status > 299 {
		zzsym.Assert(!executed, "nothing runs for a request answered with a non-2xx status")
	}
}

func Setup_C09_presenter() { Setup_C09_http() }

// Harness_C09_presenter: a server whose error presenter rewrites what the
// client sees (drops the machine-readable code, replaces the extensions or
// the message - a common customisation, done in place on the presented
// error): the status still follows the request's outcome on every HTTP
// transport - an invalid document is a client error, never 200.
func Harness_C09_presenter() {
	es := &hES{}
	srv := hServer(es, nil)
	mode := zzsym.Choice("presenter", 3)
	srv.SetErrorPresenter(func(ctx context.Context, err error) *gqlerror.Error {
		e := graphql.DefaultErrorPresenter(ctx, err)
		switch mode {
		case 0:
			delete(e.Extensions, "code")
		case 1:
			e.Extensions = map[string]any{"code": "E_CUSTOM", "hint": "see docs"}
		case 2:
			e.Message = "something went wrong"
			e.Extensions = nil
		}
		return e
	})
	d := hDocs[[]int{7, 8, 3, 4, 9}[zzsym.Choice("doc", 5)]] // validation error, parse error, ambiguous / unknown / unexpected operation name
	r := &http.Request{Header: http.Header{}, URL: &url.URL{Path: "/query"}}
	if zzsym.Choice("accept", 2) == 1 {
		r.Header.Set("Accept", hGRJ)
	}
	switch zzsym.Choice("transport", 5) {
	case 0:
		r.Method = "GET"
		v := url.Values{}
		v.Set("query", d.query)
		if d.op != "" {
			v.Set("operationName", d.op)
		}
		r.URL.RawQuery = v.Encode()
		r.Body = http.NoBody
	case 1:
		r.Method = "POST"
		r.Header.Set("Content-Type", "application/json")
		r.Body = io.NopCloser(strings.NewReader(hJSONBody(d)))
	case 2:
		r.Method = "POST"
		r.Header.Set("Content-Type", "application/graphql")
		r.Body = io.NopCloser(strings.NewReader(d.query))
		if d.op != "" {
			zzsym.Assume(false) // application/graphql carries no operation name
		}
	case 3:
		r.Method = "POST"
		r.Header.Set("Content-Type", "application/x-www-form-urlencoded")
		r.Body = io.NopCloser(strings.NewReader(hJSONBody(d)))
	case 4:
		r.Method = "POST"
		r.Header.Set("Content-Type", "multipart/form-data; boundary=B")
		r.Body = io.NopCloser(strings.NewReader("--B\r\nContent-Disposition: form-data; name=\"operations\"\r\n\r\n" + hJSONBody(d) + "\r\n--B\r\nContent-Disposition: form-data; name=\"map\"\r\n\r\n{}\r\n--B--\r\n"))
		srv.AddTransport(transport.MultipartForm{})
	}
	w := newHWriter()
	srv.ServeHTTP(w, r)
	hCheckBody(w)
	zzsym.Assert(len(es.execs) == 0, "an invalid request executes nothing")
	zzsym.Assert(w.status >= 400 && w.status < 500, "an invalid document is answered with a client-error status whatever the error presenter shows")
	zzsym.Reach("c09.presenter")
}
