package handler

import (
	"io"
	"net/http"
	"net/url"
	"sort"
	"strings"

	"github.com/vektah/gqlparser/v2/ast"

	"github.com/99designs/gqlgen/graphql"
	"github.com/99designs/gqlgen/zzsym"
)

func Setup_C07_serverHistory() { Setup_C09_http() }

type c07Req struct {
	transport int // 0 GET, 1 POST json, 2 POST application/graphql, 3 POST form
	doc       int // index into hDocs
	accept    int // index into hAccepts
}

// a corpus mixing transports, valid and invalid documents, operation names and Accept headers
var c07Corpus = []c07Req{
	{0, 0, 0}, {0, 1, 2}, {0, 5, 1}, {0, 7, 3}, {1, 0, 1}, {1, 2, 2}, {1, 4, 0}, {1, 8, 4},
	{1, 1, 6}, {2, 0, 2}, {2, 7, 1}, {3, 0, 5}, {3, 9, 0},
}

func c07Build(q c07Req) *http.Request {
	d := hDocs[q.doc]
	r := &http.Request{Header: http.Header{}, URL: &url.URL{Path: "/query"}}
	if a := hAccepts[q.accept].header; a != "" {
		r.Header.Set("Accept", a)
	}
	switch q.transport {
	case 0:
		r.Method = "GET"
		v := url.Values{}
		v.Set("query", d.query)
		if d.op != "" {
			v.Set("operationName", d.op)
		}
		r.URL.RawQuery = v.Encode()
		r.Body = http.NoBody
	case 1:
		r.Method = "POST"
		r.Header.Set("Content-Type", "application/json")
		r.Body = io.NopCloser(strings.NewReader(hJSONBody(d)))
	case 2:
		r.Method = "POST"
		r.Header.Set("Content-Type", "application/graphql")
		r.Body = io.NopCloser(strings.NewReader(d.query))
	case 3:
		r.Method = "POST"
		r.Header.Set("Content-Type", "application/x-www-form-urlencoded")
		r.Body = io.NopCloser(strings.NewReader(hJSONBody(d)))
	}
	return r
}

func c07Render(w *hWriter, es *hES) string {
	var hs []string
	for k, v := range w.sent {
		hs = append(hs, k+"="+strings.Join(v, ","))
	}
	sort.Strings(hs)
	return strings.Join(hs, ";") + " | " + strings.Join(es.execs, ",") + " | " + w.body.String()
}

// Harness_C07_serverHistory: the status, headers, body and executed
// operation of a request are those a freshly constructed server gives for
// that request alone, whatever request (other transport, other document,
// other Accept header, invalid) the same server answered before it - with
// configured response headers or none, with a query cache or none.
func Harness_C07_serverHistory() {
	rh := hRespHdrs[zzsym.Choice("resphdr", 2)].hdr
	cache := zzsym.Choice("cache", 2) == 1
	mkServer := func(es *hES) *Server {
		var hdr map[string][]string
		if rh != nil {
			hdr = map[string][]string{}
			for k, v := range rh {
				hdr[k] = append([]string(nil), v...)
			}
		}
		srv := hServer(es, hdr)
		if cache {
			srv.SetQueryCache(graphql.MapCache[*ast.QueryDocument]{})
		}
		return srv
	}
	first := c07Corpus[zzsym.Choice("first", len(c07Corpus))]
	second := c07Corpus[zzsym.Choice("second", len(c07Corpus))]
	es := &hES{}
	srv := mkServer(es)
	srv.ServeHTTP(newHWriter(), c07Build(first))
	es.execs = nil
	w := newHWriter()
	srv.ServeHTTP(w, c07Build(second))

	esFresh := &hES{}
	wFresh := newHWriter()
	mkServer(esFresh).ServeHTTP(wFresh, c07Build(second))
	zzsym.Assert(w.status == wFresh.status, "the status is the one a fresh server answers")
	zzsym.Assert(c07Render(w, es) == c07Render(wFresh, esFresh), "headers, executed operation and body are those a fresh server answers")
	zzsym.Reach("c07.server.history")
}
