package handler

import (
	"context"
	"encoding/json"
	"io"
	"net/http"
	"net/url"
	"sort"
	"strings"

	"github.com/vektah/gqlparser/v2/ast"

	"github.com/99designs/gqlgen/graphql"
	"github.com/99designs/gqlgen/graphql/handler/extension"
	"github.com/99designs/gqlgen/graphql/handler/lru"
	"github.com/99designs/gqlgen/zzsym"
)

func Setup_C07_serverHistory() { Setup_C09_http() }

// c07ReqID: requests with ext 5 carry an X-Request-Id header, which a response interceptor of the server echoes into the
// response's extensions (a common customisation): no other response may show it
const c07ReqID = "secret-of-client-A"

type c07Req struct {
	transport int // 0 GET, 1 POST json, 2 POST application/graphql, 3 POST form
	doc       int // index into hDocs
	accept    int // index into hAccepts
	ext       int // POST json only: 3 / 4 = a body without a query member (operationName only / variables only); 0 no extensions, 1 persistedQuery with the text's own hash (registers), 2 with the hash of hDocs[0]'s text
}

// a corpus mixing transports, valid and invalid documents, operation names and Accept headers
var c07Corpus = []c07Req{
	{0, 0, 0, 0}, {0, 1, 2, 0}, {0, 5, 1, 0}, {0, 7, 3, 0}, {1, 0, 1, 0}, {1, 2, 2, 0}, {1, 4, 0, 0}, {1, 8, 4, 0},
	{1, 1, 6, 0}, {2, 0, 2, 0}, {2, 7, 1, 0}, {3, 0, 5, 0}, {3, 29, 0, 0}, {1, 9, 1, 0}, {0, 10, 2, 0},
	// automatic persisted queries: a registration, and a text sent with another text's hash (must be refused, registered or not)
	{1, 0, 1, 1}, {1, 5, 1, 2}, {1, 2, 0, 2},
	// texts that differ only inside a string literal / in where a comment ends (they must not share a cache slot)
	{1, 11, 0, 0}, {1, 12, 0, 0}, {0, 12, 1, 0}, {1, 13, 0, 0}, {2, 14, 0, 0},
	// POST bodies without a query member
	{1, 1, 0, 3}, {1, 0, 1, 4},
	// a request whose id the server's response interceptor echoes into the extensions
	{1, 0, 1, 5}, {1, 7, 0, 5},
	// texts that collide under common 32-bit checksums
	{1, 15, 0, 0}, {1, 16, 0, 0}, {1, 17, 0, 0}, {0, 18, 0, 0}, {1, 19, 0, 0}, {1, 20, 0, 0}, {2, 21, 0, 0}, {1, 22, 0, 0}, {1, 23, 0, 0}, {3, 24, 0, 0},
}

func c07Build(q c07Req) *http.Request {
	d := hDocs[q.doc]
	r := &http.Request{Header: http.Header{}, URL: &url.URL{Path: "/query"}}
	if a := hAccepts[q.accept].header; a != "" {
		r.Header.Set("Accept", a)
	}
	switch q.transport {
	case 0:
		r.Method = "GET"
		v := url.Values{}
		v.Set("query", d.query)
		if d.op != "" {
			v.Set("operationName", d.op)
		}
		r.URL.RawQuery = v.Encode()
		r.Body = http.NoBody
	case 1:
		r.Method = "POST"
		r.Header.Set("Content-Type", "application/json")
		body := hJSONBody(d)
		switch q.ext {
		case 1:
			body = body[:len(body)-1] + `,"extensions":` + c15Ext(c15Sum(d.query)) + `}`
		case 2:
			body = body[:len(body)-1] + `,"extensions":` + c15Ext(c15Sum(hDocs[0].query)) + `}`
		case 3:
			// no "query" member at all (an operation name only): whatever text an earlier request carried must not be taken for it
			o, _ := json.Marshal(d.op)
			body = `{"operationName":` + string(o) + `}`
		case 4:
			body = `{"variables":{"a":1}}`
		case 5:
			r.Header.Set("X-Request-Id", c07ReqID)
		}
		r.Body = io.NopCloser(strings.NewReader(body))
	case 2:
		r.Method = "POST"
		r.Header.Set("Content-Type", "application/graphql")
		r.Body = io.NopCloser(strings.NewReader(d.query))
	case 3:
		r.Method = "POST"
		r.Header.Set("Content-Type", "application/x-www-form-urlencoded")
		r.Body = io.NopCloser(strings.NewReader(hJSONBody(d)))
	}
	return r
}

func c07Render(w *hWriter, es *hES) string {
	var hs []string
	for k, v := range w.sent {
		hs = append(hs, k+"="+strings.Join(v, ","))
	}
	sort.Strings(hs)
	return strings.Join(hs, ";") + " | " + strings.Join(es.execs, ",") + strings.Join(es.shapes, ",") + " | " + w.body.String()
}

// Harness_C07_serverHistory: the status, headers, body and executed
// operation of a request are those a freshly constructed server gives for
// that request alone, whatever request (other transport, other document,
// other Accept header, invalid) the same server answered before it - with
// configured response headers or none, with a query cache or none.
func Harness_C07_serverHistory() {
	rh := hRespHdrs[zzsym.Choice("resphdr", 2)].hdr
	cache := zzsym.Choice("cache", 3)  // none, a map, the LRU of graphql/handler/lru
	apq := zzsym.Choice("apq", 2) == 1 // persisted-query registrations are the one permitted memory: no corpus request depends on them
	mkServer := func(es *hES) *Server {
		var hdr map[string][]string
		if rh != nil {
			hdr = map[string][]string{}
			for k, v := range rh {
				hdr[k] = append([]string(nil), v...)
			}
		}
		srv := hServer(es, hdr)
		srv.AroundResponses(func(ctx context.Context, next graphql.ResponseHandler) *graphql.Response {
			resp := next(ctx)
			if resp == nil || !graphql.HasOperationContext(ctx) {
				return resp
			}
			if id := graphql.GetOperationContext(ctx).Headers.Get("X-Request-Id"); id != "" {
				if resp.Extensions == nil {
					resp.Extensions = map[string]any{}
				}
				resp.Extensions["requestId"] = id
			}
			return resp
		})
		switch cache {
		case 1:
			srv.SetQueryCache(graphql.MapCache[*ast.QueryDocument]{})
		case 2:
			srv.SetQueryCache(lru.New[*ast.QueryDocument](8))
		}
		if apq {
			srv.Use(extension.AutomaticPersistedQuery{Cache: &c15Store{m: map[string]string{}}})
		}
		return srv
	}
	first := c07Corpus[zzsym.Choice("first", len(c07Corpus))]
	second := c07Corpus[zzsym.Choice("second", len(c07Corpus))]
	// what a freshly constructed server answers for the second request alone - taken first, so that state the history
	// leaves anywhere in the process (not only in its own server) shows as a difference
	esFresh := &hES{}
	wFresh := newHWriter()
	mkServer(esFresh).ServeHTTP(wFresh, c07Build(second))

	es := &hES{}
	srv := mkServer(es)
	srv.ServeHTTP(newHWriter(), c07Build(first))
	es.execs, es.shapes = nil, nil
	w := newHWriter()
	srv.ServeHTTP(w, c07Build(second))

	zzsym.Assert(w.status == wFresh.status, "the status is the one a fresh server answers")
	zzsym.Assert(c07Render(w, es) == c07Render(wFresh, esFresh), "headers, executed operation and body are those a fresh server answers")
	zzsym.Reach("c07.server.history")
}
