package handler

import (
	"bytes"
	"context"
	"encoding/json"
	"io"
	"math"
	"net/http"
	"net/url"
	"strings"

	"github.com/vektah/gqlparser/v2"
	"github.com/vektah/gqlparser/v2/ast"
	"github.com/vektah/gqlparser/v2/gqlerror"

	"github.com/99designs/gqlgen/graphql"
	"github.com/99designs/gqlgen/graphql/handler/transport"
	"github.com/99designs/gqlgen/zzsym"
)

const hSDL = `
type User { id: ID! name: String }
type Query { me: User user(id: ID!): User }
type Mutation { rename(name: String!): User }
type Subscription { ticks: Int }
`

var hSchema *ast.Schema

func Setup_C09_http() {
	hSchema = gqlparser.MustLoadSchema(&ast.Source{Name: "h.graphql", Input: hSDL})
}
func Setup_C10_bodies()    { Setup_C09_http() }
func Setup_C09_fallbacks() { Setup_C09_http() }

// hES is the executable schema fake: Exec records which operation is
// executed (this is "a resolver ran").
type hES struct {
	execs  []string
	shapes []string // the fields the executed operation selects (texts that differ only in a comment's extent select differently)
	quiet  bool     // do not record (the harness that freezes the server graph must not write into it itself)
}

func (e *hES) Schema() *ast.Schema { return hSchema }
func (e *hES) Complexity(ctx context.Context, typeName, fieldName string, childComplexity int, args map[string]any) (int, bool) {
	return 0, false
}
func (e *hES) Exec(ctx context.Context) graphql.ResponseHandler {
	op := graphql.GetOperationContext(ctx).Operation
	if e.quiet {
		return graphql.OneShot(&graphql.Response{Data: []byte(`{"ok":true}`)})
	}
	e.execs = append(e.execs, string(op.Operation)+":"+op.Name+hArgs(op.SelectionSet))
	e.shapes = append(e.shapes, hShape(op.SelectionSet))
	zzsym.Event("exec", string(op.Operation), op.Name)
	return graphql.OneShot(&graphql.Response{Data: []byte(`{"ok":true}`)})
}

// hArgs renders the literal argument values of the executed document (they
// tell two documents apart that differ only inside a literal).
func hArgs(set ast.SelectionSet) string {
	r := ""
	for _, sel := range set {
		if f, ok := sel.(*ast.Field); ok {
			for _, a := range f.Arguments {
				if a.Value != nil && a.Value.Kind == ast.StringValue && a.Name == "id" {
					r += "(" + a.Value.Raw + ")"
				}
			}
			r += hArgs(f.SelectionSet)
		}
	}
	return r
}

func hShape(set ast.SelectionSet) string {
	r := "{"
	for _, sel := range set {
		if f, ok := sel.(*ast.Field); ok {
			r += " " + f.Alias + ":" + f.Name + hShape(f.SelectionSet)
		}
	}
	return r + " }"
}

// hWriter is the ResponseWriter fake; like net/http it freezes the header
// map when the status line is written.
type hWriter struct {
	hdr    http.Header
	sent   http.Header
	status int
	body   bytes.Buffer
}

func newHWriter() *hWriter { return &hWriter{hdr: http.Header{}} }

func (w *hWriter) Header() http.Header { return w.hdr }
func (w *hWriter) WriteHeader(code int) {
	if w.status != 0 {
		return
	}
	w.status = code
	w.sent = http.Header{}
	for k, v := range w.hdr {
		w.sent[k] = append([]string(nil), v...)
	}
}
func (w *hWriter) Write(p []byte) (int, error) {
	if w.status == 0 {
		w.WriteHeader(200)
	}
	return w.body.Write(p)
}

type hDoc struct {
	query string
	op    string
	kind  string // kind of the operation the request names: query/mutation/subscription, "" if the request is invalid
	name  string // name of that operation
}

var hDocs = []hDoc{
	{`{ me { name } }`, "", "query", ""},
	{`query A { me { id } } mutation B { rename(name: "x") { id } }`, "A", "query", "A"},
	{`query A { me { id } } mutation B { rename(name: "x") { id } }`, "B", "mutation", "B"},
	{`query A { me { id } } mutation B { rename(name: "x") { id } }`, "", "", ""},  // ambiguous
	{`query A { me { id } } mutation B { rename(name: "x") { id } }`, "C", "", ""}, // unknown name
	{`mutation { rename(name: "x") { id } }`, "", "mutation", ""},
	{`subscription S { ticks }`, "S", "subscription", "S"},
	{`{ me { nam } }`, "", "", ""},                             // validation error
	{`{ me { name }`, "", "", ""},                              // parse error
	{`{ me { name } }`, "Other", "", ""},                       // anonymous operation, a name requested
	{`mutation { rename(name: "x") { id } }`, "Other", "", ""}, // the same for a mutation
	// two texts that differ only in the white space inside a string literal, and two that differ only in where a comment ends
	{`{ user(id: "a  b") { name } }`, "", "query", ""},
	{`{ user(id: "a b") { name } }`, "", "query", ""},
	{"{ me { id #x\n name } }", "", "query", ""},
	{"{ me { id #x name\n } }", "", "query", ""},
	// pairs of texts that collide under the 32-bit checksums of the standard library (CRC-32 IEEE / Castagnoli, FNV-1 / FNV-1a, Adler-32):
	// whatever a cache does with its keys, two different texts are two different documents
	{`{ a1u3nvvr: me { name } }`, "", "query", ""},
	{`{ am81smq: me { name } }`, "", "query", ""},
	{`{ ar7x0hu2: me { name } }`, "", "query", ""},
	{`{ aurp9kcn: me { name } }`, "", "query", ""},
	{`{ avy8hpwr: me { name } }`, "", "query", ""},
	{`{ ak04dnr1: me { name } }`, "", "query", ""},
	{`{ a17li267o: me { name } }`, "", "query", ""},
	{`{ a129dm0ay: me { name } }`, "", "query", ""},
	{`{ aafw59hc: me { name } }`, "", "query", ""},
	{`{ a7zacnd0: me { name } }`, "", "query", ""},
	// documents that break a validation rule other than "unknown field"
	{`{ me { name(bogus: 1) } }`, "", "", ""},
	{`query ($x: Int) { me { name } }`, "", "", ""},
	{`{ me { name @nope } }`, "", "", ""},
	// a variable of a type the schema does not have (the validator refuses it; coercing its value would dereference a nil definition)
	{`query($x: NoSuchType) { me { name } }`, "", "", ""},
	{``, "", "", ""}, // no query at all (kept last)
}

// exec is the record hES makes when the operation the request names is executed
func (d hDoc) exec() string {
	r := d.kind + ":" + d.name
	if i := strings.Index(d.query, `(id: "`); i >= 0 {
		rest := d.query[i+6:]
		r += "(" + rest[:strings.Index(rest, `"`)] + ")"
	}
	return r
}

type hAccept struct {
	header string
	want   string // negotiated media type when no Content-Type response header is configured
}

const (
	hJSON = "application/json"
	hGRJ  = "application/graphql-response+json"
)

var hAccepts = []hAccept{
	{"", hJSON},
	{"application/json", hJSON},
	{"application/graphql-response+json", hGRJ},
	{"*/*", hGRJ},
	{"application/*", hGRJ},
	{"text/html", hGRJ},
	{"text/html, application/json;q=0.9", hJSON},
	{"application/graphql-response+json;charset=utf-8, application/json", hGRJ},
	{";;garbage", hGRJ},
	// media types are case-insensitive
	{"Application/JSON", hJSON},
	{"Application/GraphQL-Response+JSON, application/json", hGRJ},
	{"APPLICATION/JSON; Charset=UTF-8", hJSON},
}

type hRespHdr struct {
	hdr  map[string][]string
	want string // Content-Type forced by configuration ("" = negotiated)
}

var hRespHdrs = []hRespHdr{
	{nil, ""},
	{map[string][]string{"X-Other": {"1"}}, ""},
	{map[string][]string{"Content-Type": {"application/json; charset=utf-8"}}, "application/json; charset=utf-8"},
	{map[string][]string{"content-type": {"text/x-custom"}}, "text/x-custom"},
}

func hServer(es *hES, rh map[string][]string, noRecover ...bool) *Server {
	srv := New(es)
	srv.AddTransport(transport.Options{})
	srv.AddTransport(transport.GET{ResponseHeaders: rh})
	srv.AddTransport(transport.POST{ResponseHeaders: rh})
	srv.AddTransport(transport.GRAPHQL{ResponseHeaders: rh})
	srv.AddTransport(transport.UrlEncodedForm{ResponseHeaders: rh})
	srv.SetRecoverFunc(func(ctx context.Context, err any) error {
		if len(noRecover) > 0 && noRecover[0] {
			zzsym.Assert(false, "the recover hook ran although no user code panicked (gqlgen's own panic)")
		}
		return gqlerror.Errorf("internal system error")
	})
	return srv
}

func hJSONBody(d hDoc) string {
	q, _ := json.Marshal(d.query)
	s := `{"query":` + string(q)
	if d.op != "" {
		o, _ := json.Marshal(d.op)
		s += `,"operationName":` + string(o)
	}
	return s + `}`
}

// hCheckBody: the body is exactly one JSON value (a GraphQL response object).
func hCheckBody(w *hWriter) {
	b := w.body.Bytes()
	zzsym.Assert(len(b) > 0, "every response has a body")
	zzsym.Assert(json.Valid(b) && b[0] == '{', "the response body is one JSON object")
}

func hContentType(w *hWriter) (string, bool) {
	v, ok := w.sent["Content-Type"]
	if !ok || len(v) == 0 {
		return "", false
	}
	return v[len(v)-1], true
}

// Harness_C09_http: GET and POST (application/json) over the document
// corpus x operationName x Accept corpus x configured response headers.
func Harness_C09_http() {
	es := &hES{}
	rhi := zzsym.Choice("resphdr", len(hRespHdrs))
	srv := hServer(es, hRespHdrs[rhi].hdr)
	d := hDocs[zzsym.Choice("doc", len(hDocs))]
	acc := hAccepts[zzsym.Choice("accept", len(hAccepts))]
	// 0 GET, 1 POST application/json, 2 POST application/graphql, 3 POST urlencoded form, 4 POST multipart form
	tr := zzsym.Choice("method", 2+zzsym.Param("forms", 0)*3)
	get := tr == 0
	badUpload := false // multipart form: the map names a place for a file that does not exist (the request is refused whatever the document)
	// the option changes the text of one validation message, nothing else
	nosuggest := zzsym.Param("forms", 0) == 1 && zzsym.Choice("nosuggest", 2) == 1
	defsrv := zzsym.Param("forms", 0) == 1 && zzsym.Choice("server", 2) == 1
	if defsrv {
		// the documented example server (websocket, OPTIONS, GET, POST, multipart form; LRU query cache, introspection, APQ)
		zzsym.Assume(rhi == 0 && (tr == 0 || tr == 1 || tr == 4))
		srv = NewDefaultServer(es)
	}
	if nosuggest {
		srv.SetDisableSuggestion(true)
	}
	r := &http.Request{Header: http.Header{}, URL: &url.URL{Path: "/query"}}
	if acc.header != "" {
		r.Header.Set("Accept", acc.header)
	}
	switch tr {
	case 0:
		r.Method = "GET"
		v := url.Values{}
		if d.query != "" {
			v.Set("query", d.query)
		}
		if d.op != "" {
			v.Set("operationName", d.op)
		}
		r.URL.RawQuery = v.Encode()
		r.Body = http.NoBody
	case 1:
		r.Method = "POST"
		r.Header.Set("Content-Type", "application/json")
		r.Body = io.NopCloser(strings.NewReader(hJSONBody(d)))
	case 2:
		// the body is the document itself: this transport has no place for an operation name
		zzsym.Assume(d.op == "")
		r.Method = "POST"
		r.Header.Set("Content-Type", "application/graphql")
		r.Body = io.NopCloser(strings.NewReader(d.query))
	case 3:
		r.Method = "POST"
		r.Header.Set("Content-Type", "application/x-www-form-urlencoded")
		r.Body = io.NopCloser(strings.NewReader(hJSONBody(d)))
	case 4:
		r.Method = "POST"
		r.Header.Set("Content-Type", "multipart/form-data; boundary=B")
		// no file / one file mapped to a variable / to two places of which the second does not exist / to a path outside the variables
		up := zzsym.Choice("upload", 4)
		ops := hJSONBody(d)
		ops = ops[:len(ops)-1] + `,"variables":{"f":null,"g":{"h":null}}}`
		m := []string{`{}`, `{"0":["variables.f"]}`, `{"0":["variables.g.h","variables.nope.x.y"]}`, `{"0":["query"]}`}[up]
		body := "--B\r\nContent-Disposition: form-data; name=\"operations\"\r\n\r\n" + ops + "\r\n--B\r\nContent-Disposition: form-data; name=\"map\"\r\n\r\n" + m + "\r\n"
		if up > 0 {
			body += "--B\r\nContent-Disposition: form-data; name=\"0\"; filename=\"a.txt\"\r\nContent-Type: text/plain\r\n\r\nhello\r\n"
		}
		r.Body = io.NopCloser(strings.NewReader(body + "--B--\r\n"))
		badUpload = up >= 2
		if !defsrv {
			srv.AddTransport(transport.MultipartForm{ResponseHeaders: hRespHdrs[rhi].hdr})
		}
	}
	w := newHWriter()
	srv.ServeHTTP(w, r)

	hCheckBody(w)
	wantCT := hRespHdrs[rhi].want
	negotiated := acc.want
	if tr >= 2 {
		// these transports do not negotiate: application/json unless configured
		negotiated = hJSON
	}
	if wantCT == "" {
		wantCT = negotiated
	} else if wantCT == "application/json; charset=utf-8" || wantCT == "text/x-custom" {
		negotiated = wantCT
	}
	ct, ok := hContentType(w)
	zzsym.Assert(ok, "a response with a body carries a Content-Type")
	zzsym.Assert(ct == wantCT, "Content-Type is the configured one, else the one negotiated from Accept")

	executed := len(es.execs) > 0
	if badUpload {
		zzsym.Assert(!executed && w.status == 422, "a file mapped to a place that does not exist: refused (422), nothing executes")
		zzsym.Reach("http.refused")
		return
	}
	if get {
		zzsym.Assert(!executed || d.kind == "query", "GET executes only query operations")
	}
	if executed {
		zzsym.Assert(len(es.execs) == 1 && es.execs[0] == d.exec(), "exactly the operation the request names is executed, once")
		zzsym.Assert(w.status == 200, "a request whose execution started is answered 200")
		zzsym.Reach("http.executed")
	} else {
		zzsym.Reach("http.refused")
	}
	if w.status < 200 || w.status > 299 {
		zzsym.Assert(!executed, "nothing runs for a request answered with a non-2xx status")
	}
	if d.kind == "" {
		// parse / validation / operation selection failure: the client-error status of the negotiated type
		zzsym.Assert(!executed, "an invalid request executes nothing")
		if negotiated == hGRJ {
			zzsym.Assert(w.status == 400, "invalid document: 400 under application/graphql-response+json")
		} else if tr >= 2 && d.query == "" {
			zzsym.Assert(w.status >= 400 && w.status < 500, "no document at all: a client error")
		} else {
			zzsym.Assert(w.status == 422, "invalid document: 422 under application/json")
		}
	} else if !get || d.kind == "query" {
		zzsym.Assert(executed, "a valid request for an allowed operation is executed")
	}
}

var hBodies = []string{
	`null`, `{}`, `[]`, `1`, `"x"`, `{"query":null}`, `{"variables":[]}`, `{"query":1}`, `{"query":"{ me { name } }"`, ``,
	`null"query":`, `{"query":"{ me { name } }","variables":null,"extensions":null}`, `{"query":"{ me { name } }","operationName":7}`,
	`{"query":"{ me { name } }","variables":{"a":[1,{"b":null}]}}`, `  `, `{"query":"{ me { name } }"} trailing`,
	// structurally valid requests that cannot be served: operation selection, operation kind, variables
	`{"query":"query A { me { id } } query B { me { name } }"}`, `{"query":"query A { me { id } }","operationName":"B"}`,
	`{"query":"fragment F on User { id }"}`, `{"query":"subscription S { ticks }"}`,
	`{"query":"query Q($id: ID!) { user(id: $id) { name } }"}`, `{"query":"query Q($id: ID!) { user(id: $id) { name } }","variables":{"id":{"a":1}}}`,
	`{"query":"mutation M { rename(name: \"x\") { id } }","operationName":"M"}`,
}

var hMultipartCTs = []string{"multipart/form-data; boundary=B", "multipart/form-data", "multipart/form-data; boundary=", "multipart/form-data; boundary=\"B\"; x"}

func hPart(name, extra, body string) string {
	return "--B\r\nContent-Disposition: form-data; name=\"" + name + "\"" + extra + "\r\n\r\n" + body + "\r\n"
}

var hMultipartBodies = []string{
	hPart("operations", "", `{"query":"{ me { name } }"}`) + hPart("map", "", `{}`) + "--B--\r\n",
	hPart("operations", "", `{"query":"{ me { name } }"}`) + "--B--\r\n",                                                                                     // no map part
	hPart("map", "", `{}`) + hPart("operations", "", `{"query":"{ me { name } }"}`) + "--B--\r\n",                                                            // wrong order
	hPart("operations", "", `{"query":`) + hPart("map", "", `{}`) + "--B--\r\n",                                                                              // operations is not JSON
	hPart("operations", "", `{"query":"{ me { name } }"}`) + hPart("map", "", `[1]`) + "--B--\r\n",                                                           // map is not an object
	hPart("operations", "", `{"query":"{ me { name } }"}`) + hPart("map", "", `{"0":[]}`) + hPart("0", `; filename="a.txt"`, "x") + "--B--\r\n",              // empty path list
	hPart("operations", "", `{"query":"{ me { name } }"}`) + hPart("map", "", `{"0":["variables.f"]}`) + "--B--\r\n",                                         // mapped file never arrives
	hPart("operations", "", `{"query":"{ me { name } }"}`) + hPart("map", "", `{"0":["variables.f"]}`) + hPart("1", `; filename="a.txt"`, "x") + "--B--\r\n", // a part the map does not know
	hPart("operations", "", `{"query":"{ me { name } }","variables":{"f":null}}`) + hPart("map", "", `{"0":["variables.f","nope.x","variables.f.0"]}`) + hPart("0", `; filename="a.txt"`, "x") + "--B--\r\n",
	hPart("operations", "", `{"query":"{ me { name } }"}`) + hPart("map", "", `{}`), // no closing boundary
	"--B\r\nContent-Disposition: form-data; name=\"operations\"\r\n",                // ends inside the part header
	"", "garbage", "--B--\r\n",
	hPart("operations", "", `null`) + hPart("map", "", `null`) + "--B--\r\n",
}

var hQueryStrings = []string{
	`query=%7Bme%7Bname%7D%7D&variables=null`, `query=%7Bme%7Bname%7D%7D&variables=%5B%5D`, `query=%7Bme%7Bname%7D%7D&extensions=1`,
	`query=%zz`, `query=%7Bme%7Bname%7D%7D&variables=%7B%22a%22%3A1%7D&extensions=%7B%7D`, ``, `variables=%7B`, `query=%7Bme%7Bname%7D%7D;x`,
	// structurally valid requests that cannot be served over GET
	`query=query+A+%7Bme%7Bid%7D%7D+query+B+%7Bme%7Bname%7D%7D`, `query=query+A+%7Bme%7Bid%7D%7D&operationName=B`, `query=fragment+F+on+User+%7Bid%7D`,
	`query=mutation+M+%7Brename%28name%3A%22x%22%29%7Bid%7D%7D`, `query=subscription+S+%7Bticks%7D`,
	`query=query+Q%28%24id%3AID%21%29%7Buser%28id%3A%24id%29%7Bname%7D%7D`, `query=query+Q%28%24id%3AID%21%29%7Buser%28id%3A%24id%29%7Bname%7D%7D&variables=%7B%22id%22%3A%7B%22a%22%3A1%7D%7D`,
}

// Harness_C10_bodies: malformed JSON bodies / query strings / form bodies on
// every HTTP transport never reach gqlgen's recover path and are answered
// with a well-formed JSON error (or executed normally).
func Harness_C10_bodies() { hBodiesRun(false) }

// Harness_C09_malformed: the same malformed requests, checked for C09's
// clause that every response with a body carries a Content-Type.
func Harness_C09_malformed() { hBodiesRun(true) }

func Setup_C09_malformed() { Setup_C09_http() }

func hBodiesRun(checkCT bool) {
	es := &hES{}
	srv := hServer(es, nil, !checkCT)
	r := &http.Request{Header: http.Header{}, URL: &url.URL{Path: "/query"}}
	switch zzsym.Choice("transport", 5) {
	case 4:
		// multipart form bodies through the real mime/multipart reader
		r.Method = "POST"
		r.Header.Set("Content-Type", hMultipartCTs[zzsym.Choice("mpct", len(hMultipartCTs))])
		r.Body = io.NopCloser(strings.NewReader(hMultipartBodies[zzsym.Choice("mpbody", len(hMultipartBodies))]))
		srv.AddTransport(transport.MultipartForm{})
	case 0:
		r.Method = "POST"
		r.Header.Set("Content-Type", "application/json")
		r.Body = io.NopCloser(strings.NewReader(hBodies[zzsym.Choice("body", len(hBodies))]))
	case 1:
		r.Method = "GET"
		r.URL.RawQuery = hQueryStrings[zzsym.Choice("qs", len(hQueryStrings))]
		r.Body = http.NoBody
	case 2:
		r.Method = "POST"
		r.Header.Set("Content-Type", "application/x-www-form-urlencoded")
		r.Body = io.NopCloser(strings.NewReader(hBodies[zzsym.Choice("body", len(hBodies))]))
	case 3:
		r.Method = "POST"
		r.Header.Set("Content-Type", "application/graphql")
		r.Body = io.NopCloser(strings.NewReader(hBodies[zzsym.Choice("body", len(hBodies))]))
	}
	if r.Method == "POST" {
		// the length the client declares is its own claim: absent, unknown, or grossly overstated
		r.ContentLength = []int64{0, -1, math.MaxInt64}[zzsym.Choice("declaredLength", 3)]
	}
	w := newHWriter()
	srv.ServeHTTP(w, r)
	hCheckBody(w)
	if checkCT {
		_, ok := hContentType(w)
		zzsym.Assert(ok, "a response with a body carries a Content-Type")
	}
	if w.status < 200 || w.status > 299 {
		zzsym.Assert(len(es.execs) == 0, "nothing runs for a request answered with a non-2xx status")
		zzsym.Assert(w.status >= 400 && w.status < 500, "malformed input is a client error")
		zzsym.Reach("bodies.rejected")
	} else {
		zzsym.Reach("bodies.ok")
	}
}

// Harness_C09_fallbacks: the server's own answers (no transport matches) also
// carry a Content-Type with their JSON body.
func Harness_C09_fallbacks() {
	es := &hES{}
	srv := hServer(es, nil)
	r := &http.Request{Header: http.Header{}, URL: &url.URL{Path: "/query"}, Body: http.NoBody}
	switch zzsym.Choice("case", 3) {
	case 0:
		r.Method = "PUT"
	case 1:
		r.Method = "POST"
		r.Header.Set("Content-Type", "text/plain")
	case 2:
		r.Method = "GET"
		r.Header.Set("Upgrade", "websocket")
	}
	w := newHWriter()
	srv.ServeHTTP(w, r)
	hCheckBody(w)
	zzsym.Assert(w.status == 400 && len(es.execs) == 0, "an unsupported request is a 400 and executes nothing")
	_, ok := hContentType(w)
	zzsym.Assert(ok, "a response with a body carries a Content-Type")
	zzsym.Reach("fallback.checked")
}

func Setup_C09_sequence() { Setup_C09_http() }

// Harness_C09_sequence: two requests through one server and one transport
// value: whatever the first request named, the second executes exactly the
// operation it names itself (or is refused), for POST and GET.
func Harness_C09_sequence() {
	es := &hES{}
	// under C10 the recover hook must stay silent: none of these requests makes user code panic
	srv := hServer(es, nil, zzsym.Param("norecover", 0) == 1)
	mk := func(d hDoc, get bool) *http.Request {
		r := &http.Request{Header: http.Header{}, URL: &url.URL{Path: "/query"}}
		if get {
			r.Method = "GET"
			v := url.Values{}
			v.Set("query", d.query)
			if d.op != "" {
				v.Set("operationName", d.op)
			}
			r.URL.RawQuery = v.Encode()
			r.Body = http.NoBody
		} else {
			r.Method = "POST"
			r.Header.Set("Content-Type", "application/json")
			r.Body = io.NopCloser(strings.NewReader(hJSONBody(d)))
		}
		return r
	}
	if zzsym.Choice("cache", 2) == 1 {
		srv.SetQueryCache(graphql.MapCache[*ast.QueryDocument]{})
	}
	first := hDocs[zzsym.Choice("first", len(hDocs)-1)]
	second := hDocs[zzsym.Choice("second", len(hDocs)-1)]
	get1, get2 := zzsym.Choice("m1", 2) == 0, zzsym.Choice("m2", 2) == 0
	srv.ServeHTTP(newHWriter(), mk(first, get1))
	es.execs = nil
	w := newHWriter()
	srv.ServeHTTP(w, mk(second, get2))
	allowed := second.kind != "" && (!get2 || second.kind == "query")
	if allowed {
		zzsym.Assert(len(es.execs) == 1 && es.execs[0] == second.exec() && w.status == 200, "the second request executes exactly the operation it names")
		zzsym.Reach("seq.executed")
	} else {
		zzsym.Assert(len(es.execs) == 0 && w.status >= 400, "the second request is refused on its own merits")
		zzsym.Reach("seq.refused")
	}
}

func Setup_C07_noPersistentWrites() { Setup_C09_http() }

// Harness_C07_noPersistentWrites: serving a request (any of 4 transports, any
// corpus document, malformed bodies included) stores nothing into state that
// outlives it: the server / executor / transport objects and every
// package-level variable of gqlgen's runtime packages and of gqlparser stay
// untouched (the pooled POST parameters are handled by C07's pool harness, a
// configured query cache / APQ store is the only permitted memory).
func Harness_C07_noPersistentWrites() {
	es := &hES{quiet: true}
	srv := hServer(es, hRespHdrs[zzsym.Choice("resphdr", 2)].hdr)
	r := &http.Request{Header: http.Header{}, URL: &url.URL{Path: "/query"}}
	d := hDocs[zzsym.Choice("doc", len(hDocs))]
	switch zzsym.Choice("transport", 4) {
	case 0:
		r.Method = "GET"
		v := url.Values{}
		v.Set("query", d.query)
		if d.op != "" {
			v.Set("operationName", d.op)
		}
		r.URL.RawQuery = v.Encode()
		r.Body = http.NoBody
	case 1:
		r.Method = "POST"
		r.Header.Set("Content-Type", "application/json")
		r.Body = io.NopCloser(strings.NewReader(hJSONBody(d)))
	case 2:
		r.Method = "POST"
		r.Header.Set("Content-Type", "application/graphql")
		r.Body = io.NopCloser(strings.NewReader(d.query))
	case 3:
		r.Method = "POST"
		r.Header.Set("Content-Type", "application/x-www-form-urlencoded")
		r.Body = io.NopCloser(strings.NewReader(hJSONBody(d)))
	}
	// the server, its executor and its transports (with their configured header maps) are
	// configuration: not even the first request may store into them
	zzsym.Frozen("server", srv)
	// warm-up: lazily initialised package-level tables (header canonicalisation, mime) are filled by a first request
	srv.ServeHTTP(newHWriter(), &http.Request{Method: "GET", Header: http.Header{"Accept": {"application/graphql-response+json"}}, URL: &url.URL{Path: "/query", RawQuery: "query=%7Bme%7Bid%7D%7D"}, Body: http.NoBody})
	zzsym.FrozenGlobals("runtime-globals", "github.com/99designs/gqlgen/graphql", "github.com/vektah/gqlparser/v2")
	w := newHWriter()
	srv.ServeHTTP(w, r)
	hCheckBody(w)
	zzsym.Reach("c07.frozen")
}

func Setup_C04_servePanic() { Setup_C09_http() }

type hBadES struct{ hES }

func (e *hBadES) Exec(ctx context.Context) graphql.ResponseHandler {
	// a response whose data cannot be serialised: writeJson panics while marshalling it
	return graphql.OneShot(&graphql.Response{Data: []byte(`{"a":`)})
}

// Harness_C04_servePanic: a panic raised while serialising the response
// fails only that response: a well-formed JSON error body with a client /
// server error status, the recover hook invoked exactly once, and the server
// keeps serving the next request.
func Harness_C04_servePanic() {
	es := &hBadES{}
	srv := New(es)
	srv.AddTransport(transport.GET{})
	srv.AddTransport(transport.POST{})
	srv.AddTransport(transport.GRAPHQL{})
	recovers := 0
	srv.SetRecoverFunc(func(ctx context.Context, err any) error {
		recovers++
		return gqlerror.Errorf("internal system error")
	})
	r := &http.Request{Header: http.Header{}, URL: &url.URL{Path: "/query"}}
	switch zzsym.Choice("transport", 3) {
	case 0:
		r.Method = "GET"
		r.URL.RawQuery = "query=%7Bme%7Bid%7D%7D"
		r.Body = http.NoBody
	case 1:
		r.Method = "POST"
		r.Header.Set("Content-Type", "application/json")
		r.Body = io.NopCloser(strings.NewReader(`{"query":"{ me { id } }"}`))
	case 2:
		r.Method = "POST"
		r.Header.Set("Content-Type", "application/graphql")
		r.Body = io.NopCloser(strings.NewReader(`{ me { id } }`))
	}
	w := newHWriter()
	panicked := func() (p bool) {
		defer func() {
			if rec := recover(); rec != nil {
				p = true
			}
		}()
		srv.ServeHTTP(w, r)
		return false
	}()
	zzsym.Assert(!panicked, "the panic does not escape ServeHTTP")
	zzsym.Assert(recovers == 1, "the recover hook runs exactly once")
	hCheckBody(w)
	var resp struct {
		Errors []map[string]any `json:"errors"`
	}
	zzsym.Assert(json.Unmarshal(w.body.Bytes(), &resp) == nil && len(resp.Errors) == 1, "the body is a GraphQL error response")
	zzsym.Assert(w.status >= 400, "the failed response is answered with an error status")
	zzsym.Reach("c04.serve")
}
