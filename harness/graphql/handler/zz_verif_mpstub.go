package handler

import (
	"mime"
	"mime/multipart"
	"net/http"
)

// net/http's package initialiser is not run by the engine, which leaves the
// sentinel (*Request).MultipartReader compares r.MultipartForm with nil and
// makes every first call look like a second one.  The stub is the same
// function without the sentinel: media type and boundary from the header,
// the real mime/multipart reader over the body.
//
//sym:stub (*net/http.Request).MultipartReader
func Stub_MultipartReader(r *http.Request) (*multipart.Reader, error) {
	v := r.Header.Get("Content-Type")
	if v == "" {
		return nil, http.ErrNotMultipart
	}
	d, params, err := mime.ParseMediaType(v)
	if err != nil || d != "multipart/form-data" {
		return nil, http.ErrNotMultipart
	}
	boundary, ok := params["boundary"]
	if !ok {
		return nil, http.ErrMissingBoundary
	}
	return multipart.NewReader(r.Body, boundary), nil
}
