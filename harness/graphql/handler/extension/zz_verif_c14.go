package extension

import (
	"context"
	"encoding/json"
	"strconv"
	"strings"

	"github.com/vektah/gqlparser/v2"
	"github.com/vektah/gqlparser/v2/ast"

	"github.com/99designs/gqlgen/complexity"
	"github.com/99designs/gqlgen/graphql"
	"github.com/99designs/gqlgen/graphql/executor"
	"github.com/99designs/gqlgen/zzsym"
)

const c14SDL = `
interface Node { id: ID! cost(n: Int): Int }
type User implements Node { id: ID! cost(n: Int): Int name: String friends(first: Int): [User!] pet: Pet }
type Item implements Node { id: ID! cost(n: Int): Int title: String owner: User }
union Pet = User | Item
type Query { me: User node: Node items(first: Int): [Item!] pet: Pet }
`

// pairs (A, A') where A' is A plus selections: complexity(A') >= complexity(A)
var c14Queries = []string{
	`{ me { name } }`,
	`{ me { name friends(first: 3) { name } } }`,
	`query Q($n: Int) { node { id cost(n: $n) ... on User { name } } }`,
	`query Q($n: Int) { node { id cost(n: $n) ... on User { name friends { id } } ...F } items { title } } fragment F on Item { owner { name } }`,
	`{ pet { ... on User { name } ... on Item { title owner { id } } } }`,
	`{ a: me { id } b: me { id name } }`,
	`{ a: me { ...U } }  fragment U on User { name friends { id } }`,
	`{ a: me { ...U } b: me { ...U } c: me { friends { ...U } } }  fragment U on User { name friends { id } }`,
	// the same response key selected twice in one selection set (the executor merges them, the walk charges each occurrence)
	`{ me { id } me { friends(first: 3) { name friends { id } } } }`,
	// an interface field costed several times in one operation, with arguments that change which implementor is the most expensive
	`{ node { a: cost(n: 1) ...C } } fragment C on Node { b: cost(n: 1000) }`,
	`{ me { friends(first: 2) { id } friends(first: 2) { name } ... on User { friends(first: 2) { pet { __typename } } } } }`,
}

// index pairs (smaller, larger) of c14Queries
var c14Mono = [][2]int{{0, 1}, {2, 3}, {6, 7}}

var (
	c14Schema *ast.Schema
	c14Docs   []*ast.QueryDocument
)

func Setup_C14_walk() {
	c14Schema = gqlparser.MustLoadSchema(&ast.Source{Name: "c14.graphql", Input: c14SDL})
	c14Docs = nil
	for _, q := range c14Queries {
		doc, errs := gqlparser.LoadQuery(c14Schema, q)
		if errs != nil {
			panic(errs)
		}
		c14Docs = append(c14Docs, doc)
	}
}

type c14Cost struct {
	ok bool
	k  int
}

type c14ES struct {
	cost  map[string]*c14Cost
	sym   map[string]bool // (type.field) keys whose custom cost is symbolic; every other field has no custom cost
	calls int
}

// per corpus query: the fields that get an arbitrary custom cost function
var c14SymKeys = [][]string{
	{"Query.me", "User.name"},
	{"User.friends", "Query.me", "User.name"},
	{"User.cost", "Item.cost", "Query.node"},
	{"User.cost", "Item.owner", "User.friends"},
	{"Query.pet", "Item.owner", "Item.title"},
	{"Query.me", "User.id"},
	{"Query.me", "User.friends"},
	{"Query.me", "User.friends"},
	{"Query.me", "User.friends"},
	{"User.cost", "Item.cost"},
	{"User.friends", "User.pet"},
}

func c14NewES(qi int) *c14ES {
	e := &c14ES{cost: map[string]*c14Cost{}, sym: map[string]bool{}}
	for _, k := range c14SymKeys[qi] {
		e.sym[k] = true
	}
	return e
}

func (e *c14ES) Schema() *ast.Schema { return c14Schema }
func (e *c14ES) Exec(ctx context.Context) graphql.ResponseHandler {
	zzsym.Assert(false, "Exec must not be called by the complexity gate")
	return nil
}
func (e *c14ES) costOf(key string) *c14Cost {
	c, ok := e.cost[key]
	if !ok {
		if e.sym[strings.TrimSuffix(key, "#big")] {
			c = &c14Cost{ok: zzsym.Bool("custom:" + key), k: zzsym.Int("cost:" + key)}
		} else {
			c = &c14Cost{}
		}
		e.cost[key] = c
	}
	return c
}
func (e *c14ES) Complexity(ctx context.Context, typeName, field string, child int, args map[string]any) (int, bool) {
	e.calls++
	c := e.costOf(typeName + "." + field + c14Big(args))
	if !c.ok {
		return 0, false
	}
	return c.k, true
}

// c14Big: a custom cost function may depend on its arguments - here it is another arbitrary function when n >= 10
func c14Big(args map[string]any) string {
	if n, ok := args["n"].(int64); ok && n >= 10 {
		return "#big"
	}
	return ""
}

// the variable values of the request whose operation c14Ref is costing
var c14Vars map[string]any

const c14MaxInt = int(^uint(0) >> 1)

func c14SatAdd(a, b int) int { // both >= 0
	if a > c14MaxInt-b {
		return c14MaxInt
	}
	return a + b
}

// c14Ref is the documented definition, written independently of the
// implementation: custom cost when defined and not below the children's
// cost, else one plus the children; interface fields take their most
// expensive implementor; fragments contribute their selections; saturating.
func c14Ref(e *c14ES, set ast.SelectionSet) int {
	total := 0
	for _, sel := range set {
		switch s := sel.(type) {
		case *ast.Field:
			def := c14Schema.Types[s.Definition.Type.Name()]
			if def.Name == "__Schema" {
				continue
			}
			child := 0
			if def.Kind == ast.Object || def.Kind == ast.Interface || def.Kind == ast.Union {
				child = c14Ref(e, s.SelectionSet)
			}
			one := func(typ string) int {
				c := e.costOf(typ + "." + s.Name + c14Big(s.ArgumentMap(c14Vars)))
				if c.ok && c.k >= child {
					return c.k
				}
				return c14SatAdd(1, child)
			}
			var fc int
			if s.ObjectDefinition.Kind == ast.Interface {
				for _, t := range c14Schema.GetPossibleTypes(s.ObjectDefinition) {
					if v := one(t.Name); v > fc {
						fc = v
					}
				}
			} else {
				fc = one(s.ObjectDefinition.Name)
			}
			total = c14SatAdd(total, fc)
		case *ast.FragmentSpread:
			total = c14SatAdd(total, c14Ref(e, s.Definition.SelectionSet))
		case *ast.InlineFragment:
			total = c14SatAdd(total, c14Ref(e, s.SelectionSet))
		}
	}
	return total
}

// Harness_C14_walk: complexity.Calculate equals the documented definition
// for every assignment of custom cost functions (defined or not, any
// 64-bit constant including negative and huge) on the corpus operations.
func Harness_C14_walk() {
	qi := zzsym.Choice("query", len(c14Queries))
	e := c14NewES(qi)
	op := c14Docs[qi].Operations[0]
	vars := map[string]any{"n": []int64{3, 700}[zzsym.Choice("n", 2)]}
	c14Vars = vars
	got := complexity.Calculate(context.Background(), e, op, vars)
	want := c14Ref(e, op.SelectionSet)
	zzsym.Assert(got == want, "Calculate equals the documented definition")
	zzsym.Assert(got >= 0, "complexity is never negative (no overflow)")
	zzsym.Reach("c14.walk")
}

// Harness_C14_monotone: adding selections never decreases the complexity
// (custom costs constant in childComplexity).
func Harness_C14_monotone() {
	p := c14Mono[zzsym.Choice("pair", len(c14Mono))]
	e := c14NewES(p[1])
	c14Vars = nil
	small := complexity.Calculate(context.Background(), e, c14Docs[p[0]].Operations[0], nil)
	large := complexity.Calculate(context.Background(), e, c14Docs[p[1]].Operations[0], nil)
	zzsym.Assert(large >= small, "adding selections never decreases complexity")
	zzsym.Reach("c14.mono")
}

// Harness_C14_gate: the limit extension rejects exactly the operations whose
// complexity exceeds the limit, for every (cost assignment, limit).
func Harness_C14_gate() {
	qi := zzsym.Choice("query", 3)
	e := c14NewES(qi)
	limit := zzsym.Int("limit")
	c := &ComplexityLimit{Func: func(ctx context.Context, opCtx *graphql.OperationContext) int { return limit }}
	zzsym.Assert(c.Validate(e) == nil, "Validate accepts a limit func")
	opCtx := &graphql.OperationContext{Doc: c14Docs[qi], Variables: map[string]any{"n": int64(1)}}
	c14Vars = opCtx.Variables
	gerr := c.MutateOperationContext(context.Background(), opCtx)
	want := c14Ref(e, c14Docs[qi].Operations[0].SelectionSet)
	zzsym.Assert((gerr != nil) == (want > limit), "rejected iff complexity exceeds the limit")
	st, _ := opCtx.Stats.GetExtension(complexityExtension).(*ComplexityStats)
	zzsym.Assert(st != nil && st.Complexity == want && st.ComplexityLimit == limit, "stats record the computed complexity and limit")
	zzsym.Reach("c14.gate")
}

// c14VarES: the custom cost of Query.items / User.friends depends on the
// "first" argument (first x child complexity, the usual pagination cost).
type c14VarES struct {
	execs int
}

func (e *c14VarES) Schema() *ast.Schema { return c14Schema }
func (e *c14VarES) Exec(ctx context.Context) graphql.ResponseHandler {
	e.execs++
	return graphql.OneShot(&graphql.Response{Data: []byte(`{}`)})
}
func (e *c14VarES) Complexity(ctx context.Context, typeName, field string, child int, args map[string]any) (int, bool) {
	if (typeName == "Query" && field == "items") || (typeName == "User" && field == "friends") {
		switch n := args["first"].(type) {
		case int64:
			return int(n) * child, true
		case int:
			return n * child, true
		}
	}
	return 0, false
}

type c14VarCase struct {
	query string
	vars  func(n int64, form int) map[string]any
	cost  func(n int64) int // the documented complexity given the coerced value of $n
}

func c14N(n int64, form int) any {
	if form == 1 {
		return json.Number(strconv.FormatInt(n, 10))
	}
	return n
}

func c14Pag(first int64, child int) int { // custom cost unless below the children
	if c := int(first) * child; c >= child {
		return c
	}
	return 1 + child
}

var c14VarCases = []c14VarCase{
	{`query Q($n: Int) { items(first: $n) { title } }`,
		func(n int64, f int) map[string]any { return map[string]any{"n": c14N(n, f)} },
		func(n int64) int { return c14Pag(n, 1) }},
	{`query Q($n: Int = 4) { items(first: $n) { title } }`,
		func(n int64, f int) map[string]any { return nil },
		func(n int64) int { return c14Pag(4, 1) }},
	{`query Q($n: Int = 4) { items(first: $n) { title } }`,
		func(n int64, f int) map[string]any { return map[string]any{"n": c14N(n, f)} },
		func(n int64) int { return c14Pag(n, 1) }},
	{`{ items(first: 5) { title owner { id } } }`,
		func(n int64, f int) map[string]any { return nil },
		func(n int64) int { return c14Pag(5, 3) }},
	{`query Q($n: Int!) { me { friends(first: $n) { name id } } }`,
		func(n int64, f int) map[string]any { return map[string]any{"n": c14N(n, f)} },
		func(n int64) int { return 1 + c14Pag(n, 2) }},
	{`query Q($n: Int!, $m: Int = 2) { items(first: $m) { owner { friends(first: $n) { id } } } }`,
		func(n int64, f int) map[string]any { return map[string]any{"n": c14N(n, f)} },
		func(n int64) int { return c14Pag(2, 1+c14Pag(n, 1)) }},
}

// Harness_C14_variables: the gate end to end through the real executor
// (CreateOperationContext with the ComplexityLimit extension installed): an
// argument supplied through a request variable (as int64 or json.Number,
// with or without a declared default) costs exactly what the same literal
// costs; rejected iff that complexity exceeds the (symbolic) limit, and a
// rejected operation is never dispatched.
func Harness_C14_variables() {
	ci := zzsym.Choice("case", len(c14VarCases))
	c := c14VarCases[ci]
	n := []int64{0, 1, 9, 1000}[zzsym.Choice("n", 4)]
	form := zzsym.Choice("numform", 2)
	limit := zzsym.Int("limit")
	es := &c14VarES{}
	ex := executor.New(es)
	var seen *ComplexityStats
	ex.Use(&ComplexityLimit{Func: func(ctx context.Context, opCtx *graphql.OperationContext) int { return limit }})
	if zzsym.Choice("others", 2) == 1 {
		// another extension that looks at the operation context is installed after the limit: the limit's verdict stands
		ex.Use(Introspection{})
	}
	ctx := graphql.StartOperationTrace(context.Background())
	if zzsym.Choice("cancelled", 2) == 1 {
		// the caller has gone away before the gate is asked: its verdict is the same
		cctx, cancel := context.WithCancel(ctx)
		cancel()
		ctx = cctx
	}
	if prior := zzsym.Choice("prior", 3); prior > 0 {
		// the same text was served before with another value of the variable, with a query cache (the parsed
		// document is shared between the two requests): the gate judges each request by its own variables
		ex.SetQueryCache(graphql.MapCache[*ast.QueryDocument]{})
		other := []int64{1000, 0}[prior-1]
		rc0, errs0 := ex.CreateOperationContext(ctx, &graphql.RawParams{Query: c.query, Variables: c.vars(other, form)})
		if len(errs0) == 0 {
			h0, hctx0 := ex.DispatchOperation(ctx, rc0)
			h0(hctx0)
		}
		es.execs = 0
	}
	rc, errs := ex.CreateOperationContext(ctx, &graphql.RawParams{Query: c.query, Variables: c.vars(n, form)})
	want := c.cost(n)
	if rc != nil {
		seen, _ = rc.Stats.GetExtension(complexityExtension).(*ComplexityStats)
	}
	zzsym.Assert((len(errs) != 0) == (want > limit), "an operation is rejected exactly when its complexity (with the request's variable values) exceeds the limit")
	if len(errs) == 0 {
		zzsym.Assert(seen != nil && seen.Complexity == want, "the recorded complexity is the documented one for the request's variable values")
		h, hctx := ex.DispatchOperation(ctx, rc)
		h(hctx)
		zzsym.Assert(es.execs == 1, "an accepted operation is dispatched")
		zzsym.Reach("c14.vars.accepted")
	} else {
		zzsym.Assert(es.execs == 0, "a rejected operation executes nothing")
		zzsym.Reach("c14.vars.rejected")
	}
}
