package extension

import (
	"context"
	"crypto/sha256"
	"encoding/hex"
	"encoding/json"
	"strings"
	"sync"

	"github.com/vektah/gqlparser/v2/gqlerror"

	"github.com/99designs/gqlgen/graphql"
	"github.com/99designs/gqlgen/graphql/handler/lru"
	"github.com/99designs/gqlgen/zzsym"
)

func c15Hash(s string) string {
	b := sha256.Sum256([]byte(s))
	return hex.EncodeToString(b[:])
}

var c15Texts = []string{"{a}", "{b}"}

// c15Cache: an APQ store in an arbitrary state satisfying the invariant
// "every entry's key is the SHA-256 of its text"; Add checks the invariant.
type c15Cache struct {
	m    map[string]string
	adds int
}

func (c *c15Cache) Get(ctx context.Context, key string) (string, bool) {
	v, ok := c.m[key]
	return v, ok
}

func (c *c15Cache) Add(ctx context.Context, key string, value string) {
	c.adds++
	zzsym.Assert(c15Hash(value) == key, "APQ registers a text only under its own SHA-256")
	c.m[key] = value
}

// Harness_C15_apq: one request from an arbitrary invariant-satisfying cache
// state: query text in {empty, {a}, {b}}, extension in {absent, malformed,
// wrong version, version as json.Number/float, hash of {a} / {b} / garbage /
// missing / non-string}.
func Harness_C15_apq() {
	cache := &c15Cache{m: map[string]string{}}
	pre := zzsym.Choice("prestate", 4)
	if pre&1 != 0 {
		cache.m[c15Hash(c15Texts[0])] = c15Texts[0]
	}
	if pre&2 != 0 {
		cache.m[c15Hash(c15Texts[1])] = c15Texts[1]
	}
	a := AutomaticPersistedQuery{Cache: cache}
	text := ""
	if t := zzsym.Choice("text", 5); t > 0 {
		// {a}, {b}, and texts that are not empty but blank: they are texts (to be checked against the hash), not hash-only requests
		text = []string{c15Texts[0], c15Texts[1], " ", "\n\t"}[t-1]
	}
	p := &graphql.RawParams{Query: text}
	hashSent := ""
	wellFormed := false
	switch zzsym.Choice("ext", 18) {
	case 17:
		// the blank text's own hash
		hashSent, wellFormed = c15Hash(" "), true
		p.Extensions = map[string]any{"persistedQuery": map[string]any{"sha256Hash": hashSent, "version": json.Number("1")}}
	case 11, 12, 13, 14, 15, 16:
		// near misses of the hash of {a}: other letter case, extra digits, trailing / leading junk, one digit short
		ha := c15Hash(c15Texts[0])
		hashSent, wellFormed = []string{strings.ToUpper(ha), ha + "0", ha + "zz", " " + ha, ha[:63], ha + "00"}[zzsym.Choice("near", 6)], true
		p.Extensions = map[string]any{"persistedQuery": map[string]any{"sha256Hash": hashSent, "version": json.Number("1")}}
	case 0: // no extensions at all
	case 1:
		p.Extensions = map[string]any{"persistedQuery": "x"}
	case 2:
		p.Extensions = map[string]any{"persistedQuery": map[string]any{"sha256Hash": c15Hash(c15Texts[0])}} // no version
	case 3:
		p.Extensions = map[string]any{"persistedQuery": map[string]any{"sha256Hash": c15Hash(c15Texts[0]), "version": json.Number("2")}}
	case 4:
		hashSent, wellFormed = c15Hash(c15Texts[0]), true
		p.Extensions = map[string]any{"persistedQuery": map[string]any{"sha256Hash": hashSent, "version": json.Number("1")}}
	case 5:
		hashSent, wellFormed = c15Hash(c15Texts[1]), true
		p.Extensions = map[string]any{"persistedQuery": map[string]any{"sha256Hash": hashSent, "version": float64(1)}}
	case 6:
		hashSent, wellFormed = "zz", true
		p.Extensions = map[string]any{"persistedQuery": map[string]any{"sha256Hash": hashSent, "version": int64(1)}}
	case 7:
		hashSent, wellFormed = "", true // hash member missing
		p.Extensions = map[string]any{"persistedQuery": map[string]any{"version": json.Number("1")}}
	case 8:
		p.Extensions = map[string]any{"persistedQuery": map[string]any{"sha256Hash": 7, "version": json.Number("1")}}
	case 9:
		p.Extensions = map[string]any{"persistedQuery": map[string]any{"sha256Hash": c15Hash(c15Texts[0]), "version": "1"}}
	case 10:
		p.Extensions = map[string]any{"other": 1}
	}
	ctx := graphql.WithOperationContext(context.Background(), &graphql.OperationContext{})
	before := len(cache.m)
	gerr := a.MutateOperationParameters(ctx, p)

	for k, v := range cache.m {
		zzsym.Assert(c15Hash(v) == k, "cache invariant holds after the request")
	}
	if !wellFormed {
		zzsym.Assert(cache.adds == 0 && len(cache.m) == before, "a request without a well-formed APQ extension registers nothing")
		zzsym.Assert(p.Query == text, "and its query text is untouched")
		if _, has := p.Extensions["persistedQuery"]; has {
			// malformed, no version, another version, a hash that is not a string: refused - whether or not a text came with it
			zzsym.Assert(gerr != nil, "a persistedQuery extension that is malformed or of an unsupported version is refused, never served as a plain request")
		} else {
			zzsym.Assert(gerr == nil, "a request without a persistedQuery extension is none of APQ's business")
		}
		zzsym.Reach("apq.noext")
		return
	}
	if text == "" {
		// hash only: executes exactly the text registered under that hash, or NotFound
		if gerr == nil {
			zzsym.Assert(p.Query != "" && c15Hash(p.Query) == hashSent, "a hash-only request resolves to text whose SHA-256 is that hash")
			zzsym.Reach("apq.hit")
		} else {
			zzsym.Assert(gerr.Message == errPersistedQueryNotFound, "an unknown hash is answered PersistedQueryNotFound")
			zzsym.Assert(p.Query == "", "nothing to execute")
			zzsym.Reach("apq.notfound")
		}
		zzsym.Assert(cache.adds == 0, "a hash-only request registers nothing")
		return
	}
	if c15Hash(text) == hashSent {
		zzsym.Assert(gerr == nil && cache.adds == 1 && cache.m[hashSent] == text, "text with its own hash is accepted and registered")
		zzsym.Reach("apq.registered")
	} else {
		zzsym.Assert(gerr != nil, "text whose hash does not match is rejected")
		zzsym.Assert(cache.adds == 0 && len(cache.m) == before, "and registers nothing")
		zzsym.Reach("apq.mismatch")
	}
}

// Harness_C15_history: explicit histories of 2..3 requests from an empty
// store over {text only, text+own hash, text+other text's hash, hash only} x 2
// texts: whatever came before, a hash-only request executes the text that was
// sent with that same hash or is answered NotFound, and the store never maps a
// hash to a text with a different SHA-256.
func Harness_C15_history() {
	cache := &c15Cache{m: map[string]string{}}
	a := AutomaticPersistedQuery{Cache: cache}
	n := zzsym.Param("hist", 2)
	registered := map[string]string{} // what a correct store may hold: hash -> text sent with exactly that hash
	for k := 0; k < n; k++ {
		ti := zzsym.Choice("text", 2)
		hi := zzsym.Choice("hashOf", 2)
		mode := zzsym.Choice("mode", 4)
		p := &graphql.RawParams{}
		h := c15Hash(c15Texts[hi])
		switch mode {
		case 0:
			p.Query = c15Texts[ti]
		case 1:
			p.Query = c15Texts[ti]
			p.Extensions = map[string]any{"persistedQuery": map[string]any{"sha256Hash": c15Hash(c15Texts[ti]), "version": json.Number("1")}}
			h = c15Hash(c15Texts[ti])
		case 2:
			p.Query = c15Texts[ti]
			p.Extensions = map[string]any{"persistedQuery": map[string]any{"sha256Hash": h, "version": json.Number("1")}}
		case 3:
			p.Extensions = map[string]any{"persistedQuery": map[string]any{"sha256Hash": h, "version": json.Number("1")}}
		}
		ctx := graphql.WithOperationContext(context.Background(), &graphql.OperationContext{})
		gerr := a.MutateOperationParameters(ctx, p)
		switch mode {
		case 1:
			zzsym.Assert(gerr == nil, "text with its own hash is accepted")
			registered[h] = c15Texts[ti]
		case 2:
			if hi == ti {
				zzsym.Assert(gerr == nil, "text with its own hash is accepted")
				registered[h] = c15Texts[ti]
			} else {
				zzsym.Assert(gerr != nil, "text with another text's hash is rejected")
			}
		case 3:
			if want, ok := registered[h]; ok {
				zzsym.Assert(gerr == nil && p.Query == want, "a hash-only request executes exactly the text registered with that hash")
				zzsym.Reach("apq.history.hit")
			} else {
				zzsym.Assert(gerr != nil && gerr.Message == errPersistedQueryNotFound, "an unregistered hash is answered PersistedQueryNotFound")
			}
		}
		for hk, tv := range cache.m {
			zzsym.Assert(registered[hk] == tv, "the store holds exactly the (hash, text) pairs that were sent together")
		}
	}
	zzsym.Reach("apq.history")
}

// c15Locked is a goroutine-safe APQ store (like the LRU the default server uses).
type c15Locked struct {
	mu sync.Mutex
	m  map[string]string
}

func (c *c15Locked) Get(ctx context.Context, k string) (string, bool) {
	c.mu.Lock()
	defer c.mu.Unlock()
	v, ok := c.m[k]
	return v, ok
}
func (c *c15Locked) Add(ctx context.Context, k string, v string) {
	c.mu.Lock()
	c.m[k] = v
	c.mu.Unlock()
}

// Harness_C15_concurrent: two clients send text + hash at the same time
// through one extension value: whatever the interleaving, each request is
// accepted exactly when its own text hashes to its own hash, and the store
// never binds a hash to another text; the extension's shared state is free
// of data races.
func Harness_C15_concurrent() {
	texts := []string{"{a}", "{b}"}
	store := &c15Locked{m: map[string]string{}}
	a := AutomaticPersistedQuery{Cache: store}
	type req struct {
		text, hash string
		err        *gqlerror.Error
	}
	mk := func(name string) *req {
		t := texts[zzsym.Choice(name+".text", 2)]
		h := c15Hash(t)
		if zzsym.Choice(name+".hash", 2) == 1 {
			h = c15Hash(texts[0])
			if t == texts[0] {
				h = c15Hash(texts[1])
			}
		}
		return &req{text: t, hash: h}
	}
	r1, r2 := mk("r1"), mk("r2")
	var wg sync.WaitGroup
	run := func(r *req) {
		defer wg.Done()
		ctx := graphql.WithOperationContext(context.Background(), &graphql.OperationContext{})
		p := &graphql.RawParams{Query: r.text, Extensions: map[string]any{"persistedQuery": map[string]any{"version": 1, "sha256Hash": r.hash}}}
		r.err = a.MutateOperationParameters(ctx, p)
	}
	wg.Add(2)
	go run(r1)
	go run(r2)
	wg.Wait()
	for _, r := range []*req{r1, r2} {
		zzsym.Assert((r.err == nil) == (c15Hash(r.text) == r.hash), "a request is accepted exactly when its text hashes to its hash, whatever runs beside it")
	}
	for k, v := range store.m {
		zzsym.Assert(c15Hash(v) == k, "the store maps a hash only to the text with that SHA-256")
	}
	zzsym.Reach("apq.concurrent")
}

// Harness_C15_concurrentLookups: two texts are registered in the real LRU
// (graphql/handler/lru); then two clients send hash-only requests at the same
// time (same or different hashes, after an optional earlier lookup that made
// one of them the most recent hit): whatever the interleaving - preemptions
// at locks and atomic operations included - each request resolves to the
// text whose SHA-256 is the hash it sent.
func Harness_C15_concurrentLookups() {
	texts := []string{"{a}", "{b}"}
	store := lru.New[string](8)
	a := AutomaticPersistedQuery{Cache: store}
	for _, t := range texts {
		store.Add(context.Background(), c15Hash(t), t)
	}
	if w := zzsym.Choice("warm", 3); w > 0 {
		store.Get(context.Background(), c15Hash(texts[w-1]))
	}
	type req struct {
		hash, got string
		err       *gqlerror.Error
	}
	r1 := &req{hash: c15Hash(texts[zzsym.Choice("r1", 2)])}
	r2 := &req{hash: c15Hash(texts[zzsym.Choice("r2", 2)])}
	var wg sync.WaitGroup
	run := func(r *req) {
		defer wg.Done()
		ctx := graphql.WithOperationContext(context.Background(), &graphql.OperationContext{})
		p := &graphql.RawParams{Extensions: map[string]any{"persistedQuery": map[string]any{"version": 1, "sha256Hash": r.hash}}}
		r.err = a.MutateOperationParameters(ctx, p)
		r.got = p.Query
	}
	wg.Add(2)
	go run(r1)
	go run(r2)
	wg.Wait()
	for _, r := range []*req{r1, r2} {
		zzsym.Assert(r.err == nil && c15Hash(r.got) == r.hash, "a hash-only request resolves to the text with that SHA-256, whatever runs beside it")
	}
	zzsym.Reach("apq.lookups")
}

// pairs of texts whose SHA-256 hex strings (the registry's keys) collide under the 32-bit checksums of the standard library
// (CRC-32 IEEE / Castagnoli, FNV-1a / FNV-1, Adler-32), found by search: whatever the registry does with its keys, a hash
// resolves only to the text with that SHA-256
var c15Colliding = [][2]string{
	{"{ q38770: me { name } }", "{ q69095: me { name } }"},
	{"{ q11716: me { name } }", "{ q78912: me { name } }"},
	{"{ q22058: me { name } }", "{ q92842: me { name } }"},
	{"{ q129789: me { name } }", "{ q144367: me { name } }"},
	{"{ q1062: me { name } }", "{ q2927: me { name } }"},
}

// Harness_C15_collidingKeys: both texts of such a pair are registered (each
// with its own hash) in the real LRU; then each hash is sent alone, in
// either order: it resolves to its own text.
func Harness_C15_collidingKeys() {
	pair := c15Colliding[zzsym.Choice("pair", len(c15Colliding))]
	a := AutomaticPersistedQuery{Cache: lru.New[string](100)}
	send := func(text, hash string) (string, *gqlerror.Error) {
		ctx := graphql.WithOperationContext(context.Background(), &graphql.OperationContext{})
		p := &graphql.RawParams{Query: text, Extensions: map[string]any{"persistedQuery": map[string]any{"version": 1, "sha256Hash": hash}}}
		err := a.MutateOperationParameters(ctx, p)
		return p.Query, err
	}
	first := zzsym.Choice("registeredFirst", 2)
	for _, k := range []int{first, 1 - first} {
		_, err := send(pair[k], c15Hash(pair[k]))
		zzsym.Assert(err == nil, "a text with its own hash is accepted")
	}
	asked := zzsym.Choice("asked", 2)
	got, err := send("", c15Hash(pair[asked]))
	zzsym.Assert(err == nil && got == pair[asked], "a hash resolves to the text with that SHA-256, not to another registered text")
	zzsym.Reach("apq.colliding")
}
