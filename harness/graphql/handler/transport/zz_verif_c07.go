package transport

import (
	"bytes"
	"context"
	"io"
	"net/http"
	"net/url"
	"strings"

	"github.com/vektah/gqlparser/v2/gqlerror"

	"github.com/99designs/gqlgen/graphql"
	"github.com/99designs/gqlgen/zzsym"
)

// c07Exec is a GraphExecutor fake: it records the parameters each request
// presents and answers with an arbitrary outcome.
type c07Exec struct {
	outcome  int // 0 ok, 1 CreateOperationContext rejects, 2 DispatchOperation panics, 3 CreateOperationContext panics
	seen     []graphql.RawParams
	onCreate func(p *graphql.RawParams)
}

func (e *c07Exec) CreateOperationContext(ctx context.Context, params *graphql.RawParams) (*graphql.OperationContext, gqlerror.List) {
	cp := *params
	e.seen = append(e.seen, cp)
	if e.onCreate != nil {
		e.onCreate(params)
	}
	switch e.outcome {
	case 1:
		return &graphql.OperationContext{}, gqlerror.List{gqlerror.Errorf("rejected")}
	case 3:
		panic("user code panicked in a parameter mutator")
	}
	return &graphql.OperationContext{}, nil
}

func (e *c07Exec) DispatchOperation(ctx context.Context, opCtx *graphql.OperationContext) (graphql.ResponseHandler, context.Context) {
	if e.outcome == 2 {
		panic("user code panicked in an operation interceptor")
	}
	return graphql.OneShot(&graphql.Response{Data: []byte(`{}`)}), ctx
}

func (e *c07Exec) DispatchError(ctx context.Context, list gqlerror.List) *graphql.Response {
	return &graphql.Response{Errors: list}
}

type c07Writer struct {
	hdr    http.Header
	status int
	body   bytes.Buffer
}

func (w *c07Writer) Header() http.Header { return w.hdr }
func (w *c07Writer) WriteHeader(code int) {
	if w.status == 0 {
		w.status = code
	}
}
func (w *c07Writer) Write(p []byte) (int, error) { return w.body.Write(p) }

type c07Body struct {
	text    string
	decodes bool // reaches the executor
	query   string
	op      string
	vars    bool // Variables non-nil
	ext     bool // Extensions non-nil
}

var c07Bodies = []c07Body{
	{`{"query":"{a}","operationName":"A","variables":{"x":1},"extensions":{"e":true}}`, true, "{a}", "A", true, true},
	{`{"query":"{b}"}`, true, "{b}", "", false, false},
	{`{"operationName":"OnlyName"}`, true, "", "OnlyName", false, false},
	{`{"variables":{"y":2}}`, true, "", "", true, false},
	{`{"extensions":{"persistedQuery":{"version":1,"sha256Hash":"h"}}}`, true, "", "", false, true},
	{`{"query":"{c}","variables":null,"extensions":null}`, true, "{c}", "", false, false},
	{`{"query":"{d}","headers":{"X-Leak":["1"]}}`, true, "{d}", "", false, false},
	{`{"query":"{e}","variables":7}`, false, "", "", false, false},
	{`{"query":`, false, "", "", false, false},
	{`null`, true, "", "", false, false},
	{``, false, "", "", false, false},
}

func c07Post(body string, hdr string, ex *c07Exec) (panicked bool) {
	r := &http.Request{Method: "POST", Header: http.Header{}, URL: &url.URL{Path: "/"}, Body: io.NopCloser(strings.NewReader(body))}
	r.Header.Set("Content-Type", "application/json")
	if hdr != "" {
		r.Header.Set("X-Req", hdr)
	}
	w := &c07Writer{hdr: http.Header{}}
	defer func() {
		if rec := recover(); rec != nil {
			panicked = true
		}
	}()
	POST{}.Do(w, r, ex)
	return false
}

func c07Zero(p *graphql.RawParams) bool {
	return p.Query == "" && p.OperationName == "" && p.Variables == nil && p.Extensions == nil && p.Headers == nil &&
		p.ReadTime.Start.IsZero() && p.ReadTime.End.IsZero()
}

// Harness_C07_postPool (one-step induction): the pooled parameter object
// handed to a request is all-zero; whatever the body holds and however the
// executor ends (success, rejection, panic in user code before or after
// dispatch), the object that goes back to the pool is all-zero again.
func Harness_C07_postPool() {
	pooled := &graphql.RawParams{}
	pool.Put(pooled)
	ex := &c07Exec{outcome: zzsym.Choice("outcome", 4)}
	body := c07Bodies[zzsym.Choice("body", len(c07Bodies))]
	c07Post(body.text, "one", ex)
	got := pool.Get().(*graphql.RawParams)
	if !zzsym.Symbolic() && got != pooled {
		zzsym.Assume(false) // the real sync.Pool may hand out a fresh object (goroutine moved between Ps): nothing to observe
	}
	zzsym.Assert(got == pooled, "the request used the pooled object and returned it")
	zzsym.Assert(c07Zero(got), "the object returned to the pool is all-zero on every exit")
	zzsym.Reach("pool.checked")
}

// Harness_C07_postHistory: two requests through one pool (any first body,
// any executor outcome for it): what the executor is given for the second
// request is exactly what that request alone contains.
func Harness_C07_postHistory() {
	first := c07Bodies[zzsym.Choice("first", len(c07Bodies))]
	second := c07Bodies[zzsym.Choice("second", len(c07Bodies))]
	ex1 := &c07Exec{outcome: zzsym.Choice("outcome1", 4)}
	c07Post(first.text, "one", ex1)
	if zzsym.Param("hist", 2) >= 3 {
		mid := c07Bodies[zzsym.Choice("mid", len(c07Bodies))]
		c07Post(mid.text, "mid", &c07Exec{outcome: zzsym.Choice("outcomeMid", 4)})
	}
	ex2 := &c07Exec{}
	c07Post(second.text, "two", ex2)
	if !second.decodes {
		zzsym.Assert(len(ex2.seen) == 0, "an undecodable body never reaches the executor")
		zzsym.Reach("history.rejected")
		return
	}
	zzsym.Assert(len(ex2.seen) == 1, "a decodable body reaches the executor once")
	got := ex2.seen[0]
	zzsym.Assert(got.Query == second.query && got.OperationName == second.op, "query text and operation name come from this request only")
	zzsym.Assert((got.Variables != nil) == second.vars && (got.Extensions != nil) == second.ext, "variables and extensions come from this request only")
	if second.text == c07Bodies[6].text {
		zzsym.Reach("history.headers-in-body")
	} else {
		zzsym.Assert(got.Headers.Get("X-Req") == "two" && got.Headers.Get("X-Leak") == "", "headers come from this request only")
	}
	zzsym.Reach("history.compared")
}
