package transport

import (
	"bytes"
	"errors"
	"io"
	"mime/multipart"
	"net/http"
	"net/textproto"
	"net/url"
	"os"
	"strings"

	"github.com/99designs/gqlgen/graphql"
	"github.com/99designs/gqlgen/zzsym"
)

// ---- environment of MultipartForm.Do. Under the engine the concrete
// dependency types (multipart.Reader/Part, os.File, http.MaxBytesReader)
// are replaced by the stubs below, driven by mpEnv; natively the same
// scenario is rendered as a real multipart body and a private TMPDIR.

type mpPart struct {
	name, filename, ctype string
	data                  []byte
	truncated             bool // reading this part fails half way (body ends inside it)
}

type mpFile struct {
	name    string
	data    []byte
	removed bool
}

type mpHandle struct {
	f      *mpFile
	off    int
	closed bool
	write  bool
}

type mpEnvT struct {
	parts      []mpPart
	next       int
	readers    map[*multipart.Part]*mpPartReader
	files      []*mpFile
	handles    map[*os.File]*mpHandle
	nextParts  int
	failCreate bool
	failOpen   bool
	failClose  bool
	body       io.ReadCloser // what the multipart reader reads from
}

type mpPartReader struct {
	p   *mpPart
	off int
}

var mpEnv *mpEnvT

// like the real one, the multipart reader reads from the body the request
// holds at the moment MultipartReader is called
//
//sym:stub (*net/http.Request).MultipartReader
func Stub_MultipartReader(r *http.Request) (*multipart.Reader, error) {
	mpEnv.body = r.Body
	return &multipart.Reader{}, nil
}

// mpLimited is the stub's MaxBytesReader: a budget that the part reads of a
// multipart reader created over it consume.
type mpLimited struct {
	io.ReadCloser
	left int64
}

//sym:stub net/http.MaxBytesReader
func Stub_MaxBytesReader(w http.ResponseWriter, r io.ReadCloser, n int64) io.ReadCloser {
	return &mpLimited{ReadCloser: r, left: n}
}

// mpConsume charges k body bytes to the limit in front of the multipart reader, if any.
func mpConsume(k int) error {
	if lim, ok := mpEnv.body.(*mpLimited); ok {
		lim.left -= int64(k)
		if lim.left < 0 {
			return errors.New("http: request body too large")
		}
	}
	return nil
}

//sym:stub (*mime/multipart.Reader).NextPart
func Stub_NextPart(r *multipart.Reader) (*multipart.Part, error) {
	e := mpEnv
	e.nextParts++
	if e.next >= len(e.parts) {
		return nil, io.EOF
	}
	p := &e.parts[e.next]
	e.next++
	h := textproto.MIMEHeader{}
	cd := `form-data; name="` + p.name + `"`
	if p.filename != "" {
		cd += `; filename="` + p.filename + `"`
	}
	h.Set("Content-Disposition", cd)
	if p.ctype != "" {
		h.Set("Content-Type", p.ctype)
	}
	part := &multipart.Part{Header: h}
	e.readers[part] = &mpPartReader{p: p}
	return part, nil
}

//sym:stub (*mime/multipart.Part).Read
func Stub_PartRead(p *multipart.Part, d []byte) (int, error) {
	r := mpEnv.readers[p]
	limit := len(r.p.data)
	if r.p.truncated {
		limit = limit / 2
	}
	if r.off >= limit {
		if r.p.truncated {
			return 0, io.ErrUnexpectedEOF
		}
		return 0, io.EOF
	}
	n := copy(d, r.p.data[r.off:limit])
	r.off += n
	if err := mpConsume(n); err != nil {
		return 0, err
	}
	return n, nil
}

//sym:stub os.CreateTemp
func Stub_CreateTemp(dir, pattern string) (*os.File, error) {
	e := mpEnv
	if e.failCreate {
		return nil, errors.New("no space left on device")
	}
	f := &mpFile{name: "/tmp/gqlgen-" + string(rune('a'+len(e.files)))}
	e.files = append(e.files, f)
	h := &os.File{}
	e.handles[h] = &mpHandle{f: f, write: true}
	return h, nil
}

//sym:stub os.TempDir
func Stub_TempDir() string { return "/tmp" }

//sym:stub (*os.File).Name
func Stub_FileName(f *os.File) string { return mpEnv.handles[f].f.name }

//sym:stub (*os.File).ReadFrom
func Stub_FileReadFrom(f *os.File, r io.Reader) (int64, error) {
	h := mpEnv.handles[f]
	buf := make([]byte, 4)
	var n int64
	for {
		k, err := r.Read(buf)
		h.f.data = append(h.f.data, buf[:k]...)
		n += int64(k)
		if err == io.EOF {
			return n, nil
		}
		if err != nil {
			return n, err
		}
	}
}

//sym:stub (*os.File).Close
func Stub_FileClose(f *os.File) error {
	h := mpEnv.handles[f]
	if h.closed {
		return errors.New("file already closed")
	}
	h.closed = true
	if h.write && mpEnv.failClose {
		return errors.New("close failed")
	}
	return nil
}

//sym:stub os.Open
func Stub_Open(name string) (*os.File, error) {
	e := mpEnv
	if e.failOpen {
		return nil, errors.New("too many open files")
	}
	for _, f := range e.files {
		if f.name == name && !f.removed {
			h := &os.File{}
			e.handles[h] = &mpHandle{f: f}
			return h, nil
		}
	}
	return nil, errors.New("no such file")
}

//sym:stub os.Remove
func Stub_Remove(name string) error {
	for _, f := range mpEnv.files {
		if f.name == name && !f.removed {
			f.removed = true
			return nil
		}
	}
	return errors.New("no such file")
}

//sym:stub (*os.File).Read
func Stub_FileRead(f *os.File, d []byte) (int, error) {
	h := mpEnv.handles[f]
	if h.off >= len(h.f.data) {
		return 0, io.EOF
	}
	n := copy(d, h.f.data[h.off:])
	h.off += n
	return n, nil
}

type mpLayout struct {
	parts []mpPart
	ok    bool     // a well-formed upload that must reach the executor
	paths []string // variable paths that must hold file 0 (in map order)
}

func mpOps(vars string) mpPart {
	return mpPart{name: "operations", data: []byte(`{"query":"mutation($a: Upload, $b: Upload){ up }","variables":` + vars + `}`)}
}

func mpLayouts() []mpLayout {
	f0 := mpPart{name: "0", filename: "a.txt", ctype: "text/plain", data: []byte("hello world!")}
	f1 := mpPart{name: "1", filename: "b.bin", ctype: "application/octet-stream", data: []byte{0, 1, 2, 255}}
	f0t := f0
	f0t.truncated = true
	return []mpLayout{
		{parts: []mpPart{mpOps(`{"a":null}`), {name: "map", data: []byte(`{"0":["variables.a"]}`)}, f0}, ok: true, paths: []string{"a"}},
		{parts: []mpPart{mpOps(`{"a":null,"b":null}`), {name: "map", data: []byte(`{"0":["variables.a","variables.b"]}`)}, f0}, ok: true, paths: []string{"a", "b"}},
		{parts: []mpPart{{name: "map", data: []byte(`{"0":["variables.a"]}`)}, mpOps(`{"a":null}`), f0}},
		{parts: []mpPart{mpOps(`{"a":null}`)}},
		{parts: []mpPart{mpOps(`{"a":null}`), {name: "map", data: []byte(`{"0":["variables.a"]}`)}}},
		{parts: []mpPart{mpOps(`{"a":null}`), {name: "map", data: []byte(`{"0":["variables.a"]}`)}, f1}},
		{parts: []mpPart{{name: "operations", data: []byte(`{"query":`)}, {name: "map", data: []byte(`{}`)}}},
		{parts: []mpPart{mpOps(`{"a":null}`), {name: "map", data: []byte(`{"0":"variables.a"}`)}, f0}},
		{parts: []mpPart{mpOps(`{"a":null,"b":null}`), {name: "map", data: []byte(`{"0":["variables.a"],"1":["variables.b"]}`)}, f0, f1}, ok: true, paths: []string{"a"}},
		{parts: []mpPart{mpOps(`{"a":null,"b":null}`), {name: "map", data: []byte(`{"0":["variables.a"],"1":["variables.b"]}`)}, f0, func() mpPart { t := f1; t.data = []byte("0123456789"); t.truncated = true; return t }()}},
		{parts: []mpPart{mpOps(`{"a":null}`), {name: "map", data: []byte(`{"0":["variables.a"]}`)}, f0t}},
		{parts: []mpPart{mpOps(`{"a":7}`), {name: "map", data: []byte(`{"0":["variables.a.x"]}`)}, f0}},
	}
}

// mpBody renders the scenario as real multipart bytes (native runs).
func mpBody(parts []mpPart) (string, string) {
	var buf bytes.Buffer
	mw := multipart.NewWriter(&buf)
	cut := -1
	for _, p := range parts {
		h := textproto.MIMEHeader{}
		cd := `form-data; name="` + p.name + `"`
		if p.filename != "" {
			cd += `; filename="` + p.filename + `"`
		}
		h.Set("Content-Disposition", cd)
		if p.ctype != "" {
			h.Set("Content-Type", p.ctype)
		}
		w, _ := mw.CreatePart(h)
		if p.truncated {
			w.Write(p.data[:len(p.data)/2])
			cut = buf.Len()
			break
		}
		w.Write(p.data)
	}
	if cut < 0 {
		mw.Close()
		return buf.String(), mw.Boundary()
	}
	return buf.String()[:cut], mw.Boundary()
}

func mpLeftovers(dir string) int {
	if zzsym.Symbolic() {
		n := 0
		for _, f := range mpEnv.files {
			if !f.removed {
				n++
			}
		}
		return n
	}
	es, _ := os.ReadDir(dir)
	return len(es)
}

// Harness_C10_multipartForm: 12 part layouts (well-formed with one file to
// one or two paths / two files; swapped, missing, unmapped, undecodable
// parts; a body that ends inside a file) x in-memory / spill-to-disk x
// over-limit requests x (engine only) failing CreateTemp / Open / Close:
// never the recover path, a JSON answer, the size limit enforced before any
// part is read, every temporary file removed and every handle closed on
// every exit, and a well-formed upload hands each mapped path the file's
// exact bytes, name and content type through its own reader.
func Harness_C10_multipartForm() {
	layouts := mpLayouts()
	li := zzsym.Choice("layout", len(layouts))
	lay := layouts[li]
	spill := zzsym.Choice("spill", 2) == 1
	tooLarge := zzsym.Choice("toolarge", 4) == 3
	chunked := zzsym.Choice("chunked", 2) == 1 // no Content-Length: only the reader in front of the body can enforce the limit
	if chunked && spill {
		zzsym.Assume(false) // without a Content-Length files are always held in memory: nothing spills
	}
	mpEnv = &mpEnvT{parts: lay.parts, readers: map[*multipart.Part]*mpPartReader{}, handles: map[*os.File]*mpHandle{}}
	if spill {
		osf := zzsym.Choice("osfault", 4)
		if osf != 0 && !zzsym.Symbolic() {
			zzsym.Assume(false) // operating-system faults can only be injected under the engine
		}
		switch osf {
		case 1:
			mpEnv.failCreate = true
		case 2:
			mpEnv.failOpen = true
		case 3:
			mpEnv.failClose = true
		}
	}
	osFault := mpEnv.failCreate || mpEnv.failOpen || mpEnv.failClose
	tmp := ""
	if !zzsym.Symbolic() {
		d, err := os.MkdirTemp("", "verif-c10-")
		if err != nil {
			panic(err)
		}
		tmp = d
		old := os.Getenv("TMPDIR")
		os.Setenv("TMPDIR", d)
		defer func() { os.Setenv("TMPDIR", old); os.RemoveAll(d) }()
	}
	body, boundary := "(rendered natively only)", "x"
	if !zzsym.Symbolic() {
		body, boundary = mpBody(lay.parts)
	}
	r := &http.Request{Method: "POST", Header: http.Header{}, URL: &url.URL{Path: "/"}, Body: io.NopCloser(strings.NewReader(body))}
	r.Header.Set("Content-Type", "multipart/form-data; boundary="+boundary)
	r.ContentLength = int64(len(body))
	if chunked {
		r.ContentLength = -1
	}
	t := MultipartForm{MaxUploadSize: 1 << 20, MaxMemory: 1 << 20}
	if spill {
		t.MaxMemory = 1
	}
	if tooLarge {
		t.MaxUploadSize = 8
	}
	ex := &c07Exec{}
	read := map[string][]byte{}
	ex.onCreate = func(p *graphql.RawParams) {
		// the uploads are consumed while the request is being handled
		for _, path := range lay.paths {
			if u, ok := p.Variables[path].(graphql.Upload); ok {
				b, err := io.ReadAll(u.File)
				if err == nil {
					read[path] = b
				}
			}
		}
	}
	w := &c07Writer{hdr: http.Header{}}
	zzsym.Assert(t.Supports(r), "the request is a multipart/form-data request")
	panicked := func() (p bool) {
		defer func() {
			if rec := recover(); rec != nil {
				p = true
			}
		}()
		t.Do(w, r, ex)
		return false
	}()
	zzsym.Assert(!panicked, "no panic on any multipart form")
	b := w.body.Bytes()
	zzsym.Assert(len(b) > 0 && b[0] == '{', "the answer is a JSON object")
	zzsym.Assert(mpLeftovers(tmp) == 0, "every temporary file is removed on every exit")
	if zzsym.Symbolic() {
		for _, h := range mpEnv.handles {
			zzsym.Assert(h.closed || mpEnv.failClose, "every opened file is closed")
		}
	}
	if tooLarge {
		zzsym.Assert(len(ex.seen) == 0, "an over-limit request executes nothing")
		if zzsym.Symbolic() && !chunked {
			zzsym.Assert(mpEnv.nextParts == 0, "with a Content-Length the size limit is enforced before any part is read")
		}
		zzsym.Reach("form.toolarge")
		return
	}
	if !lay.ok || osFault {
		zzsym.Assert(len(ex.seen) == 0 && w.status == 422, "a malformed upload is a client error and executes nothing")
		zzsym.Reach("form.rejected")
		return
	}
	zzsym.Assert(len(ex.seen) == 1, "a well-formed upload reaches the executor once")
	vars := ex.seen[0].Variables
	f0 := lay.parts[2]
	for _, p := range lay.paths {
		u, ok := vars[p].(graphql.Upload)
		zzsym.Assert(ok, "each mapped variable path holds an Upload")
		zzsym.Assert(u.Filename == f0.filename && u.ContentType == f0.ctype && u.Size == int64(len(f0.data)), "the upload carries the file's name, content type and size")
		got, ok := read[p]
		zzsym.Assert(ok && bytes.Equal(got, f0.data), "each path reads the file's exact bytes through its own reader")
	}
	zzsym.Reach("form.ok")
}
