package transport

import (
	"bytes"
	"context"
	"encoding/json"
	"io"
	"net/http"
	"net/url"
	"strings"
	"time"

	"github.com/vektah/gqlparser/v2/gqlerror"

	"github.com/99designs/gqlgen/graphql"
	"github.com/99designs/gqlgen/zzsym"
)

// c12Writer is a flushing ResponseWriter fake that also detects overlapping
// use. Like net/http's response (a bufio.Writer in front of the connection)
// Write fills a pending buffer and Flush moves it to the wire, so Write and
// Flush are conflicting accesses: a Flush outside the lock that orders the
// writes is a data race and can splice or lose bytes.
type c12Writer struct {
	hdr      http.Header
	status   int
	body     bytes.Buffer // the wire
	pending  []byte       // written, not yet flushed
	flushes  int
	writing  bool
	overlap  bool
	preempt  bool
	finished bool // the handler has returned: net/http recycles the response, nothing may touch it any more
	late     bool // ... but something did
	sparse   bool // scheduling points only at boundary writes and flushes (not at every write)
	gate     bool // writes are schedule gates: the native replay reproduces their order relative to payload production
}

func (w *c12Writer) Header() http.Header { return w.hdr }
func (w *c12Writer) WriteHeader(code int) {
	if w.status == 0 {
		w.status = code
	}
}
func (w *c12Writer) Write(p []byte) (int, error) {
	if w.finished {
		w.late = true
	}
	if w.writing {
		w.overlap = true
	}
	w.writing = true
	if !w.sparse || bytes.HasPrefix(p, []byte("--")) {
		w.pause()
	}
	w.pending = append(w.pending, p...)
	w.writing = false
	return len(p), nil
}
func (w *c12Writer) Flush() {
	if w.finished {
		w.late = true
	}
	if w.writing {
		w.overlap = true
	}
	w.writing = true
	pend := w.pending
	w.pause()
	w.body.Write(pend)
	w.pending = w.pending[:0]
	w.flushes++
	w.writing = false
}

// pause is a preemption point for the explorer; natively a slow client: the
// call blocks for longer than the keep-alive interval, so that ticks land
// inside writes and flushes.
func (w *c12Writer) pause() {
	if w.gate {
		zzsym.Gate("write")
	}
	if w.preempt {
		zzsym.Preempt()
		if !zzsym.Symbolic() {
			time.Sleep(2500 * time.Microsecond)
		}
	}
}

// wire is what the client has received plus what a final flush by net/http
// would still deliver when the handler returns.
func (w *c12Writer) wire() string { return w.body.String() + string(w.pending) }

func c12Bool(b bool) *bool { return &b }

// c12ParseMultipart splits a multipart/mixed body with boundary b into the
// JSON texts of its parts; ok=false unless the body is exactly
// (--b CRLF headers CRLF CRLF json CRLF)* --b-- CRLF with the closing
// boundary once and last.
func c12ParseMultipart(body, b string) (parts []string, closed bool, ok bool) {
	rest := body
	open := "--" + b + "\r\n"
	closeB := "--" + b + "--\r\n"
	for {
		if rest == closeB {
			return parts, true, true
		}
		if rest == "" {
			return parts, false, true // still open (stream not finished)
		}
		if !strings.HasPrefix(rest, open) {
			return parts, false, false
		}
		rest = rest[len(open):]
		if rest == "" {
			return parts, false, true // ends right after an opening boundary: next part pending
		}
		const hdr = "Content-Type: application/json\r\n\r\n"
		if !strings.HasPrefix(rest, hdr) {
			return parts, false, false
		}
		rest = rest[len(hdr):]
		k := strings.Index(rest, "\r\n--"+b)
		if k < 0 {
			return parts, false, false
		}
		parts = append(parts, rest[:k])
		rest = rest[k+2:]
	}
}
func c12HasNext(v bool, useNil bool) *bool {
	if useNil {
		return nil
	}
	return &v
}

// ---- SSE

type c12Exec struct {
	n        int // payloads
	reject   bool
	stopped  bool
	cancelAt int                // >0: the request context is cancelled while the cancelAt-th payload is being produced
	cancel   context.CancelFunc // (the payload is still returned: the resolvers had finished)
	gate     bool               // payload production is a schedule gate (see c12Writer.gate)
	yield    bool               // producing a payload takes time: any other goroutine (a ticker's) may run before each one
	inc      bool               // incremental delivery shape: initial payload {"i":0}, then labelled payloads, hasNext true on all but the last
	spaced   bool               // payload data carries insignificant white space incl. a line break (as graphql.MarshalAny / MarshalMap emit through json.Encoder)
}

func (e *c12Exec) CreateOperationContext(ctx context.Context, params *graphql.RawParams) (*graphql.OperationContext, gqlerror.List) {
	rc := &graphql.OperationContext{}
	if e.reject {
		return rc, gqlerror.List{gqlerror.Errorf("bad")}
	}
	return rc, nil
}
func (e *c12Exec) DispatchOperation(ctx context.Context, rc *graphql.OperationContext) (graphql.ResponseHandler, context.Context) {
	k := 0
	return func(ctx context.Context) *graphql.Response {
		if e.gate {
			zzsym.Gate("produce")
		}
		if e.yield {
			zzsym.Preempt()
		}
		if k >= e.n || e.stopped {
			return nil
		}
		k++
		if !zzsym.Symbolic() {
			// natively: give the 1ms tickers a chance to fire between payloads; incremental payloads
			// arrive while the (slow) client is still being written to
			if e.inc {
				zzsym.Jitter(14000) // 0..14 ms: payloads land before, inside and after the flushes of a slow client
			} else {
				time.Sleep(2 * time.Millisecond)
				zzsym.Jitter(2000) // 2..4 ms: ticks of a 1 ms timer land before, at and after the moment the payload is ready
			}
		}
		if e.cancelAt == k && e.cancel != nil {
			// the client goes away while this payload is being produced: it is the last one, the
			// executor's response function ends the sequence at once
			e.cancel()
			e.stopped = true
		}
		if e.inc {
			if k == 1 {
				return &graphql.Response{Data: json.RawMessage(`{"i":0}`), HasNext: c12Bool(e.n > 1)}
			}
			return &graphql.Response{Data: json.RawMessage(`{"d":` + string(rune('0'+k-1)) + `}`), Label: "100%d %s%", HasNext: c12Bool(k < e.n)}
		}
		if e.spaced {
			return &graphql.Response{Data: json.RawMessage(`{"k":` + string(rune('0'+k)) + `,"m":{"a":[1, 2]}` + "\n" + `}`)}
		}
		return &graphql.Response{Data: json.RawMessage(`{"k":` + string(rune('0'+k)) + `}`)}
	}, ctx
}
func (e *c12Exec) DispatchError(ctx context.Context, list gqlerror.List) *graphql.Response {
	return &graphql.Response{Errors: list}
}

// c12ParseSSE: the stream is ":\n\n" then (": ping\n\n" | "event: next\ndata: <json>\n\n")* then "event: complete\n\n".
func c12ParseSSE(body string) (datas []string, pings int, ok bool) {
	rest := body
	if !strings.HasPrefix(rest, ":\n\n") {
		return nil, 0, false
	}
	rest = rest[3:]
	for {
		switch {
		case rest == "event: complete\n\n":
			return datas, pings, true
		case strings.HasPrefix(rest, ": ping\n\n"):
			pings++
			rest = rest[len(": ping\n\n"):]
		case strings.HasPrefix(rest, "event: next\ndata: "):
			rest = rest[len("event: next\ndata: "):]
			k := strings.Index(rest, "\n\n")
			if k < 0 {
				return datas, pings, false
			}
			if strings.Contains(rest[:k], "\n") {
				return datas, pings, false
			}
			datas = append(datas, rest[:k])
			rest = rest[k+2:]
		default:
			return datas, pings, false
		}
	}
}

// Harness_C12_sse: SSE.Do with 0..2 payloads (or a rejected operation) and a
// keep-alive ticker that may fire at any scheduling point (every write is a
// preemption point): events are complete, each payload once, in order, pings
// never spliced into an event, one complete; the writer is never entered
// concurrently.
func Harness_C12_sse() {
	ex := &c12Exec{n: zzsym.Choice("payloads", zzsym.Param("maxpayloads", 2)+1), reject: zzsym.Choice("reject", 2) == 1}
	keepAlive := zzsym.Choice("keepalive", 2) == 1
	// (the framing of payload contents does not depend on the schedule: explored without the ticker)
	ex.spaced = ex.n > 0 && !ex.reject && !keepAlive && zzsym.Choice("spaced", 2) == 1
	ex.yield = keepAlive && zzsym.Param("yield", 0) == 1
	w := &c12Writer{hdr: http.Header{}, preempt: keepAlive}
	ctx, cancel := context.WithCancel(context.Background())
	r := (&http.Request{Method: "POST", Header: http.Header{}, URL: &url.URL{Path: "/"}, Body: io.NopCloser(strings.NewReader(`{"query":"subscription { x }"}`))}).WithContext(ctx)
	r.Header.Set("Content-Type", "application/json")
	r.Header.Set("Accept", "text/event-stream")
	t := SSE{}
	if keepAlive {
		t.KeepAlivePingInterval = time.Millisecond
	}
	zzsym.Assert(t.Supports(r), "the request is an SSE request")
	t.Do(w, r, ex)
	w.finished = true
	cancel()
	zzsym.Assert(zzsym.Quiesce() == 0, "the keep-alive goroutine ends when the request context is cancelled")
	zzsym.Assert(!w.late, "nothing writes to the response after the handler has returned")
	zzsym.Assert(!w.overlap, "the response writer is never entered by two goroutines at once")
	datas, _, ok := c12ParseSSE(w.wire())
	zzsym.Assert(ok, "the stream parses as complete events (pings between events only), ending with one complete")
	want := ex.n
	if ex.reject {
		want = 1
	}
	zzsym.Assert(len(datas) == want, "each payload is delivered exactly once")
	for k, d := range datas {
		zzsym.Assert(json.Valid([]byte(d)), "every next event carries valid JSON")
		if !ex.reject {
			zzsym.Assert(strings.Contains(d, `{"k":`+string(rune('1'+k))), "payloads are delivered in order")
		}
	}
	zzsym.Assert(w.hdr.Get("Content-Type") == "text/event-stream", "the stream is served as text/event-stream")
	zzsym.Reach("c12.sse")
}

// Harness_C12_multipartDo: MultipartMixed.Do as a whole - its aggregator
// goroutine with the real ticker (a tick may be delivered at any scheduling
// point), the response loop adding payloads, Done and the final flush - for
// 1 + 0..2 [3] payloads or a rejected operation: the bytes are a well-formed
// multipart/mixed stream delivering every payload exactly once and in order
// with the closing boundary once and last, the response writer is never used
// by two goroutines at once (race check; Write and Flush conflict), and the
// ticker goroutine ends with the request.
func Harness_C12_multipartDo() {
	ex := &c12Exec{n: 1 + zzsym.Choice("incremental", zzsym.Param("maxinc", 2)+1), inc: true, yield: true, reject: zzsym.Choice("reject", 2) == 1}
	w := &c12Writer{hdr: http.Header{}, preempt: true}
	r := &http.Request{Method: "POST", Header: http.Header{}, URL: &url.URL{Path: "/"}, Body: io.NopCloser(strings.NewReader(`{"query":"{ x ... @defer { y } }"}`))}
	r.Header.Set("Content-Type", "application/json")
	r.Header.Set("Accept", "multipart/mixed")
	t := MultipartMixed{}
	zzsym.Assert(t.Supports(r), "the request is a multipart/mixed request")
	t.Do(w, r, ex)
	zzsym.Assert(zzsym.Quiesce() == 0, "the aggregator's ticker goroutine ends with the request")
	zzsym.Assert(!w.overlap, "the response writer is never entered by two goroutines at once")
	if ex.reject {
		zzsym.Assert(json.Valid([]byte(w.wire())), "a rejected operation is answered with one JSON document")
		zzsym.Assert(w.hdr.Get("Content-Type") == "application/json", "a rejected operation is answered as application/json")
		zzsym.Reach("c12.multipartdo.rejected")
		return
	}
	parts, closed, ok := c12ParseMultipart(w.wire(), "-")
	zzsym.Assert(ok, "the body is a well-formed multipart/mixed stream")
	zzsym.Assert(closed, "the closing boundary appears exactly once, last")
	seenInitial := 0
	var seenInc []string
	for _, p := range parts {
		var v map[string]any
		zzsym.Assert(json.Unmarshal([]byte(p), &v) == nil, "every part holds valid JSON")
		if inc, isInc := v["incremental"].([]any); isInc {
			zzsym.Assert(seenInitial == 1, "incremental parts follow the initial payload")
			for _, e := range inc {
				d, _ := json.Marshal(e.(map[string]any)["data"])
				zzsym.Assert(e.(map[string]any)["label"] == "100%d %s%", "an incremental payload is delivered with its label byte for byte (format verbs in it are data)")
				seenInc = append(seenInc, string(d))
			}
		} else {
			seenInitial++
		}
	}
	zzsym.Assert(seenInitial == 1, "the initial payload is delivered exactly once")
	zzsym.Assert(len(seenInc) == ex.n-1, "every incremental payload is delivered exactly once")
	for k := range seenInc {
		zzsym.Assert(seenInc[k] == `{"d":`+string(rune('1'+k))+`}`, "incremental payloads are delivered in order")
	}
	zzsym.Assert(strings.HasPrefix(w.hdr.Get("Content-Type"), "multipart/mixed"), "the stream is served as multipart/mixed")
	zzsym.Reach("c12.multipartdo")
}

// Harness_C05_streams: the streaming HTTP transports (SSE with keep-alive,
// multipart/mixed with its aggregator ticker) serving 1..2 payloads while the
// request context is cancelled at an arbitrary payload (never / while the
// k-th payload is produced) and the timers tick at any scheduling point:
// Do returns, and afterwards no goroutine the transport started is alive.
func Harness_C05_streams() {
	sse := zzsym.Choice("transport", 2) == 0
	ex := &c12Exec{n: 1 + zzsym.Choice("payloads", zzsym.Param("maxp", 2)), inc: !sse, yield: true}
	ex.cancelAt = zzsym.Choice("cancelAt", ex.n+1)
	ctx, cancel := context.WithCancel(context.Background())
	ex.cancel = cancel
	// (unordered uses of the writer are found by the race check; its calls are no extra scheduling points here)
	w := &c12Writer{hdr: http.Header{}}
	r := (&http.Request{Method: "POST", Header: http.Header{}, URL: &url.URL{Path: "/"}, Body: io.NopCloser(strings.NewReader(`{"query":"{ x }"}`))}).WithContext(ctx)
	r.Header.Set("Content-Type", "application/json")
	if sse {
		r.Header.Set("Accept", "text/event-stream")
		interval := time.Millisecond
		if !zzsym.Symbolic() {
			interval = 20 * time.Microsecond // natively: a tick is pending at (almost) every instant
		}
		SSE{KeepAlivePingInterval: interval}.Do(w, r, ex)
	} else {
		r.Header.Set("Accept", "multipart/mixed")
		MultipartMixed{}.Do(w, r, ex)
	}
	w.finished = true
	cancel() // the request has ended: net/http cancels its context
	zzsym.Assert(zzsym.Quiesce() == 0, "no goroutine started by the transport outlives the request")
	zzsym.Assert(!w.overlap, "the response writer is never entered by two goroutines at once")
	zzsym.Assert(!w.late, "nothing writes to the response after the handler has returned")
	zzsym.Reach("c05.streams")
}
