package transport

import (
	"io"

	"github.com/99designs/gqlgen/zzsym"
)

// Harness_C10_bytesReader: from an arbitrary valid state (len 0..3, any
// position >= 0), any two operations (Seek with arbitrary 64-bit offset
// and whence, Read into a buffer of 0..2 bytes) never panic, never move to
// a wrapped-around position, and Read returns exactly s[i:] or EOF. A
// second reader over the same slice is unaffected.
func Harness_C10_bytesReader() {
	n := zzsym.Choice("len", zzsym.Param("maxlen", 3)+1)
	data := zzsym.Bytes("d", n)
	r := &bytesReader{s: &data, i: zzsym.Int64("i0")}
	other := &bytesReader{s: &data, i: 0}
	zzsym.Assume(r.i >= 0)
	for k := 0; k < zzsym.Param("ops", 2); k++ {
		old := r.i
		if zzsym.Choice("op", 2) == 0 {
			off := zzsym.Int64("off")
			wh := zzsym.Int("whence")
			pos, err := r.Seek(off, wh)
			if err == nil {
				zzsym.Assert(pos >= 0 && r.i == pos, "Seek: returned position is the new non-negative position")
				switch wh {
				case io.SeekStart:
					zzsym.Assert(pos == off, "SeekStart: position = offset")
				case io.SeekCurrent:
					zzsym.Assert(pos-off == old && (off >= 0) == (pos >= old), "SeekCurrent: position = old+offset without wrap-around")
				case io.SeekEnd:
					zzsym.Assert(pos-off == int64(n) && (off >= 0) == (pos >= int64(n)), "SeekEnd: position = len+offset without wrap-around")
				default:
					zzsym.Assert(false, "Seek accepted an invalid whence")
				}
			} else {
				zzsym.Assert(r.i == old, "failed Seek leaves the position unchanged")
			}
			zzsym.Reach("reader.seek")
		} else {
			bl := zzsym.Choice("buflen", 3)
			buf := make([]byte, bl)
			nn, err := r.Read(buf)
			if old >= int64(n) {
				zzsym.Assert(nn == 0 && err == io.EOF, "Read at or past the end returns EOF")
			} else {
				want := n - int(old)
				if bl < want {
					want = bl
				}
				zzsym.Assert(err == nil && nn == want && r.i == old+int64(nn), "Read returns min(len(buf), remaining) bytes and advances")
				for j := 0; j < nn; j++ {
					zzsym.Assert(buf[j] == data[int(old)+j], "Read returns the bytes at the current position")
				}
			}
			zzsym.Reach("reader.read")
		}
	}
	zzsym.Assert(other.i == 0, "a second reader over the same slice is independent")
}
