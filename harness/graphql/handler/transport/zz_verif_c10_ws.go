package transport

import (
	"bytes"
	"encoding/json"
	"io"
	"net/http"
	"net/http/httptest"
	"strings"

	"github.com/gorilla/websocket"

	"github.com/99designs/gqlgen/zzsym"
)

// ---- the real frame decoders of both subprotocols (the other websocket
// harnesses fake the messageExchanger): under the engine the connection's
// NextReader is this stub playing the frames of c10WsQueue; natively a real
// loopback connection whose client side sent the same frames.

var c10WsQueue []string

//sym:stub (*github.com/gorilla/websocket.Conn).NextReader
func Stub_wsNextReader(c *websocket.Conn) (int, io.Reader, error) {
	if len(c10WsQueue) == 0 {
		return 0, nil, &websocket.CloseError{Code: websocket.CloseNormalClosure}
	}
	f := c10WsQueue[0]
	c10WsQueue = c10WsQueue[1:]
	return websocket.TextMessage, strings.NewReader(f), nil
}

func c10WsConn(proto string, frames []string) *websocket.Conn {
	if zzsym.Symbolic() {
		c10WsQueue = append([]string(nil), frames...)
		return &websocket.Conn{}
	}
	ready := make(chan *websocket.Conn, 1)
	srv := httptest.NewServer(http.HandlerFunc(func(w http.ResponseWriter, r *http.Request) {
		up := websocket.Upgrader{Subprotocols: []string{proto}}
		c, err := up.Upgrade(w, r, nil)
		if err != nil {
			ready <- nil
			return
		}
		ready <- c
	}))
	d := websocket.Dialer{Subprotocols: []string{proto}}
	cc, _, err := d.Dial("ws"+strings.TrimPrefix(srv.URL, "http"), nil)
	if err != nil {
		panic(err)
	}
	sc := <-ready
	for _, f := range frames {
		if err := cc.WriteMessage(websocket.TextMessage, []byte(f)); err != nil {
			panic(err)
		}
	}
	cc.WriteMessage(websocket.CloseMessage, websocket.FormatCloseMessage(websocket.CloseNormalClosure, ""))
	go func() {
		for {
			if _, _, err := cc.ReadMessage(); err != nil {
				cc.Close()
				srv.Close()
				return
			}
		}
	}()
	return sc
}

// text frames a client may send: every JSON kind at top level and in every member, unknown and missing types, truncations
var c10WsFrames = []string{
	`null`, `{}`, `[]`, `1`, `"x"`, `true`, ``, ` `, `{`, `{"type"`, `nul`,
	`{"type":null}`, `{"type":7}`, `{"type":""}`, `{"type":"nope"}`, `{"type":["start"]}`, `{"type":{"a":1}}`,
	`{"type":"connection_init"}`, `{"type":"connection_init","payload":null}`, `{"type":"connection_init","payload":[1]}`, `{"type":"connection_init","payload":"x"}`,
	`{"type":"start","id":"1","payload":{"query":"{ a }"}}`, `{"type":"subscribe","id":"1","payload":{"query":"{ a }"}}`,
	`{"type":"start","id":1}`, `{"type":"subscribe","id":null,"payload":null}`, `{"type":"start","id":{"x":1},"payload":7}`,
	`{"type":"stop","id":"1"}`, `{"type":"complete","id":"1"}`, `{"type":"complete"}`, `{"type":"ping"}`, `{"type":"pong","payload":null}`, `{"type":"ping","payload":"x"}`,
	`{"type":"connection_terminate"}`, `{"type":"ka"}`, `{"type":"data","id":"1"}`, `{"type":"next","id":"1","payload":null}`, `{"type":"error","id":"1","payload":[]}`,
	`{"type":"start","id":"1","payload":{"query":"{ a }"}} trailing`, `{"type":"start","type":"stop","id":"1"}`, `{"TYPE":"start","ID":"1"}`,
	`[{"type":"start"}]`, `{"type":"connection_ack"}`, `{"type":"connection_error"}`,
}

// Harness_C10_wsFrames: two text frames (any of the corpus, then any of the
// corpus) read through the real frame decoder of either subprotocol: the
// decoder returns a message of a known type or an error (errInvalidMsg or the
// subprotocol's own) for each - it never
// panics - and after the frames the closed connection is reported as closed.
func Harness_C10_wsFrames() {
	proto := []string{graphqlwsSubprotocol, graphqltransportwsSubprotocol}[zzsym.Choice("proto", 2)]
	f1 := c10WsFrames[zzsym.Choice("frame1", len(c10WsFrames))]
	frames := []string{f1}
	if zzsym.Param("two", 0) == 1 {
		frames = append(frames, c10WsFrames[zzsym.Choice("frame2", len(c10WsFrames))])
	}
	conn := c10WsConn(proto, frames)
	var me messageExchanger
	if proto == graphqlwsSubprotocol {
		me = graphqlwsMessageExchanger{c: conn}
	} else {
		me = graphqltransportwsMessageExchanger{c: conn}
	}
	for range frames {
		m, err := me.NextMessage()
		if err == nil {
			zzsym.Assert(m.t >= initMessageType && m.t <= pongMessageType, "a decoded frame has a known message type")
			zzsym.Event("frame", m.t.String(), m.id, string(m.payload))
		} else {
			zzsym.Assert(err != errWsConnClosed, "a text frame that is not a message of the subprotocol is an error, not a closed connection")
			zzsym.Event("invalid")
		}
	}
	_, err := me.NextMessage()
	zzsym.Assert(err == errWsConnClosed, "after the client's normal close the decoder reports the closed connection")
	if !zzsym.Symbolic() {
		conn.Close()
	}
	zzsym.Reach("c10.ws.frames")
}

// ---- the wire format of both subprotocols against tables written from
// their specifications (graphql-ws = subscriptions-transport-ws PROTOCOL.md,
// graphql-transport-ws = graphql-ws PROTOCOL.md), independent of the
// implementation's constants.

var c10WsSent []string // frames the server wrote (engine: WriteJSON stub; natively read by the client side)

//sym:stub (*github.com/gorilla/websocket.Conn).WriteJSON
func Stub_wsWriteJSON(c *websocket.Conn, v any) error {
	b, err := json.Marshal(v)
	if err != nil {
		return err
	}
	c10WsSent = append(c10WsSent, string(b))
	return nil
}

// server -> client: wire type per internal message type ("" = nothing is written)
var c10WireOut = map[string]map[messageType]string{
	graphqlwsSubprotocol: {
		connectionAckMessageType: "connection_ack", keepAliveMessageType: "ka", connectionErrorMessageType: "connection_error",
		dataMessageType: "data", errorMessageType: "error", completeMessageType: "complete", pingMessageType: "", pongMessageType: "",
	},
	graphqltransportwsSubprotocol: {
		connectionAckMessageType: "connection_ack", keepAliveMessageType: "", connectionErrorMessageType: "",
		dataMessageType: "next", errorMessageType: "error", completeMessageType: "complete", pingMessageType: "ping", pongMessageType: "pong",
	},
}

// client -> server: internal message type per wire type
var c10WireIn = map[string]map[string]messageType{
	graphqlwsSubprotocol: {
		"connection_init": initMessageType, "connection_terminate": connectionCloseMessageType, "start": startMessageType, "stop": stopMessageType,
	},
	graphqltransportwsSubprotocol: {
		"connection_init": initMessageType, "subscribe": startMessageType, "complete": stopMessageType, "ping": pingMessageType, "pong": pongMessageType,
	},
}

var c10WireTypes = []string{"connection_init", "connection_terminate", "start", "stop", "subscribe", "complete", "ping", "pong", "next", "data", "ka", "connection_ack"}

// Harness_C11_wire: every server message through the real exchanger's Send
// (the frame written carries the subprotocol's type name for it, the id and
// the payload unchanged - or nothing is written for the messages the
// subprotocol does not have), and every client frame type through the real
// NextMessage (the internal message it stands for, id and payload unchanged).
func Harness_C11_wire() {
	proto := []string{graphqlwsSubprotocol, graphqltransportwsSubprotocol}[zzsym.Choice("proto", 2)]
	id := []string{"", "1", "op-é\"x"}[zzsym.Choice("id", 3)]
	payload := []string{"", `null`, `{"data":{"a":[1,"x"]}}`, `[{"message":"m"}]`}[zzsym.Choice("payload", 4)]
	if zzsym.Choice("dir", 2) == 0 {
		// server -> client
		outs := c10WireOut[proto]
		var ts []messageType
		for t := initMessageType; t <= pongMessageType; t++ {
			if _, ok := outs[t]; ok {
				ts = append(ts, t)
			}
		}
		t := ts[zzsym.Choice("type", len(ts))]
		c10WsSent = nil
		conn, read := c10WireConn(proto, nil)
		var me messageExchanger
		if proto == graphqlwsSubprotocol {
			me = graphqlwsMessageExchanger{c: conn}
		} else {
			me = graphqltransportwsMessageExchanger{c: conn}
		}
		var raw json.RawMessage
		if payload != "" {
			raw = json.RawMessage(payload)
		}
		err := me.Send(&message{t: t, id: id, payload: raw})
		zzsym.Assert(err == nil, "a server message of the subprotocol is sent without error")
		frames := read()
		if outs[t] == "" {
			zzsym.Assert(len(frames) == 0, "a message the subprotocol does not have is not written")
			zzsym.Reach("c11.wire.noop")
			return
		}
		zzsym.Assert(len(frames) == 1, "one frame per message")
		var got struct {
			Type    string          `json:"type"`
			ID      string          `json:"id"`
			Payload json.RawMessage `json:"payload"`
		}
		zzsym.Assert(json.Unmarshal([]byte(frames[0]), &got) == nil, "the frame is one JSON object")
		zzsym.Assert(got.Type == outs[t], "the frame carries the subprotocol's name of the message")
		zzsym.Assert(got.ID == id, "the id is written unchanged")
		want := payload
		if want == "" {
			zzsym.Assert(len(got.Payload) == 0, "no payload member without a payload")
		} else {
			var cb bytes.Buffer
			zzsym.Assert(json.Compact(&cb, got.Payload) == nil && cb.String() == want, "the payload is written unchanged")
		}
		zzsym.Reach("c11.wire.sent")
		return
	}
	// client -> server
	wt := c10WireTypes[zzsym.Choice("wtype", len(c10WireTypes))]
	idj, _ := json.Marshal(id)
	frame := `{"type":"` + wt + `"`
	if id != "" {
		frame += `,"id":` + string(idj)
	}
	if payload != "" {
		frame += `,"payload":` + payload
	}
	frame += `}`
	conn, _ := c10WireConn(proto, []string{frame})
	var me messageExchanger
	if proto == graphqlwsSubprotocol {
		me = graphqlwsMessageExchanger{c: conn}
	} else {
		me = graphqltransportwsMessageExchanger{c: conn}
	}
	m, err := me.NextMessage()
	want, known := c10WireIn[proto][wt]
	if !known {
		// refused by the decoder, or handed on as a message no client request is made of (the reader loop answers those as unexpected)
		clientReq := m.t == initMessageType || m.t == startMessageType || m.t == stopMessageType || m.t == connectionCloseMessageType || m.t == pingMessageType || m.t == pongMessageType
		zzsym.Assert(err != nil || !clientReq, "a frame type the client may not send in this subprotocol is never taken for a client request")
		zzsym.Reach("c11.wire.refused")
		return
	}
	zzsym.Assert(err == nil && m.t == want, "the frame is decoded to the message its type name stands for in this subprotocol")
	zzsym.Assert(m.id == id, "the id is read unchanged")
	if payload == "" {
		zzsym.Assert(len(m.payload) == 0, "no payload")
	} else {
		zzsym.Assert(string(m.payload) == payload, "the payload is read unchanged")
	}
	zzsym.Reach("c11.wire.decoded")
}

// c10WireConn: like c10WsConn, plus a function returning the frames the
// server side has written so far.
func c10WireConn(proto string, frames []string) (*websocket.Conn, func() []string) {
	if zzsym.Symbolic() {
		c10WsQueue = append([]string(nil), frames...)
		return &websocket.Conn{}, func() []string { return c10WsSent }
	}
	ready := make(chan *websocket.Conn, 1)
	srv := httptest.NewServer(http.HandlerFunc(func(w http.ResponseWriter, r *http.Request) {
		up := websocket.Upgrader{Subprotocols: []string{proto}}
		c, err := up.Upgrade(w, r, nil)
		if err != nil {
			ready <- nil
			return
		}
		ready <- c
	}))
	d := websocket.Dialer{Subprotocols: []string{proto}}
	cc, _, err := d.Dial("ws"+strings.TrimPrefix(srv.URL, "http"), nil)
	if err != nil {
		panic(err)
	}
	sc := <-ready
	for _, f := range frames {
		if err := cc.WriteMessage(websocket.TextMessage, []byte(f)); err != nil {
			panic(err)
		}
	}
	return sc, func() []string {
		// the server side is closed, then the client reads whatever was written before the close
		sc.WriteMessage(websocket.CloseMessage, websocket.FormatCloseMessage(websocket.CloseNormalClosure, ""))
		var got []string
		for {
			_, b, err := cc.ReadMessage()
			if err != nil {
				break
			}
			got = append(got, string(b))
		}
		cc.Close()
		sc.Close()
		srv.Close()
		return got
	}
}
