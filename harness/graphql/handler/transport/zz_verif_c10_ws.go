package transport

import (
	"io"
	"net/http"
	"net/http/httptest"
	"strings"

	"github.com/gorilla/websocket"

	"github.com/99designs/gqlgen/zzsym"
)

// ---- the real frame decoders of both subprotocols (the other websocket
// harnesses fake the messageExchanger): under the engine the connection's
// NextReader is this stub playing the frames of c10WsQueue; natively a real
// loopback connection whose client side sent the same frames.

var c10WsQueue []string

//sym:stub (*github.com/gorilla/websocket.Conn).NextReader
func Stub_wsNextReader(c *websocket.Conn) (int, io.Reader, error) {
	if len(c10WsQueue) == 0 {
		return 0, nil, &websocket.CloseError{Code: websocket.CloseNormalClosure}
	}
	f := c10WsQueue[0]
	c10WsQueue = c10WsQueue[1:]
	return websocket.TextMessage, strings.NewReader(f), nil
}

func c10WsConn(proto string, frames []string) *websocket.Conn {
	if zzsym.Symbolic() {
		c10WsQueue = append([]string(nil), frames...)
		return &websocket.Conn{}
	}
	ready := make(chan *websocket.Conn, 1)
	srv := httptest.NewServer(http.HandlerFunc(func(w http.ResponseWriter, r *http.Request) {
		up := websocket.Upgrader{Subprotocols: []string{proto}}
		c, err := up.Upgrade(w, r, nil)
		if err != nil {
			ready <- nil
			return
		}
		ready <- c
	}))
	d := websocket.Dialer{Subprotocols: []string{proto}}
	cc, _, err := d.Dial("ws"+strings.TrimPrefix(srv.URL, "http"), nil)
	if err != nil {
		panic(err)
	}
	sc := <-ready
	for _, f := range frames {
		if err := cc.WriteMessage(websocket.TextMessage, []byte(f)); err != nil {
			panic(err)
		}
	}
	cc.WriteMessage(websocket.CloseMessage, websocket.FormatCloseMessage(websocket.CloseNormalClosure, ""))
	go func() {
		for {
			if _, _, err := cc.ReadMessage(); err != nil {
				cc.Close()
				srv.Close()
				return
			}
		}
	}()
	return sc
}

// text frames a client may send: every JSON kind at top level and in every member, unknown and missing types, truncations
var c10WsFrames = []string{
	`null`, `{}`, `[]`, `1`, `"x"`, `true`, ``, ` `, `{`, `{"type"`, `nul`,
	`{"type":null}`, `{"type":7}`, `{"type":""}`, `{"type":"nope"}`, `{"type":["start"]}`, `{"type":{"a":1}}`,
	`{"type":"connection_init"}`, `{"type":"connection_init","payload":null}`, `{"type":"connection_init","payload":[1]}`, `{"type":"connection_init","payload":"x"}`,
	`{"type":"start","id":"1","payload":{"query":"{ a }"}}`, `{"type":"subscribe","id":"1","payload":{"query":"{ a }"}}`,
	`{"type":"start","id":1}`, `{"type":"subscribe","id":null,"payload":null}`, `{"type":"start","id":{"x":1},"payload":7}`,
	`{"type":"stop","id":"1"}`, `{"type":"complete","id":"1"}`, `{"type":"complete"}`, `{"type":"ping"}`, `{"type":"pong","payload":null}`, `{"type":"ping","payload":"x"}`,
	`{"type":"connection_terminate"}`, `{"type":"ka"}`, `{"type":"data","id":"1"}`, `{"type":"next","id":"1","payload":null}`, `{"type":"error","id":"1","payload":[]}`,
	`{"type":"start","id":"1","payload":{"query":"{ a }"}} trailing`, `{"type":"start","type":"stop","id":"1"}`, `{"TYPE":"start","ID":"1"}`,
	`[{"type":"start"}]`, `{"type":"connection_ack"}`, `{"type":"connection_error"}`,
}

// Harness_C10_wsFrames: two text frames (any of the corpus, then any of the
// corpus) read through the real frame decoder of either subprotocol: the
// decoder returns a message of a known type or an error (errInvalidMsg or the
// subprotocol's own) for each - it never
// panics - and after the frames the closed connection is reported as closed.
func Harness_C10_wsFrames() {
	proto := []string{graphqlwsSubprotocol, graphqltransportwsSubprotocol}[zzsym.Choice("proto", 2)]
	f1 := c10WsFrames[zzsym.Choice("frame1", len(c10WsFrames))]
	frames := []string{f1}
	if zzsym.Param("two", 0) == 1 {
		frames = append(frames, c10WsFrames[zzsym.Choice("frame2", len(c10WsFrames))])
	}
	conn := c10WsConn(proto, frames)
	var me messageExchanger
	if proto == graphqlwsSubprotocol {
		me = graphqlwsMessageExchanger{c: conn}
	} else {
		me = graphqltransportwsMessageExchanger{c: conn}
	}
	for range frames {
		m, err := me.NextMessage()
		if err == nil {
			zzsym.Assert(m.t >= initMessageType && m.t <= pongMessageType, "a decoded frame has a known message type")
			zzsym.Event("frame", m.t.String(), m.id, string(m.payload))
		} else {
			zzsym.Assert(err != errWsConnClosed, "a text frame that is not a message of the subprotocol is an error, not a closed connection")
			zzsym.Event("invalid")
		}
	}
	_, err := me.NextMessage()
	zzsym.Assert(err == errWsConnClosed, "after the client's normal close the decoder reports the closed connection")
	if !zzsym.Symbolic() {
		conn.Close()
	}
	zzsym.Reach("c10.ws.frames")
}
