package transport

// Harnesses that call the multipart aggregator's unexported methods directly
// (kept apart from the ones that go through MultipartMixed.Do, so that a
// change of these internal signatures only takes these harnesses out).

import (
	"encoding/json"
	"net/http"
	"strconv"

	"github.com/99designs/gqlgen/graphql"
	"github.com/99designs/gqlgen/zzsym"
)

// Harness_C12_multipart: a payload sequence of 1 + n incremental responses
// (hasNext true on all but the last, as C13 guarantees) is handed to the
// aggregator with a flush tick possibly firing at every point in between
// (symbolic): the bytes are a well-formed multipart body whose parts are
// valid JSON delivering the initial payload and every incremental payload
// exactly once, in order, closing boundary once and last.
func Harness_C12_multipart() {
	n := zzsym.Choice("incremental", zzsym.Param("maxinc", 3)+1)
	w := &c12Writer{hdr: http.Header{}}
	a := &multipartResponseAggregator{boundary: "-", done: make(chan bool, 1)}
	tick := func(where string) {
		if zzsym.Bool("tick:" + where) {
			a.flush(w)
		}
	}
	tick("before")
	a.Add(&graphql.Response{Data: json.RawMessage(`{"i":0}`), HasNext: c12HasNext(n > 0, n == 0 && zzsym.Bool("nilHasNext"))}, true)
	tick("after-initial")
	for k := 1; k <= n; k++ {
		a.Add(&graphql.Response{Data: json.RawMessage(`{"d":` + string(rune('0'+k)) + `}`), Label: "100%d %s%", HasNext: c12Bool(k < n)}, false)
		tick("after-" + string(rune('0'+k)))
	}
	a.Done(w)
	parts, closed, ok := c12ParseMultipart(w.wire(), "-")
	zzsym.Assert(ok, "the body is a well-formed multipart/mixed stream")
	zzsym.Assert(closed, "the closing boundary appears exactly once, last")
	seenInitial := 0
	var seenInc []string
	for _, p := range parts {
		var v map[string]any
		zzsym.Assert(json.Unmarshal([]byte(p), &v) == nil, "every part holds valid JSON")
		if inc, isInc := v["incremental"].([]any); isInc {
			zzsym.Assert(seenInitial == 1, "incremental parts follow the initial payload")
			for _, e := range inc {
				d, _ := json.Marshal(e.(map[string]any)["data"])
				zzsym.Assert(e.(map[string]any)["label"] == "100%d %s%", "an incremental payload is delivered with its label byte for byte (format verbs in it are data)")
				seenInc = append(seenInc, string(d))
			}
		} else {
			seenInitial++
			d, _ := json.Marshal(v["data"])
			zzsym.Assert(string(d) == `{"i":0}`, "the initial payload is delivered as is")
		}
	}
	zzsym.Assert(seenInitial == 1, "the initial payload is delivered exactly once")
	zzsym.Assert(len(seenInc) == n, "every incremental payload is delivered exactly once")
	for k := range seenInc {
		zzsym.Assert(seenInc[k] == `{"d":`+string(rune('1'+k))+`}`, "incremental payloads are delivered in order")
	}
	zzsym.Assert(a.initialResponse == nil && len(a.deferResponses) == 0, "nothing is left pending")
	zzsym.Reach("c12.multipart")
}

// Harness_C12_multipartBurst: many incremental payloads (up to 100, around
// the powers of two a batching limit would be chosen from) queued between
// two flush ticks - one tick somewhere, or none before Done: every payload
// is delivered exactly once, in order, and the closing boundary comes last.
func Harness_C12_multipartBurst() {
	n := []int{7, 8, 9, 15, 16, 17, 31, 32, 33, 40, 63, 64, 65, 100}[zzsym.Choice("n", 14)]
	tickAt := []int{-1, 0, 1, n / 2, n - 1}[zzsym.Choice("tickAt", 5)]
	w := &c12Writer{hdr: http.Header{}}
	a := &multipartResponseAggregator{boundary: "-", done: make(chan bool, 1)}
	a.Add(&graphql.Response{Data: json.RawMessage(`{"i":0}`), HasNext: c12Bool(true)}, true)
	if tickAt == 0 {
		a.flush(w)
	}
	for k := 1; k <= n; k++ {
		a.Add(&graphql.Response{Data: json.RawMessage(`{"d":` + strconv.Itoa(k) + `}`), Label: "L", HasNext: c12Bool(k < n)}, false)
		if k == tickAt {
			a.flush(w)
		}
	}
	a.Done(w)
	parts, closed, ok := c12ParseMultipart(w.wire(), "-")
	zzsym.Assert(ok, "the body is a well-formed multipart/mixed stream")
	zzsym.Assert(closed, "the closing boundary appears exactly once, last")
	next := 1
	for i, p := range parts {
		var v map[string]any
		zzsym.Assert(json.Unmarshal([]byte(p), &v) == nil, "every part holds valid JSON")
		inc, isInc := v["incremental"].([]any)
		zzsym.Assert(isInc == (i > 0), "the initial payload comes first, once")
		for _, e := range inc {
			d, _ := json.Marshal(e.(map[string]any)["data"])
			zzsym.Assert(string(d) == `{"d":`+strconv.Itoa(next)+`}`, "incremental payloads are delivered in order, each once")
			next++
		}
	}
	zzsym.Assert(next == n+1, "every incremental payload is delivered")
	zzsym.Assert(a.initialResponse == nil && len(a.deferResponses) == 0, "nothing is left pending")
	zzsym.Reach("c12.burst")
}
