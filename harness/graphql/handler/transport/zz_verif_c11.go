package transport

import (
	"context"
	"encoding/json"
	"errors"
	"net/http"
	"net/http/httptest"
	"strings"
	"time"

	"github.com/gorilla/websocket"
	"github.com/vektah/gqlparser/v2/gqlerror"

	"github.com/99designs/gqlgen/graphql"
	"github.com/99designs/gqlgen/graphql/errcode"
	"github.com/99designs/gqlgen/zzsym"
)

// ---- gorilla's concrete connection: under the engine its methods are
// replaced by these stubs (the frames that matter go through the
// messageExchanger fake); natively a real server-side connection over
// loopback is used.

//sym:stub (*github.com/gorilla/websocket.Conn).WriteMessage
func Stub_wsWriteMessage(c *websocket.Conn, messageType int, data []byte) error { return nil }

//sym:stub (*github.com/gorilla/websocket.Conn).Close
func Stub_wsClose(c *websocket.Conn) error { return nil }

//sym:stub (*github.com/gorilla/websocket.Conn).Subprotocol
func Stub_wsSubprotocol(c *websocket.Conn) string { return c11Subprotocol }

//sym:stub (*github.com/gorilla/websocket.Conn).SetReadDeadline
func Stub_wsSetReadDeadline(c *websocket.Conn, t time.Time) error { return nil }

var c11Subprotocol = ""

func c11Conn() *websocket.Conn {
	if zzsym.Symbolic() {
		return &websocket.Conn{}
	}
	ready := make(chan *websocket.Conn, 1)
	srv := httptest.NewServer(http.HandlerFunc(func(w http.ResponseWriter, r *http.Request) {
		up := websocket.Upgrader{Subprotocols: []string{c11Subprotocol}}
		c, err := up.Upgrade(w, r, nil)
		if err != nil {
			ready <- nil
			return
		}
		ready <- c
	}))
	d := websocket.Dialer{}
	if c11Subprotocol != "" {
		d.Subprotocols = []string{c11Subprotocol}
	}
	cc, _, err := d.Dial("ws"+strings.TrimPrefix(srv.URL, "http"), nil)
	if err != nil {
		panic(err)
	}
	sc := <-ready
	go func() { // drain the client side so that close handshakes do not block
		for {
			if _, _, err := cc.ReadMessage(); err != nil {
				cc.Close()
				srv.Close()
				return
			}
		}
	}()
	return sc
}

// ---- message exchanger fake: plays a client script, records what is sent

type c11In struct {
	m   message
	err error
}

var errC11Closed = errors.New("use of closed network connection (script ended)")

type c11ME struct {
	script  []c11In
	pos     int
	sent    []message
	sending bool
	overlap bool
	preempt bool
	blockAtEnd chan struct{} // if set, NextMessage blocks on it after the script (until the connection is closed)
}

func (me *c11ME) NextMessage() (message, error) {
	if me.pos >= len(me.script) {
		if me.blockAtEnd != nil {
			<-me.blockAtEnd
		}
		return message{}, errC11Closed
	}
	in := me.script[me.pos]
	me.pos++
	return in.m, in.err
}

func (me *c11ME) Send(m *message) error {
	if me.sending {
		me.overlap = true
	}
	me.sending = true
	if me.preempt {
		zzsym.Preempt()
	}
	me.sent = append(me.sent, *m)
	me.sending = false
	return nil
}

func (me *c11ME) types() []messageType {
	var r []messageType
	for _, m := range me.sent {
		r = append(r, m.t)
	}
	return r
}

// framesFor returns the frame types sent for operation id, in order.
func (me *c11ME) framesFor(id string) []messageType {
	var r []messageType
	for _, m := range me.sent {
		if m.id == id && (m.t == dataMessageType || m.t == errorMessageType || m.t == completeMessageType) {
			r = append(r, m.t)
		}
	}
	return r
}

// c11WellFormed: data* then a terminator (error and/or complete), at most
// one complete, nothing after it, no data after an error.
func c11WellFormed(fr []messageType) bool {
	i := 0
	for i < len(fr) && fr[i] == dataMessageType {
		i++
	}
	term := 0
	for i < len(fr) && fr[i] == errorMessageType {
		i++
		term++
	}
	if i < len(fr) && fr[i] == completeMessageType {
		i++
		term++
	}
	return i == len(fr) && term > 0
}

// ---- executor fake

type c11Exec struct {
	mode      int // 0 accept, 1 reject with a protocol-kind error, 2 reject with a user-kind error
	payloads  int
	panicAt   int // -1 never
	subErr    bool
	longLived bool // after the payloads, wait for the operation context to be cancelled
	started   int
	cancelled int
	finished  int
}

func (e *c11Exec) CreateOperationContext(ctx context.Context, params *graphql.RawParams) (*graphql.OperationContext, gqlerror.List) {
	rc := &graphql.OperationContext{RecoverFunc: func(ctx context.Context, err any) error { return gqlerror.Errorf("internal system error") }}
	switch e.mode {
	case 1:
		ge := gqlerror.Errorf("validation failed")
		errcode.Set(ge, errcode.ValidationFailed)
		return rc, gqlerror.List{ge}
	case 2:
		return rc, gqlerror.List{gqlerror.Errorf("rejected by an extension")}
	}
	return rc, nil
}

func (e *c11Exec) DispatchOperation(ctx context.Context, rc *graphql.OperationContext) (graphql.ResponseHandler, context.Context) {
	e.started++
	n := 0
	return func(ctx context.Context) *graphql.Response {
		k := n
		n++
		if k == e.panicAt {
			panic("resolver panic in subscription")
		}
		if k < e.payloads {
			return &graphql.Response{Data: json.RawMessage(`{"n":1}`)}
		}
		if e.subErr {
			AddSubscriptionError(ctx, gqlerror.Errorf("stream failed"))
		}
		if e.longLived {
			<-ctx.Done()
			e.cancelled++
		}
		e.finished++
		return nil
	}, ctx
}

func (e *c11Exec) DispatchError(ctx context.Context, list gqlerror.List) *graphql.Response {
	return &graphql.Response{Errors: list}
}

type c11Conf struct {
	closes    []int
	inits     int
	errs      int
}

func c11New(me *c11ME, ex *c11Exec, cf *c11Conf, initMode int) *wsConnection {
	t := Websocket{
		CloseFunc: func(ctx context.Context, closeCode int) { cf.closes = append(cf.closes, closeCode) },
		ErrorFunc: func(ctx context.Context, err error) { cf.errs++ },
	}
	switch initMode {
	case 1:
		t.InitFunc = func(ctx context.Context, p InitPayload) (context.Context, *InitPayload, error) {
			cf.inits++
			return ctx, nil, errors.New("not allowed")
		}
	case 2:
		t.InitFunc = func(ctx context.Context, p InitPayload) (context.Context, *InitPayload, error) {
			cf.inits++
			return ctx, nil, nil
		}
	case 3:
		t.InitFunc = func(ctx context.Context, p InitPayload) (context.Context, *InitPayload, error) {
			cf.inits++
			return ctx, &InitPayload{"ack": "yes"}, nil
		}
	}
	conn := c11Conn()
	zzsym.Baseline()
	return &wsConnection{
		active: map[string]context.CancelFunc{}, conn: conn, ctx: context.Background(), exec: ex, me: me,
		headers: http.Header{}, Websocket: t,
	}
}

var c11Payloads = []string{``, `{}`, `{"Authorization":"t"}`, `"x"`, `[1]`, `null`}

// Harness_C11_init: the first frame is any of the 12 frame kinds or a read
// failure, with 6 payload shapes, under 4 init-function behaviours and both
// subprotocols: the handshake is accepted exactly when it is a
// connection_init with an object payload that the init function accepts;
// then ack (+ payload) is sent; otherwise the connection is closed and the
// close callback ran exactly once, and the init function never runs for
// anything but a well-formed connection_init.
func Harness_C11_init() {
	c11Subprotocol = []string{graphqlwsSubprotocol, graphqltransportwsSubprotocol}[zzsym.Choice("subprotocol", 2)]
	kind := zzsym.Choice("first", 15) // 0..11 frame types, 12 invalid message, 13 closed, 14 other read error
	pi := zzsym.Choice("payload", len(c11Payloads))
	initMode := zzsym.Choice("initfunc", 4)
	in := c11In{}
	switch kind {
	case 12:
		in.err = errInvalidMsg
	case 13:
		in.err = errWsConnClosed
	case 14:
		in.err = errors.New("read failed")
	default:
		in.m = message{t: messageType(kind), payload: json.RawMessage(c11Payloads[pi])}
	}
	me := &c11ME{script: []c11In{in}}
	cf := &c11Conf{}
	c := c11New(me, &c11Exec{panicAt: -1}, cf, initMode)
	ok := c.init()
	p := c11Payloads[pi]
	payloadOK := p == `` || p == `{}` || p == `{"Authorization":"t"}` || p == `null`
	want := kind == int(initMessageType) && payloadOK && initMode != 1
	zzsym.Assert(ok == want, "the handshake is accepted iff it is a well-formed connection_init that the init function accepts")
	if ok {
		ts := me.types()
		zzsym.Assert(len(ts) == 2 && ts[0] == connectionAckMessageType && ts[1] == keepAliveMessageType, "an accepted handshake is acknowledged")
		zzsym.Assert((len(me.sent[0].payload) > 0) == (initMode == 3), "the ack carries the init function's payload")
		zzsym.Assert(len(cf.closes) == 0, "an accepted connection is not closed")
		zzsym.Reach("c11.init.accepted")
	} else {
		for _, t := range me.types() {
			zzsym.Assert(t != connectionAckMessageType, "no ack on a refused handshake")
		}
		zzsym.Assert(len(cf.closes) == 1, "a refused handshake closes the connection (close callback exactly once)")
		zzsym.Reach("c11.init.refused")
	}
	if kind != int(initMessageType) || !payloadOK {
		zzsym.Assert(cf.inits == 0, "the init function only sees a well-formed connection_init")
	}
	zzsym.Assert(!me.overlap, "frames are never written concurrently")
}

// Harness_C11_subscribe: one started operation: executor verdict x 0..2
// payloads x panic at step k x subscription error: the frames for the id
// are data* then error and/or complete; the operation is deregistered and
// its context cancelled.
func Harness_C11_subscribe() {
	c11Subprotocol = graphqltransportwsSubprotocol
	ex := &c11Exec{mode: zzsym.Choice("verdict", 3), payloads: zzsym.Choice("payloads", 3), panicAt: zzsym.Choice("panicAt", 4) - 1, subErr: zzsym.Bool("subErr")}
	me := &c11ME{}
	cf := &c11Conf{}
	c := c11New(me, ex, cf, 0)
	body := []string{`{"query":"subscription { ticks }"}`, `{"query":`, `null`}[zzsym.Choice("payload", 3)]
	c.subscribe(graphql.Now(), &message{id: "op1", t: startMessageType, payload: json.RawMessage(body)})
	left := zzsym.Quiesce()
	zzsym.Assert(left == 0, "the operation's goroutine ends")
	fr := me.framesFor("op1")
	zzsym.Assert(c11WellFormed(fr), "frames for an id: data*, then error and/or complete, nothing after")
	c.mu.Lock()
	_, still := c.active["op1"]
	c.mu.Unlock()
	zzsym.Assert(!still, "a finished operation is deregistered")
	if body != `{"query":` && ex.mode == 0 {
		nd := 0
		for _, t := range fr {
			if t == dataMessageType {
				nd++
			}
		}
		wantData := ex.payloads
		if ex.panicAt >= 0 && ex.panicAt < ex.payloads {
			wantData = ex.panicAt
		}
		zzsym.Assert(nd == wantData, "every result produced before the end is delivered, in order")
		zzsym.Reach("c11.sub.ran")
	} else {
		zzsym.Assert(ex.started == 0, "a rejected or undecodable start executes nothing")
		zzsym.Reach("c11.sub.rejected")
	}
	zzsym.Assert(!me.overlap, "frames are never written concurrently")
}
