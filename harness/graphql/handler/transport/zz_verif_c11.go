package transport

import (
	"context"
	"encoding/json"
	"errors"
	"net/http"
	"net/http/httptest"
	"strings"
	"sync"
	"time"

	"github.com/gorilla/websocket"
	"github.com/vektah/gqlparser/v2/gqlerror"

	"github.com/99designs/gqlgen/graphql"
	"github.com/99designs/gqlgen/graphql/errcode"
	"github.com/99designs/gqlgen/zzsym"
)

// ---- gorilla's concrete connection: under the engine its methods are
// replaced by these stubs (the frames that matter go through the
// messageExchanger fake); natively a real server-side connection over
// loopback is used.

//sym:stub (*github.com/gorilla/websocket.Conn).WriteMessage
func Stub_wsWriteMessage(c *websocket.Conn, messageType int, data []byte) error {
	if c11CloseSent {
		return websocket.ErrCloseSent
	}
	return nil
}

// c11CloseSent: the library already sent a Close frame on this connection
// (it echoes the peer's close handshake and answers frames that are invalid at
// websocket level by itself): every later write fails with ErrCloseSent.
var c11CloseSent bool

//sym:stub (*github.com/gorilla/websocket.Conn).Close
func Stub_wsClose(c *websocket.Conn) error { return nil }

//sym:stub (*github.com/gorilla/websocket.Conn).Subprotocol
func Stub_wsSubprotocol(c *websocket.Conn) string { return c11Subprotocol }

//sym:stub (*github.com/gorilla/websocket.Conn).SetReadDeadline
func Stub_wsSetReadDeadline(c *websocket.Conn, t time.Time) error { return nil }

var c11Subprotocol = ""

func c11Conn() *websocket.Conn {
	if zzsym.Symbolic() {
		return &websocket.Conn{}
	}
	ready := make(chan *websocket.Conn, 1)
	srv := httptest.NewServer(http.HandlerFunc(func(w http.ResponseWriter, r *http.Request) {
		up := websocket.Upgrader{Subprotocols: []string{c11Subprotocol}}
		c, err := up.Upgrade(w, r, nil)
		if err != nil {
			ready <- nil
			return
		}
		ready <- c
	}))
	d := websocket.Dialer{}
	if c11Subprotocol != "" {
		d.Subprotocols = []string{c11Subprotocol}
	}
	cc, _, err := d.Dial("ws"+strings.TrimPrefix(srv.URL, "http"), nil)
	if err != nil {
		panic(err)
	}
	sc := <-ready
	go func() { // drain the client side so that close handshakes do not block
		for {
			if _, _, err := cc.ReadMessage(); err != nil {
				cc.Close()
				srv.Close()
				return
			}
		}
	}()
	return sc
}

// ---- message exchanger fake: plays a client script, records what is sent

type c11In struct {
	m   message
	err error
}

var errC11Closed = errors.New("use of closed network connection (script ended)")

type c11ME struct {
	mu          sync.Mutex
	script      []c11In
	pos         int
	sent        []message
	sending     bool
	overlap     bool
	preempt     bool
	preemptRead bool          // a scheduling decision before every frame is read
	blockAtEnd  chan struct{} // if set, NextMessage blocks on it after the script (until the connection is closed)
}

func (me *c11ME) NextMessage() (message, error) {
	if me.preemptRead {
		zzsym.Preempt()
	}
	if me.pos >= len(me.script) {
		if me.blockAtEnd != nil {
			<-me.blockAtEnd
		}
		return message{}, errC11Closed
	}
	in := me.script[me.pos]
	me.pos++
	return in.m, in.err
}

func (me *c11ME) Send(m *message) error {
	if me.sending {
		me.overlap = true
	}
	me.sending = true
	if me.preempt {
		zzsym.Preempt()
	}
	me.mu.Lock()
	me.sent = append(me.sent, *m)
	me.mu.Unlock()
	me.sending = false
	return nil
}

func (me *c11ME) types() []messageType {
	me.mu.Lock()
	defer me.mu.Unlock()
	var r []messageType
	for _, m := range me.sent {
		r = append(r, m.t)
	}
	return r
}

// framesFor returns the frame types sent for operation id, in order.
func (me *c11ME) framesFor(id string) []messageType {
	me.mu.Lock()
	defer me.mu.Unlock()
	var r []messageType
	for _, m := range me.sent {
		if m.id == id && (m.t == dataMessageType || m.t == errorMessageType || m.t == completeMessageType) {
			r = append(r, m.t)
		}
	}
	return r
}

// c11WellFormed: data* then a terminator (error and/or complete), at most
// one complete, nothing after it, no data after an error.
func c11WellFormed(fr []messageType) bool {
	i := 0
	for i < len(fr) && fr[i] == dataMessageType {
		i++
	}
	term := 0
	for i < len(fr) && fr[i] == errorMessageType {
		i++
		term++
	}
	if i < len(fr) && fr[i] == completeMessageType {
		i++
		term++
	}
	return i == len(fr) && term > 0
}

// ---- executor fake

type c11Exec struct {
	mode            int // 0 accept, 1 reject with a protocol-kind error, 2 reject with a user-kind error
	payloads        int
	panicAt         int // -1 never
	subErr          bool
	panicInDispatch bool // user code that runs inside DispatchOperation itself (an operation interceptor, a subscription directive) panics
	longLived       bool // after the payloads, wait for the operation context to be cancelled
	mu              sync.Mutex
	started         int
	cancelled       int
	finished        int
}

func (e *c11Exec) count(p *int) {
	e.mu.Lock()
	*p++
	e.mu.Unlock()
}

func (e *c11Exec) counts() (int, int, int) {
	e.mu.Lock()
	defer e.mu.Unlock()
	return e.started, e.cancelled, e.finished
}

func (e *c11Exec) CreateOperationContext(ctx context.Context, params *graphql.RawParams) (*graphql.OperationContext, gqlerror.List) {
	rc := &graphql.OperationContext{RecoverFunc: func(ctx context.Context, err any) error { return gqlerror.Errorf("internal system error") }}
	switch e.mode {
	case 1:
		ge := gqlerror.Errorf("validation failed")
		errcode.Set(ge, errcode.ValidationFailed)
		return rc, gqlerror.List{ge}
	case 2:
		return rc, gqlerror.List{gqlerror.Errorf("rejected by an extension")}
	}
	return rc, nil
}

func (e *c11Exec) DispatchOperation(ctx context.Context, rc *graphql.OperationContext) (graphql.ResponseHandler, context.Context) {
	e.count(&e.started)
	if e.panicInDispatch {
		panic("operation interceptor panic")
	}
	n := 0
	return func(ctx context.Context) *graphql.Response {
		k := n
		n++
		if k == e.panicAt {
			panic("resolver panic in subscription")
		}
		if k < e.payloads {
			return &graphql.Response{Data: json.RawMessage(`{"n":1}`)}
		}
		if e.subErr {
			AddSubscriptionError(ctx, gqlerror.Errorf("stream failed"))
		}
		if e.longLived {
			<-ctx.Done()
			e.count(&e.cancelled)
		}
		e.count(&e.finished)
		return nil
	}, ctx
}

func (e *c11Exec) DispatchError(ctx context.Context, list gqlerror.List) *graphql.Response {
	return &graphql.Response{Errors: list}
}

type c11Conf struct {
	onClose func()
	mu      sync.Mutex
	closes  []int
	inits   int
	errs    int
}

func (cf *c11Conf) nCloses() int {
	cf.mu.Lock()
	defer cf.mu.Unlock()
	return len(cf.closes)
}

func c11New(me *c11ME, ex *c11Exec, cf *c11Conf, initMode int) *wsConnection {
	t := Websocket{
		CloseFunc: func(ctx context.Context, closeCode int) {
			cf.mu.Lock()
			cf.closes = append(cf.closes, closeCode)
			first := len(cf.closes) == 1
			cf.mu.Unlock()
			if first && cf.onClose != nil {
				cf.onClose()
			}
		},
		ErrorFunc: func(ctx context.Context, err error) {
			cf.mu.Lock()
			cf.errs++
			cf.mu.Unlock()
		},
	}
	switch initMode {
	case 1:
		t.InitFunc = func(ctx context.Context, p InitPayload) (context.Context, *InitPayload, error) {
			cf.inits++
			return ctx, nil, errors.New("not allowed")
		}
	case 2:
		t.InitFunc = func(ctx context.Context, p InitPayload) (context.Context, *InitPayload, error) {
			cf.inits++
			return ctx, nil, nil
		}
	case 3:
		t.InitFunc = func(ctx context.Context, p InitPayload) (context.Context, *InitPayload, error) {
			cf.inits++
			return ctx, &InitPayload{"ack": "yes"}, nil
		}
	}
	conn := c11Conn()
	if c11CloseSent && !zzsym.Symbolic() {
		conn.WriteControl(websocket.CloseMessage, websocket.FormatCloseMessage(websocket.CloseNormalClosure, ""), time.Now().Add(time.Second))
	}
	zzsym.Baseline()
	return &wsConnection{
		active: map[string]context.CancelFunc{}, conn: conn, ctx: context.Background(), exec: ex, me: me,
		headers: http.Header{}, Websocket: t,
	}
}

var c11Payloads = []string{``, `{}`, `{"Authorization":"t"}`, `"x"`, `[1]`, `null`}

// Harness_C11_init: the first frame is any of the 12 frame kinds or a read
// failure, with 6 payload shapes, under 4 init-function behaviours and both
// subprotocols: the handshake is accepted exactly when it is a
// connection_init with an object payload that the init function accepts;
// then ack (+ payload) is sent; otherwise the connection is closed and the
// close callback ran exactly once, and the init function never runs for
// anything but a well-formed connection_init.
func Harness_C11_init() {
	c11Subprotocol = []string{graphqlwsSubprotocol, graphqltransportwsSubprotocol}[zzsym.Choice("subprotocol", 2)]
	kind := zzsym.Choice("first", 15) // 0..11 frame types, 12 invalid message, 13 closed, 14 other read error
	pi := zzsym.Choice("payload", len(c11Payloads))
	initMode := zzsym.Choice("initfunc", 4)
	in := c11In{}
	switch kind {
	case 12:
		in.err = errInvalidMsg
	case 13:
		in.err = errWsConnClosed
	case 14:
		in.err = errors.New("read failed")
	default:
		in.m = message{t: messageType(kind), payload: json.RawMessage(c11Payloads[pi])}
	}
	me := &c11ME{script: []c11In{in}}
	cf := &c11Conf{}
	c := c11New(me, &c11Exec{panicAt: -1}, cf, initMode)
	ok := c.init()
	p := c11Payloads[pi]
	payloadOK := p == `` || p == `{}` || p == `{"Authorization":"t"}` || p == `null`
	want := kind == int(initMessageType) && payloadOK && initMode != 1
	zzsym.Assert(ok == want, "the handshake is accepted iff it is a well-formed connection_init that the init function accepts")
	if ok {
		ts := me.types()
		zzsym.Assert(len(ts) == 2 && ts[0] == connectionAckMessageType && ts[1] == keepAliveMessageType, "an accepted handshake is acknowledged")
		zzsym.Assert((len(me.sent[0].payload) > 0) == (initMode == 3), "the ack carries the init function's payload")
		zzsym.Assert(cf.nCloses() == 0, "an accepted connection is not closed")
		zzsym.Reach("c11.init.accepted")
	} else {
		for _, t := range me.types() {
			zzsym.Assert(t != connectionAckMessageType, "no ack on a refused handshake")
		}
		zzsym.Assert(cf.nCloses() == 1, "a refused handshake closes the connection (close callback exactly once)")
		zzsym.Reach("c11.init.refused")
	}
	if kind != int(initMessageType) || !payloadOK {
		zzsym.Assert(cf.inits == 0, "the init function only sees a well-formed connection_init")
	}
	zzsym.Assert(!me.overlap, "frames are never written concurrently")
}

// Harness_C11_subscribe: one started operation: executor verdict x 0..2
// payloads x panic at step k x subscription error: the frames for the id
// are data* then error and/or complete; the operation is deregistered and
// its context cancelled.
func Harness_C11_subscribe() {
	c11Subprotocol = graphqltransportwsSubprotocol
	ex := &c11Exec{mode: zzsym.Choice("verdict", 3), payloads: zzsym.Choice("payloads", zzsym.Param("maxpayloads", 2)+1), panicAt: zzsym.Choice("panicAt", zzsym.Param("maxpayloads", 2)+2) - 1, subErr: zzsym.Bool("subErr")}
	ex.panicInDispatch = ex.mode == 0 && ex.panicAt < 0 && !ex.subErr && zzsym.Choice("panicInDispatch", 2) == 1
	me := &c11ME{}
	cf := &c11Conf{}
	c := c11New(me, ex, cf, 0)
	body := []string{`{"query":"subscription { ticks }"}`, `{"query":`, `null`}[zzsym.Choice("payload", 3)]
	c.subscribe(graphql.Now(), &message{id: "op1", t: startMessageType, payload: json.RawMessage(body)})
	left := zzsym.Quiesce()
	zzsym.Assert(left == 0, "the operation's goroutine ends")
	fr := me.framesFor("op1")
	zzsym.Assert(c11WellFormed(fr), "frames for an id: data*, then error and/or complete, nothing after")
	c.mu.Lock()
	_, still := c.active["op1"]
	c.mu.Unlock()
	zzsym.Assert(!still, "a finished operation is deregistered")
	if body != `{"query":` && ex.mode == 0 {
		nd := 0
		for _, t := range fr {
			if t == dataMessageType {
				nd++
			}
		}
		wantData := ex.payloads
		if ex.panicAt >= 0 && ex.panicAt < ex.payloads {
			wantData = ex.panicAt
		}
		if ex.panicInDispatch {
			wantData = 0
			zzsym.Assert(len(fr) > 0 && fr[0] == errorMessageType, "a panic while the operation is dispatched is answered with an error for its id")
		}
		zzsym.Assert(nd == wantData, "every result produced before the end is delivered, in order")
		zzsym.Reach("c11.sub.ran")
	} else {
		ns, _, _ := ex.counts()
		zzsym.Assert(ns == 0, "a rejected or undecodable start executes nothing")
		zzsym.Reach("c11.sub.rejected")
	}
	zzsym.Assert(!me.overlap, "frames are never written concurrently")
}

// c11Script builds the client script: up to n frames from the alphabet.
func c11Frame(k int) c11In {
	start := func(id string) c11In {
		return c11In{m: message{t: startMessageType, id: id, payload: json.RawMessage(`{"query":"subscription { ticks }"}`)}}
	}
	switch k {
	case 0:
		return start("a")
	case 1:
		return start("b")
	case 2:
		return c11In{m: message{t: stopMessageType, id: "a"}}
	case 3:
		return c11In{m: message{t: stopMessageType, id: "b"}}
	case 4:
		return c11In{m: message{t: pingMessageType, payload: json.RawMessage(`{"p":1}`)}}
	case 5:
		return c11In{m: message{t: pongMessageType}}
	case 6:
		return c11In{m: message{t: connectionCloseMessageType}}
	case 7:
		return c11In{m: message{t: dataMessageType, id: "a"}} // a frame only the server may send
	default:
		return c11In{err: errors.New("connection reset by peer")}
	}
}

// Harness_C11_run: the reader loop on every client script of 1..3 frames over
// {start(a), start(b), stop(a), stop(b), ping, pong, terminate, unexpected
// frame, read failure} then end of stream, with long-lived operations (one
// result, then wait for cancellation) that may run between any two frames
// (a scheduling decision before every frame): every started id gets data*
// then error and/or complete under its own id, nothing under an id that was
// never started, stop / close / terminate cancel the affected operations,
// every goroutine ends and the close callback runs exactly once.
func Harness_C11_run() {
	c11Subprotocol = []string{graphqlwsSubprotocol, graphqltransportwsSubprotocol}[zzsym.Choice("subprotocol", 2)]
	n := 1 + zzsym.Choice("len", zzsym.Param("maxlen", 3))
	c11CloseSent = zzsym.Choice("closesent", 2) == 1
	defer func() { c11CloseSent = false }()
	me := &c11ME{preemptRead: true}
	started := map[string]int{}
	terminated := false
	for k := 0; k < n; k++ {
		f := zzsym.Choice("frame", zzsym.Param("alphabet", 9))
		in := c11Frame(f)
		me.script = append(me.script, in)
		if !terminated && in.err == nil && in.m.t == startMessageType {
			started[in.m.id]++
		}
		if in.err != nil || in.m.t == connectionCloseMessageType || in.m.t == dataMessageType {
			terminated = true // the loop ends here: later frames are never read
		}
	}
	zzsym.Assume(started["a"] <= 1 && started["b"] <= 1) // duplicate ids are outside the bound
	ex := &c11Exec{payloads: 1, panicAt: -1, longLived: true}
	cf := &c11Conf{}
	c := c11New(me, ex, cf, 0)
	c.run()
	left := zzsym.Quiesce()
	zzsym.Assert(left == 0, "all connection goroutines end once the connection is over")
	zzsym.Assert(cf.nCloses() == 1, "the close callback fires exactly once")
	for _, id := range []string{"a", "b"} {
		fr := me.framesFor(id)
		if started[id] > 0 {
			zzsym.Assert(c11WellFormed(fr), "a started id receives data*, then error and/or complete, nothing after")
			zzsym.Reach("c11.run.op")
		} else {
			zzsym.Assert(len(fr) == 0, "no result, error or completion for an id that was never started")
		}
	}
	zzsym.Assert(len(me.framesFor("")) == 0, "no operation frame without an id")
	nStarted, nCancelled, nFinished := ex.counts()
	zzsym.Assert(nStarted == started["a"]+started["b"], "each start frame read before the end starts one operation")
	zzsym.Assert(nCancelled == nStarted && nFinished == nStarted, "stop / close cancels every affected operation and it ends")
	c.mu.Lock()
	zzsym.Assert(len(c.active) == 0, "no operation stays registered")
	c.mu.Unlock()
	zzsym.Assert(!me.overlap, "frames are never written concurrently")
	zzsym.Reach("c11.run")
}

// Harness_C11_initTimeout: with an init timeout configured, the client either
// sends connection_init or stays silent until the socket is closed; the timer
// may fire at any scheduling point. Whatever happens first, the handshake is
// decided once, a refused connection is closed (close callback once), and the
// helper goroutine reading the first frame ends - nothing is left running.
func Harness_C11_initTimeout() {
	c11Subprotocol = []string{graphqlwsSubprotocol, graphqltransportwsSubprotocol}[zzsym.Choice("subprotocol", 2)]
	me := &c11ME{blockAtEnd: make(chan struct{})}
	silent := zzsym.Choice("client", 2) == 0
	if !silent {
		me.script = []c11In{{m: message{t: initMessageType}}}
	}
	cf := &c11Conf{}
	cf.onClose = func() { close(me.blockAtEnd) } // closing the socket makes the pending read fail
	c := c11New(me, &c11Exec{panicAt: -1}, cf, 0)
	c.InitTimeout = time.Millisecond
	ok := c.init()
	if ok {
		// an accepted connection is then closed by the peer going away
		c.close(websocket.CloseNormalClosure, "bye")
	}
	left := zzsym.Quiesce()
	zzsym.Assert(left == 0, "the goroutine reading the first frame ends once the connection is closed")
	zzsym.Assert(cf.nCloses() == 1, "the close callback fires exactly once")
	if silent {
		zzsym.Assert(!ok, "a silent client is refused when the init timeout fires")
		zzsym.Reach("c11.timeout.fired")
	}
	// (whether a prompt connection_init beats the timer is a scheduling matter: both outcomes are explored)
}

// Harness_C11_tickers: run() with the timers on - graphql-ws keep-alive,
// graphql-transport-ws pong-only and ping/pong (missing pong tolerated or
// not) - ticks firing at any scheduling point, zero or one long-lived
// operation started, and the session ended either by the server's context
// being cancelled at any point or by the peer going away: every timer
// goroutine and the cancel watcher end, the operation is cancelled and
// terminated under its id, the close callback fires once, frames are never
// written concurrently, and the timers only ever emit their own frame type.
func Harness_C11_tickers() {
	mode := zzsym.Choice("timer", 4)
	c11Subprotocol = graphqltransportwsSubprotocol
	if mode == 0 {
		c11Subprotocol = graphqlwsSubprotocol
	}
	me := &c11ME{} // unordered Sends are found by the race check on the fake's plain "sending" field
	withOp := zzsym.Choice("op", 2) == 1
	if withOp {
		me.script = append(me.script, c11In{m: message{t: startMessageType, id: "a", payload: json.RawMessage(`{"query":"subscription { x }"}`)}})
	}
	serverCancels := zzsym.Choice("end", 2) == 0
	if serverCancels {
		me.blockAtEnd = make(chan struct{}) // the client stays connected and silent
	}
	ex := &c11Exec{payloads: 1, panicAt: -1, longLived: true}
	cf := &c11Conf{}
	if serverCancels {
		cf.onClose = func() { close(me.blockAtEnd) } // closing the socket makes the pending read fail
	}
	c := c11New(me, ex, cf, 0)
	ctx, cancel := context.WithCancel(context.Background())
	defer cancel()
	c.ctx = ctx
	switch mode {
	case 0:
		c.KeepAlivePingInterval = time.Millisecond
	case 1:
		c.PongOnlyInterval = time.Millisecond
	case 2:
		c.PingPongInterval = time.Millisecond
		c.MissingPongOk = true
	case 3:
		c.PingPongInterval = time.Millisecond
	}
	if serverCancels {
		go cancel()
	}
	c.run()
	left := zzsym.Quiesce()
	zzsym.Assert(left == 0, "timer goroutines, the cancel watcher and the operation end once the connection is over")
	zzsym.Assert(cf.nCloses() == 1, "the close callback fires exactly once")
	zzsym.Assert(!me.overlap, "frames are never written concurrently")
	fr := me.framesFor("a")
	nStarted, nCancelled, nFinished := ex.counts()
	if nStarted > 0 {
		zzsym.Assert(c11WellFormed(fr), "a started id receives data*, then error and/or complete, nothing after")
		zzsym.Assert(nCancelled == 1 && nFinished == 1, "ending the session cancels the running operation and it ends")
		zzsym.Reach("c11.tickers.op")
	} else {
		zzsym.Assert(len(fr) == 0, "no result, error or completion for an id that was never started")
	}
	own := map[int]messageType{0: keepAliveMessageType, 1: pongMessageType, 2: pingMessageType, 3: pingMessageType}[mode]
	for _, t := range me.types() {
		ok := t == own || t == dataMessageType || t == errorMessageType || t == completeMessageType || t == connectionErrorMessageType
		zzsym.Assert(ok, "a timer only ever emits its own frame type")
	}
	c.mu.Lock()
	zzsym.Assert(len(c.active) == 0, "no operation stays registered")
	c.mu.Unlock()
	zzsym.Reach("c11.tickers")
}
