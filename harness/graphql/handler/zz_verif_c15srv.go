package handler

import (
	"context"
	"crypto/sha256"
	"encoding/hex"
	"encoding/json"
	"io"
	"net/http"
	"net/url"
	"strings"

	"github.com/vektah/gqlparser/v2/ast"

	"github.com/99designs/gqlgen/graphql"
	"github.com/99designs/gqlgen/graphql/handler/extension"
	"github.com/99designs/gqlgen/graphql/handler/lru"
	"github.com/99designs/gqlgen/graphql/handler/transport"
	"github.com/99designs/gqlgen/zzsym"
)

func Setup_C15_server() { Setup_C09_http() }

// c15Store is an inspectable APQ store.
type c15Store struct{ m map[string]string }

func (c *c15Store) Get(ctx context.Context, k string) (string, bool) { v, ok := c.m[k]; return v, ok }
func (c *c15Store) Add(ctx context.Context, k string, v string)      { c.m[k] = v }

// two unrelated texts, and two that differ only in white space inside a string literal
var c15Texts = []string{`query T0 { me { name } }`, `query T1 { me { id } }`, `query T2 { user(id: "a b") { name } }`, `query T2 { user(id: "a  b") { name } }`,
	`query t0 { me { name } }`, `query T3 { user(id: "K") { name } }`, `query T3 { user(id: "k") { name } }`, `query T1 { me { id  } }`} // the last four: letter case / white space twins
var c15Execs = []string{"query:T0", "query:T1", "query:T2(a b)", "query:T2(a  b)", "query:t0", "query:T3(K)", "query:T3(k)", "query:T1"}

// c15Other: a different text whose hash a request may (wrongly) carry: the twin where there is one
var c15Other = []int{4, 7, 3, 2, 0, 6, 5, 1}

func c15Sum(s string) string {
	h := sha256.Sum256([]byte(s))
	return hex.EncodeToString(h[:])
}

func c15Ext(hash string) string {
	return `{"persistedQuery":{"version":1,"sha256Hash":"` + hash + `"}}`
}

// Harness_C15_server: histories of 2 [3] HTTP requests through one Server
// (POST and GET transports, the APQ extension, the real executor) over
// {text only, text+own hash, text+the other text's hash, hash only by POST,
// hash only by GET, a body that fails JSON decoding after its query and
// extensions members were read} x 4 texts (two differing only in white space inside a string literal) x document cache off/on, against the three-line model
// hash -> text: a hash-only request executes exactly the registered text or
// is answered PersistedQueryNotFound, a mismatch or an undecodable body
// executes and registers nothing, and the store only ever maps a hash to the
// text with that SHA-256.
func Harness_C15_server() {
	es := &hES{}
	store := &c15Store{m: map[string]string{}}
	srv := New(es)
	srv.AddTransport(transport.GET{})
	srv.AddTransport(transport.POST{})
	// the registry: an unbounded map, or the LRU of graphql/handler/lru with room for 1 / 2 entries (so that histories evict);
	// the model is then exact as well: least recently registered-or-resolved entry goes first
	lruCap := []int{0, 1, 2}[zzsym.Choice("apqcache", 1+2*zzsym.Param("evict", 0))]
	if lruCap == 0 {
		srv.Use(extension.AutomaticPersistedQuery{Cache: store})
	} else {
		srv.Use(extension.AutomaticPersistedQuery{Cache: lru.New[string](lruCap)})
	}
	var order []string // hashes in the model, least recently used first (only tracked for the LRU registries)
	touch := func(h string) {
		for k, x := range order {
			if x == h {
				order = append(order[:k:k], order[k+1:]...)
				break
			}
		}
		order = append(order, h)
	}
	evict := zzsym.Param("evict", 0) == 1
	dc := 0
	if !evict {
		dc = zzsym.Choice("doccache", 3)
	}
	switch dc {
	case 1:
		srv.SetQueryCache(graphql.MapCache[*ast.QueryDocument]{})
	case 2:
		srv.SetQueryCache(lru.New[*ast.QueryDocument](100)) // what NewDefaultServer installs
	}
	model := map[string]string{}
	n := zzsym.Param("hist", 2)
	for step := 0; step < n; step++ {
		var kind int
		if evict {
			// the kinds that read or write the registry
			kind = []int{1, 3, 4, 0, 2}[zzsym.Choice("kind", 5)]
		} else {
			kind = zzsym.Choice("kind", zzsym.Param("kinds", 12))
		}
		ti := zzsym.Choice("text", zzsym.Param("texts", len(c15Texts)))
		text, other := c15Texts[ti], c15Texts[c15Other[ti]]
		q, _ := json.Marshal(text)
		var r *http.Request
		post := func(body string) {
			r = &http.Request{Method: "POST", Header: http.Header{}, URL: &url.URL{Path: "/"}, Body: io.NopCloser(strings.NewReader(body))}
			r.Header.Set("Content-Type", "application/json")
		}
		wantExec, wantStatus, wantErr := "", 200, ""
		get := func(text, ext string) {
			r = &http.Request{Method: "GET", Header: http.Header{}, URL: &url.URL{Path: "/", RawQuery: "query=" + url.QueryEscape(text) + "&extensions=" + url.QueryEscape(ext)}}
		}
		switch kind {
		case 10: // text + its own hash over GET: registers like the POST does
			get(text, c15Ext(c15Sum(text)))
			wantExec = text
			model[c15Sum(text)] = text
			touch(c15Sum(text))
			if lruCap > 0 && len(order) > lruCap {
				delete(model, order[0])
				order = order[1:]
			}
		case 11: // text + the other text's hash over GET: rejected
			get(text, c15Ext(c15Sum(other)))
			wantErr = "provided APQ hash does not match query"
		case 0: // text only
			post(`{"query":` + string(q) + `}`)
			wantExec = text
		case 1: // text + its own hash: registers
			post(`{"query":` + string(q) + `,"extensions":` + c15Ext(c15Sum(text)) + `}`)
			wantExec = text
			model[c15Sum(text)] = text
			touch(c15Sum(text))
			if lruCap > 0 && len(order) > lruCap {
				delete(model, order[0])
				order = order[1:]
			}
		case 2: // text + the other text's hash: rejected
			post(`{"query":` + string(q) + `,"extensions":` + c15Ext(c15Sum(other)) + `}`)
			wantErr = "provided APQ hash does not match query"
		case 3, 4: // hash only
			if kind == 3 {
				post(`{"extensions":` + c15Ext(c15Sum(text)) + `}`)
			} else {
				r = &http.Request{Method: "GET", Header: http.Header{}, URL: &url.URL{Path: "/", RawQuery: "extensions=" + url.QueryEscape(c15Ext(c15Sum(text)))}}
			}
			if t, ok := model[c15Sum(text)]; ok {
				wantExec = t
				touch(c15Sum(text))
			} else {
				wantErr = "PersistedQueryNotFound"
			}
		case 7: // malformed extension: no hash at all (hash-only shape)
			post(`{"extensions":{"persistedQuery":{"version":1}}}`)
			wantErr = "PersistedQueryNotFound"
		case 8: // malformed extension: no version
			post(`{"extensions":{"persistedQuery":{"sha256Hash":"` + c15Sum(text) + `"}}}`)
			wantErr = "unsupported APQ version"
		case 9: // text with an extension that carries no hash: not a registration
			post(`{"query":` + string(q) + `,"extensions":{"persistedQuery":{"version":1}}}`)
			wantErr = "provided APQ hash does not match query"
		case 5: // undecodable after query and extensions (a registration attempt) were read
			post(`{"query":` + string(q) + `,"extensions":` + c15Ext(c15Sum(text)) + `,"variables":[]}`)
			wantStatus = 400
		case 6: // undecodable, carrying the other text's hash
			post(`{"query":` + string(q) + `,"extensions":` + c15Ext(c15Sum(other)) + `,"operationName":5}`)
			wantStatus = 400
		}
		if zzsym.Param("cancelled", 0) == 1 {
			// the caller has gone away before the request is handled: the verdict on the hash is the same
			cctx, cancel := context.WithCancel(context.Background())
			cancel()
			r = r.WithContext(cctx)
		}
		w := newHWriter()
		before := len(es.execs)
		srv.ServeHTTP(w, r)
		hCheckBody(w)
		body := w.body.String()
		if wantStatus == 400 {
			zzsym.Assert(w.status == 400, "a body that cannot be decoded is answered 400")
			zzsym.Assert(len(es.execs) == before, "a body that cannot be decoded executes nothing")
		} else if wantExec != "" {
			zzsym.Assert(len(es.execs) == before+1, "the request executes exactly one operation")
			if len(es.execs) == before+1 {
				want := ""
				for k, t := range c15Texts {
					if t == wantExec {
						want = c15Execs[k]
					}
				}
				zzsym.Assert(es.execs[before] == want, "a hash-only request executes exactly the text registered with that hash; a text request executes its own text")
			}
			zzsym.Assert(!strings.Contains(body, `"errors"`), "an executable request is answered without errors")
		} else {
			zzsym.Assert(len(es.execs) == before, "a rejected request executes nothing")
			zzsym.Assert(strings.Contains(body, wantErr), "the rejection names its cause (PersistedQueryNotFound / hash mismatch)")
		}
		zzsym.Assert(lruCap > 0 || len(store.m) == len(model), "only a text sent with its own hash registers an entry")
		for k, v := range store.m {
			zzsym.Assert(c15Sum(v) == k && model[k] == v, "the store maps a hash only to the text with that SHA-256")
		}
	}
	zzsym.Reach("c15.server")
}
