package handler

import (
	"context"
	"io"
	"net/http"
	"net/url"
	"strings"

	"github.com/99designs/gqlgen/graphql"
	"github.com/99designs/gqlgen/zzsym"
)

func Setup_C03_history() { Setup_C09_http() }

// c03Hooks records every interceptor invocation.
type c03Hooks struct{ log []string }

func (h *c03Hooks) ExtensionName() string                          { return "hooks" }
func (h *c03Hooks) Validate(schema graphql.ExecutableSchema) error { return nil }
func (h *c03Hooks) InterceptOperation(ctx context.Context, next graphql.OperationHandler) graphql.ResponseHandler {
	h.log = append(h.log, "operation")
	return next(ctx)
}
func (h *c03Hooks) InterceptResponse(ctx context.Context, next graphql.ResponseHandler) *graphql.Response {
	// (the response interceptor also wraps error responses: not counted)
	return next(ctx)
}
func (h *c03Hooks) InterceptRootField(ctx context.Context, next graphql.RootResolver) graphql.Marshaler {
	h.log = append(h.log, "rootfield")
	return next(ctx)
}
func (h *c03Hooks) InterceptField(ctx context.Context, next graphql.Resolver) (any, error) {
	h.log = append(h.log, "field")
	return next(ctx)
}

// requests that are fine on their own (they leave state behind in whatever is shared between requests)
var c03First = []string{
	`{"query":"query Q($id: ID!) { user(id: $id) { name } }","variables":{"id":"7"},"operationName":"Q"}`,
	`{"query":"query A { me { id } } mutation B($name: String!) { rename(name: $name) { id } }","operationName":"B","variables":{"name":"n","id":"9"}}`,
	`{"query":"{ me { name } }","extensions":{"x":1}}`,
	`{"query":"query Q($id: ID!) { user(id: $id) { name } }","variables":[]}`, // fails decoding after the query was read
}

// requests that must be rejected before anything executes, whatever came before
var c03Rejected = []string{
	`{"query":"query Q($id: ID!) { user(id: $id) { name } }"}`,                         // required variable not supplied
	`{"query":"query Q($id: ID!) { user(id: $id) { name } }","variables":{}}`,          // the same, empty object
	`{"query":"query Q($id: ID!) { user(id: $id) { name } }","variables":{"other":1}}`, // the same, other keys only
	`{"query":"mutation B($name: String!) { rename(name: $name) { id } }"}`,            // the same for a mutation
	`{"query":"query Q($id: ID!) { user(id: $id) { name } }","variables":{"id":null}}`, // null for a non-null variable
	`{"query":"query A { me { id } } mutation B { rename(name: \"x\") { id } }"}`,      // no operation name for two operations
	`{"query":"query A { me { id } }","operationName":"Q"}`,                            // unknown operation name
	`{"query":"{ me { nam } }"}`, // validation error
	`{"query":"{ me { name }"}`,  // parse error
	`{"variables":{"id":"7"}}`,   // no query at all
}

// Harness_C03_history: whatever request a server answered before (through
// the same POST transport and its recycled parameter object), a request that
// fails parsing, validation, operation selection or variable coercion reaches
// no interceptor and no resolver and is answered with errors only.
func Harness_C03_history() {
	es := &hES{}
	hooks := &c03Hooks{}
	srv := hServer(es, nil)
	srv.Use(hooks)
	post := func(body string) *hWriter {
		r := &http.Request{Method: "POST", Header: http.Header{}, URL: &url.URL{Path: "/"}, Body: io.NopCloser(strings.NewReader(body))}
		r.Header.Set("Content-Type", "application/json")
		w := newHWriter()
		srv.ServeHTTP(w, r)
		return w
	}
	for k := zzsym.Param("hist", 1); k > 0; k-- {
		post(c03First[zzsym.Choice("first", len(c03First))])
	}
	execs, calls := len(es.execs), len(hooks.log)
	w := post(c03Rejected[zzsym.Choice("rejected", len(c03Rejected))])
	hCheckBody(w)
	zzsym.Assert(len(hooks.log) == calls, "a rejected request reaches no operation, root-field or field interceptor")
	zzsym.Assert(len(es.execs) == execs, "a rejected request reaches no resolver")
	zzsym.Assert(strings.Contains(w.body.String(), `"errors"`) && !strings.Contains(w.body.String(), `"data":{`), "a rejected request is answered with errors only")
	zzsym.Assert(w.status < 200 || w.status > 299, "a rejected request is answered with a client-error status")
	zzsym.Reach("c03.history")
}
