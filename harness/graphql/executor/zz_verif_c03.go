package executor

import (
	"context"
	"fmt"
	"sync"

	"github.com/vektah/gqlparser/v2"
	"github.com/vektah/gqlparser/v2/ast"
	"github.com/vektah/gqlparser/v2/gqlerror"

	"github.com/99designs/gqlgen/graphql"
	"github.com/99designs/gqlgen/graphql/handler/lru"
	"github.com/99designs/gqlgen/zzsym"
)

const c03SDL = `
type User { id: ID! name: String friends(first: Int): [User!] }
type Query { me: User user(id: ID!): User }
type Mutation { rename(name: String!): User }
type Subscription { ticks: Int }
`

type c03Req struct {
	query    string
	op       string
	vars     map[string]any
	valid    bool // expected verdict of parsing + validation + operation selection + variable coercion
	docValid bool // the document alone parses and validates (what may be cached)
}

var (
	c03Log   []string
	c03LogMu sync.Mutex // hooks of concurrent requests log side by side
)

func c03Ev(name string, idx int) {
	s := name
	if idx >= 0 {
		s = fmt.Sprintf("%s %d", name, idx)
	}
	c03LogMu.Lock()
	c03Log = append(c03Log, s)
	c03LogMu.Unlock()
	zzsym.Event(s)
}

var c03Corpus = []c03Req{
	{`{ me { name } }`, "", nil, true, true},
	{`query A { me { id } } query B { me { name } }`, "B", nil, true, true},
	{`{ me { name } }`, "Other", nil, false, true},                           // a name requested that the (anonymous) document does not define
	{`mutation { rename(name: "x") { id } }`, "M", nil, false, true},         // the same for a mutation
	{`query A { me { id } } query B { me { name } }`, "C", nil, false, true}, // unknown operation name
	{`query A { me { id } } query B { me { name } }`, "", nil, false, true},  // ambiguous
	{`{ me { name }`, "", nil, false, false},                                 // parse error
	{`{ me { nam } }`, "", nil, false, false},                                // unknown field (suggestion path)
	{`fragment F on User { id }`, "", nil, false, false},                     // no operation
	{`query Q($id: ID!) { user(id: $id) { name } }`, "", map[string]any{"id": "7"}, true, true},
	{`query Q($id: ID!) { user(id: $id) { name } }`, "", nil, false, true},                               // missing required variable
	{`query Q($n: Int) { me { friends(first: $n) { id } } }`, "", map[string]any{"n": "x"}, false, true}, // wrong variable type
	{`mutation M { rename(name: "x") { id } }`, "", nil, true, true},
	{`{ me { ...F } } fragment F on User { id ...F }`, "", nil, false, false}, // fragment cycle
}

// lexical tokens of each corpus document, counted by hand (names, punctuators, strings, spreads; "$id" is two)
var c03Tokens = []int{6, 16, 6, 12, 16, 16, 5, 6, 7, 22, 22, 24, 13, 16}

var c03Schema *ast.Schema

func Setup_C03_gates() {
	c03Schema = gqlparser.MustLoadSchema(&ast.Source{Name: "c03.graphql", Input: c03SDL})
}

func Setup_C03_hooks() { Setup_C03_gates() }

type c03ES struct{}

func (c03ES) Schema() *ast.Schema { return c03Schema }
func (c03ES) Complexity(ctx context.Context, typeName, fieldName string, childComplexity int, args map[string]any) (int, bool) {
	return 0, false
}

// Exec mimics a generated executor: one root field through the root-field
// middleware, one field through the field middleware, one response.
func (c03ES) Exec(ctx context.Context) graphql.ResponseHandler {
	c03Ev("exec", -1)
	opCtx := graphql.GetOperationContext(ctx)
	return graphql.OneShot(func() *graphql.Response {
		opCtx.RootResolverMiddleware(ctx, func(ctx context.Context) graphql.Marshaler {
			c03Ev("rootfield", -1)
			opCtx.ResolverMiddleware(ctx, func(ctx context.Context) (any, error) {
				c03Ev("resolver", -1)
				return nil, nil
			})
			return graphql.Null
		})
		return &graphql.Response{Data: []byte(`{}`)}
	}())
}

// c03LazyES mimics a generated executor more closely: Exec only returns the
// response function; each call of it resolves one response (a root field
// through the root-field middleware, a field through the field middleware) -
// `events` of them, then nil (a query has one, a subscription several).
type c03LazyES struct {
	c03ES
	events int
}

func (e c03LazyES) Exec(ctx context.Context) graphql.ResponseHandler {
	c03Ev("exec", -1)
	opCtx := graphql.GetOperationContext(ctx)
	sent := 0
	return func(ctx context.Context) *graphql.Response {
		if sent >= e.events {
			return nil
		}
		sent++
		opCtx.RootResolverMiddleware(ctx, func(ctx context.Context) graphql.Marshaler {
			c03Ev("rootfield", -1)
			opCtx.ResolverMiddleware(ctx, func(ctx context.Context) (any, error) {
				c03Ev("resolver", -1)
				return nil, nil
			})
			return graphql.Null
		})
		return &graphql.Response{Data: []byte(`{}`)}
	}
}

// ---- fakes

type c03ParamMutator struct {
	idx    int
	reject bool
}

func (m *c03ParamMutator) ExtensionName() string                          { return fmt.Sprint("pm", m.idx) }
func (m *c03ParamMutator) Validate(schema graphql.ExecutableSchema) error { return nil }
func (m *c03ParamMutator) MutateOperationParameters(ctx context.Context, request *graphql.RawParams) *gqlerror.Error {
	c03Ev("pm", m.idx)
	if m.reject {
		return gqlerror.Errorf("rejected by pm%d", m.idx)
	}
	return nil
}

type c03CtxMutator struct {
	idx    int
	reject bool
}

func (m *c03CtxMutator) ExtensionName() string                          { return fmt.Sprint("cm", m.idx) }
func (m *c03CtxMutator) Validate(schema graphql.ExecutableSchema) error { return nil }
func (m *c03CtxMutator) MutateOperationContext(ctx context.Context, opCtx *graphql.OperationContext) *gqlerror.Error {
	c03Ev("cm", m.idx)
	zzsym.Assert(opCtx.Doc != nil && opCtx.Operation != nil, "context mutators only see a parsed, validated, selected operation")
	if m.reject {
		return gqlerror.Errorf("rejected by cm%d", m.idx)
	}
	return nil
}

// c03Both implements both mutator interfaces in one extension value.
type c03Both struct {
	pm *c03ParamMutator
	cm *c03CtxMutator
}

func (m *c03Both) ExtensionName() string                          { return "both" }
func (m *c03Both) Validate(schema graphql.ExecutableSchema) error { return nil }
func (m *c03Both) MutateOperationParameters(ctx context.Context, request *graphql.RawParams) *gqlerror.Error {
	return m.pm.MutateOperationParameters(ctx, request)
}
func (m *c03Both) MutateOperationContext(ctx context.Context, opCtx *graphql.OperationContext) *gqlerror.Error {
	return m.cm.MutateOperationContext(ctx, opCtx)
}

// c03Cache is a query cache whose content is arbitrary but satisfies the
// invariant "every stored document was validated for exactly its key".
type c03Cache struct {
	stored map[string]*ast.QueryDocument
	adds   []string
}

func (c *c03Cache) Get(ctx context.Context, key string) (*ast.QueryDocument, bool) {
	d, ok := c.stored[key]
	if ok {
		c03Ev("cache.hit", -1)
	} else {
		c03Ev("cache.miss", -1)
	}
	return d, ok
}

func (c *c03Cache) Add(ctx context.Context, key string, value *ast.QueryDocument) {
	c03Ev("cache.add", -1)
	c.adds = append(c.adds, key)
	c.stored[key] = value
}

// Harness_C03_gates: for every corpus request x 0..2 parameter mutators and
// 0..2 context mutators each rejecting or not x cache {off, cold, warm with
// this query} x suggestions on/off: CreateOperationContext returns no error
// iff every gate passed, hooks ran in order and stopped at the first
// rejection, and the cache only ever receives validated documents under
// their own text.
func Harness_C03_gates() {
	c03Log = nil
	ri := zzsym.Choice("req", len(c03Corpus))
	req := c03Corpus[ri]
	e := New(c03ES{})
	if zzsym.Choice("tokenLimit", 2) == 1 {
		// a parser token limit well away from every corpus length: a document above it fails parsing (and is never cached)
		e.SetParserTokenLimit(10)
		if c03Tokens[ri] > 10 {
			req.valid, req.docValid = false, false
		}
	}
	npm := zzsym.Choice("npm", zzsym.Param("maxmut", 2)+1)
	ncm := zzsym.Choice("ncm", zzsym.Param("maxmut", 2)+1)
	var pms []*c03ParamMutator
	var cms []*c03CtxMutator
	// one extension value may implement both mutator interfaces (registered first: its hooks run first in both phases)
	combined := npm > 0 && ncm > 0 && zzsym.Choice("combined", 2) == 1
	if combined {
		b := &c03Both{pm: &c03ParamMutator{idx: 0, reject: zzsym.Bool("pm.reject")}, cm: &c03CtxMutator{idx: 0, reject: zzsym.Bool("cm.reject")}}
		pms = append(pms, b.pm)
		cms = append(cms, b.cm)
		e.Use(b)
	}
	for k := len(pms); k < npm; k++ {
		m := &c03ParamMutator{idx: k, reject: zzsym.Bool("pm.reject")}
		pms = append(pms, m)
		e.Use(m)
	}
	for k := len(cms); k < ncm; k++ {
		m := &c03CtxMutator{idx: k, reject: zzsym.Bool("cm.reject")}
		cms = append(cms, m)
		e.Use(m)
	}
	var cache *c03Cache
	warm := false
	switch zzsym.Choice("cache", 3) {
	case 1:
		cache = &c03Cache{stored: map[string]*ast.QueryDocument{}}
	case 2:
		cache = &c03Cache{stored: map[string]*ast.QueryDocument{}}
		if req.docValid {
			// warm: the document (which parses and validates) was stored by an earlier request
			doc, errs := gqlparser.LoadQuery(c03Schema, req.query)
			zzsym.Assert(errs == nil, "corpus annotation docValid matches the validator")
			cache.stored[req.query] = doc
			warm = true
		}
	}
	if cache != nil {
		e.SetQueryCache(cache)
	}
	if zzsym.Choice("nosuggest", 2) == 1 {
		e.SetDisableSuggestion(true)
	}

	params := &graphql.RawParams{Query: req.query, OperationName: req.op, Variables: req.vars}
	opCtx, errs := e.CreateOperationContext(graphql.StartOperationTrace(context.Background()), params)

	// expected verdict
	pmRejected := false
	for _, m := range pms {
		if m.reject {
			pmRejected = true
		}
	}
	cmRejected := false
	for _, m := range cms {
		if m.reject {
			cmRejected = true
		}
	}
	accepted := !pmRejected && req.valid && !cmRejected
	zzsym.Assert((len(errs) == 0) == accepted, "no error list iff every gate passed")
	if accepted {
		zzsym.Assert(opCtx.Doc != nil && opCtx.Operation != nil, "accepted request has a document and a selected operation")
		zzsym.Assert(opCtx.Operation == opCtx.Doc.Operations.ForName(req.op), "the selected operation is the one the request names")
		zzsym.Assert(opCtx.DisableIntrospection, "introspection stays disabled unless an extension enables it")
		zzsym.Reach("gates.accepted")
	} else {
		zzsym.Reach("gates.rejected")
	}
	// expected hook sequence, built from the configuration alone
	var want []string
	func() {
		for _, m := range pms {
			want = append(want, fmt.Sprintf("pm %d", m.idx))
			if m.reject {
				return
			}
		}
		if cache != nil {
			if warm {
				want = append(want, "cache.hit")
			} else {
				want = append(want, "cache.miss")
				if req.docValid {
					want = append(want, "cache.add")
				}
			}
		}
		if !req.valid {
			return
		}
		for _, m := range cms {
			want = append(want, fmt.Sprintf("cm %d", m.idx))
			if m.reject {
				return
			}
		}
	}()
	c03Check(want)
	if cache != nil {
		for _, k := range cache.adds {
			zzsym.Assert(k == req.query, "cache.Add uses exactly the request's query text as key")
		}
		if len(cache.adds) > 0 {
			_, verr := gqlparser.LoadQuery(c03Schema, req.query)
			zzsym.Assert(verr == nil, "only documents that parse and validate are cached")
			zzsym.Assert(!pmRejected, "nothing is cached for a request rejected before parsing")
		}
	}
}

// ---- hook order

type c03Ext struct {
	idx  int
	mask int // bit0 operation, bit1 response, bit2 rootfield, bit3 field
}

func (x *c03Ext) ExtensionName() string                          { return fmt.Sprint("ext", x.idx) }
func (x *c03Ext) Validate(schema graphql.ExecutableSchema) error { return nil }

type c03OpI struct{ *c03Ext }

func (x c03OpI) InterceptOperation(ctx context.Context, next graphql.OperationHandler) graphql.ResponseHandler {
	c03Ev("op.enter", x.idx)
	r := next(ctx)
	c03Ev("op.exit", x.idx)
	return r
}

type c03RespI struct{ *c03Ext }

func (x c03RespI) InterceptResponse(ctx context.Context, next graphql.ResponseHandler) *graphql.Response {
	c03Ev("resp.enter", x.idx)
	r := next(ctx)
	c03Ev("resp.exit", x.idx)
	return r
}

type c03RootI struct{ *c03Ext }

func (x c03RootI) InterceptRootField(ctx context.Context, next graphql.RootResolver) graphql.Marshaler {
	c03Ev("root.enter", x.idx)
	r := next(ctx)
	c03Ev("root.exit", x.idx)
	return r
}

type c03FieldI struct{ *c03Ext }

func (x c03FieldI) InterceptField(ctx context.Context, next graphql.Resolver) (any, error) {
	c03Ev("field.enter", x.idx)
	r, err := next(ctx)
	c03Ev("field.exit", x.idx)
	return r, err
}

type c03All struct{ *c03Ext }

func (x c03All) InterceptOperation(ctx context.Context, next graphql.OperationHandler) graphql.ResponseHandler {
	return c03OpI{x.c03Ext}.InterceptOperation(ctx, next)
}
func (x c03All) InterceptResponse(ctx context.Context, next graphql.ResponseHandler) *graphql.Response {
	return c03RespI{x.c03Ext}.InterceptResponse(ctx, next)
}
func (x c03All) InterceptRootField(ctx context.Context, next graphql.RootResolver) graphql.Marshaler {
	return c03RootI{x.c03Ext}.InterceptRootField(ctx, next)
}
func (x c03All) InterceptField(ctx context.Context, next graphql.Resolver) (any, error) {
	return c03FieldI{x.c03Ext}.InterceptField(ctx, next)
}

type c03RespField struct{ *c03Ext }

func (x c03RespField) InterceptResponse(ctx context.Context, next graphql.ResponseHandler) *graphql.Response {
	return c03RespI{x.c03Ext}.InterceptResponse(ctx, next)
}
func (x c03RespField) InterceptField(ctx context.Context, next graphql.Resolver) (any, error) {
	return c03FieldI{x.c03Ext}.InterceptField(ctx, next)
}

// Harness_C03_hooks: for every list of 0..3 extensions drawn from five hook
// subsets, one accepted operation runs the hooks in lifecycle order with the
// first-registered extension outermost, each exactly once, and the executor
// terminal exactly once.
func Harness_C03_hooks() {
	c03Log = nil
	// 0: everything resolved while Exec runs; 1: a query resolved inside its response function; 2: a subscription with two events
	mode := zzsym.Choice("mode", 3)
	e := New(c03ES{})
	query := `{ me { name } }`
	events := 1
	switch mode {
	case 1:
		e = New(c03LazyES{events: 1})
	case 2:
		e = New(c03LazyES{events: 2})
		query, events = `subscription { ticks }`, 2
	}
	n := zzsym.Choice("next", zzsym.Param("maxext", 3)+1)
	var masks []int
	for k := 0; k < n; k++ {
		b := &c03Ext{idx: k}
		switch zzsym.Choice("kind", 5) {
		case 0:
			b.mask = 1
			e.Use(c03OpI{b})
		case 1:
			b.mask = 2
			e.Use(c03RespI{b})
		case 2:
			b.mask = 4
			e.Use(c03RootI{b})
		case 3:
			b.mask = 2 | 8
			e.Use(c03RespField{b})
		default:
			b.mask = 15
			e.Use(c03All{b})
		}
		masks = append(masks, b.mask)
	}
	ctx := graphql.StartOperationTrace(context.Background())
	opCtx, errs := e.CreateOperationContext(ctx, &graphql.RawParams{Query: query})
	zzsym.Assert(len(errs) == 0, "corpus operation accepted")
	rh, ctx2 := e.DispatchOperation(ctx, opCtx)
	resp := rh(ctx2)
	zzsym.Assert(resp != nil && string(resp.Data) == `{}`, "response delivered through the response middleware")
	if mode != 0 {
		// a transport calls the response function until it answers nil
		for k := 1; k < events; k++ {
			zzsym.Assert(rh(ctx2) != nil, "one response per event")
		}
		zzsym.Assert(rh(ctx2) == nil, "then the end of the sequence")
	}
	// expected log, built independently from the registration list
	var want []string
	enter := func(name string, bit int) {
		for k, m := range masks {
			if m&bit != 0 {
				want = append(want, fmt.Sprintf("%s.enter %d", name, k))
			}
		}
	}
	exit := func(name string, bit int) {
		for k := len(masks) - 1; k >= 0; k-- {
			if masks[k]&bit != 0 {
				want = append(want, fmt.Sprintf("%s.exit %d", name, k))
			}
		}
	}
	if mode == 0 {
		enter("op", 1)
		want = append(want, "exec")
		enter("root", 4)
		want = append(want, "rootfield")
		enter("field", 8)
		want = append(want, "resolver")
		exit("field", 8)
		exit("root", 4)
		exit("op", 1)
		enter("resp", 2)
		exit("resp", 2)
	} else {
		// the operation hooks wrap the creation of the response function; every call of it - also the
		// last one, which answers nil - is wrapped by the response hooks, and what it resolves runs inside them
		enter("op", 1)
		want = append(want, "exec")
		exit("op", 1)
		for k := 0; k < events; k++ {
			enter("resp", 2)
			enter("root", 4)
			want = append(want, "rootfield")
			enter("field", 8)
			want = append(want, "resolver")
			exit("field", 8)
			exit("root", 4)
			exit("resp", 2)
		}
		enter("resp", 2)
		exit("resp", 2)
	}
	c03Check(want)
}

// c03Check compares the expected hook sequence with the recorded one.
func c03Check(want []string) {
	got := c03Log
	zzsym.Assert(len(got) == len(want), "every hook ran exactly once per operation / response / field")
	for k := range want {
		zzsym.Assert(k < len(got) && got[k] == want[k], "hooks run in lifecycle order, first registered outermost")
	}
	zzsym.Reach("hooks.checked")
}

func Setup_C03_concurrent() { Setup_C03_gates() }

// Harness_C03_concurrent: two requests in flight on one Executor (every
// interleaving at synchronisation points, happens-before race check on every
// access): each gets the verdict it gets alone, and the executor has no data
// race - with suggestions on or off, with or without a shared query cache.
func Harness_C03_concurrent() {
	e := New(c03ES{})
	if zzsym.Choice("nosuggest", 2) == 1 {
		e.SetDisableSuggestion(true)
	}
	if zzsym.Choice("cache", 2) == 1 {
		// a cache that may be shared by concurrent requests (graphql.MapCache is a bare map, meant for tests of one request at a time)
		e.SetQueryCache(lru.New[*ast.QueryDocument](10))
	}
	// extensions registered before the first request: a gate that may reject everything, and an operation-context mutator
	gate := zzsym.Choice("gate", 3) // 0 no extension, 1 a parameter mutator that lets everything through, 2 one that rejects everything
	if gate > 0 {
		e.Use(&c03ParamMutator{idx: 0, reject: gate == 2})
		e.Use(&c03CtxMutator{idx: 1})
	}
	reqs := []c03Req{c03Corpus[0], c03Corpus[5]}
	ok := make([]bool, 2)
	done := make(chan int, 2)
	for k := range reqs {
		k := k
		go func() {
			_, errs := e.CreateOperationContext(graphql.StartOperationTrace(context.Background()), &graphql.RawParams{Query: reqs[k].query})
			ok[k] = len(errs) == 0
			done <- k
		}()
	}
	<-done
	<-done
	if gate == 2 {
		zzsym.Assert(!ok[0] && !ok[1], "a gate that rejects everything rejects concurrent first requests too")
	} else {
		zzsym.Assert(ok[0] && !ok[1], "concurrent requests get the verdicts they get alone")
	}
	zzsym.Reach("c03.concurrent")
}

// one document per validation rule of the GraphQL specification (each invalid
// only by that rule), against c03SDL
var c03RuleDocs = []string{
	`{ me { nam } }`,                                 // FieldsOnCorrectType
	`{ me { ... on ID { x } } }`,                     // FragmentsOnCompositeTypes / KnownTypeNames
	`{ me { friends(firs: 1) { id } } }`,             // KnownArgumentNames
	`{ me @nope { id } }`,                            // KnownDirectives
	`{ me { ...Missing } }`,                          // KnownFragmentNames
	`subscription { me { id } }`,                     // KnownRootType
	`{ me { ... on Nope { id } } }`,                  // KnownTypeNames
	`{ me { id } } query B { me { id } }`,            // LoneAnonymousOperation
	`{ me { ...F } } fragment F on User { id ...F }`, // NoFragmentCycles
	`{ user(id: $id) { id } }`,                       // NoUndefinedVariables
	`{ me { id } } fragment Unused on User { id }`,   // NoUnusedFragments
	`query Q($x: Int) { me { id } }`,                 // NoUnusedVariables
	`{ me { a: id a: name } }`,                       // OverlappingFieldsCanBeMerged
	`{ me { ... on Query { me { id } } } }`,          // PossibleFragmentSpreads
	`{ user { id } }`,                                // ProvidedRequiredArguments
	`{ me }`,                                         // ScalarLeafs (selection required)
	`{ me { id { x } } }`,                            // ScalarLeafs (selection forbidden)
	`{ user(id: "1", id: "2") { id } }`,              // UniqueArgumentNames
	`{ me @skip(if: true) @skip(if: false) { id } }`, // UniqueDirectivesPerLocation
	`{ me { ...F } } fragment F on User { id } fragment F on User { name } `, // UniqueFragmentNames
	`query A { me { id } } query A { me { name } }`,                          // UniqueOperationNames
	`query Q($x: Int, $x: Int) { me { friends(first: $x) { id } } }`,         // UniqueVariableNames
	`{ me { friends(first: "one") { id } } }`,                                // ValuesOfCorrectType (wrong scalar)
	`{ me { friends(first: {a: 1}) { id } } }`,                               // ValuesOfCorrectType (object for scalar)
	`{ user(id: null) { id } }`,                                              // ValuesOfCorrectType (null for non-null)
	`mutation { rename(name: 5) { id } }`,                                    // ValuesOfCorrectType (mutation)
	`query Q($u: User) { me { id } }`,                                        // VariablesAreInputTypes
	`query Q($n: String) { me { friends(first: $n) { id } } }`,               // VariablesInAllowedPosition
	`query Q($id: ID) { user(id: $id) { id } }`,                              // VariablesInAllowedPosition (nullable into non-null)
}

func Setup_C03_rules() { Setup_C03_gates() }

// Harness_C03_rules: a document violating any one validation rule of the
// specification is rejected before any interceptor or resolver runs - with
// suggestions on or off, with or without a query cache, and also after an
// executor with suggestions disabled served a request in the same process
// (the rule set it edits is global) - and is never cached.
func Harness_C03_rules() {
	c03Log = nil
	di := zzsym.Choice("doc", len(c03RuleDocs))
	if zzsym.Choice("prior", 2) == 1 {
		other := New(c03ES{})
		other.SetDisableSuggestion(true)
		rc, errs := other.CreateOperationContext(graphql.StartOperationTrace(context.Background()), &graphql.RawParams{Query: `{ me { name } }`})
		zzsym.Assert(len(errs) == 0 && rc != nil, "a valid request is accepted with suggestions disabled")
		c03Log = nil
	}
	e := New(c03ES{})
	e.Use(c03All{&c03Ext{idx: 0, mask: 15}})
	var cache *c03Cache
	if zzsym.Choice("cache", 2) == 1 {
		cache = &c03Cache{stored: map[string]*ast.QueryDocument{}}
		e.SetQueryCache(cache)
	}
	if zzsym.Choice("nosuggest", 2) == 1 {
		e.SetDisableSuggestion(true)
	}
	ctx := graphql.StartOperationTrace(context.Background())
	_, errs := e.CreateOperationContext(ctx, &graphql.RawParams{Query: c03RuleDocs[di]})
	zzsym.Assert(len(errs) > 0, "a document that violates a validation rule is rejected")
	for _, ev := range c03Log {
		ran := len(ev) >= 3 && (ev[:3] == "op." || ev[:3] == "roo" || ev[:3] == "fie" || ev[:3] == "exe" || ev[:3] == "res")
		zzsym.Assert(!ran, "nothing runs for a rejected document")
	}
	if cache != nil {
		zzsym.Assert(len(cache.stored) == 0, "an invalid document is never cached")
	}
	zzsym.Reach("c03.rules")
}

// pairs (valid, invalid) of documents that differ only in white space, line
// ends or comments - and a pair of valid documents that differ in a literal
var c03Twins = [][2]string{
	{"# fetch the name\n{ me { name } }", "# fetch the name { me { name } }"},
	{"{ me { name } } # trailing\n", "{ me { name } # trailing }"},
	{"{ user(id: \"a b\") { name } }", "{ user(id: \"a\nb\") { name } }"},
	{"{ me {name} }", "{ me {nam e} }"},
	{"{ me { name } }", "{ me { name } }\x00"},
}

func Setup_C03_cacheKeys() { Setup_C03_gates() }

// Harness_C03_cacheKeys: with a query cache (the map cache or the LRU cache
// the default server uses) a valid document is served first and then a
// document that differs from it only in white space, line ends or comments
// and is invalid: the second is rejected and nothing runs - a cache hit must
// not stand in for parsing and validating another text.
func Harness_C03_cacheKeys() {
	c03Log = nil
	pair := c03Twins[zzsym.Choice("pair", len(c03Twins))]
	e := New(c03ES{})
	e.Use(c03All{&c03Ext{idx: 0, mask: 15}})
	switch zzsym.Choice("cache", 3) {
	case 0:
		e.SetQueryCache(graphql.MapCache[*ast.QueryDocument]{})
	case 1:
		e.SetQueryCache(lru.New[*ast.QueryDocument](10))
	case 2:
		e.SetQueryCache(lru.New[*ast.QueryDocument](1))
	}
	ctx := graphql.StartOperationTrace(context.Background())
	rc, errs := e.CreateOperationContext(ctx, &graphql.RawParams{Query: pair[0]})
	zzsym.Assert(len(errs) == 0 && rc != nil, "the valid twin is accepted")
	c03Log = nil
	_, errs = e.CreateOperationContext(ctx, &graphql.RawParams{Query: pair[1]})
	zzsym.Assert(len(errs) > 0, "a document that differs from a cached one only in white space or comments is parsed and validated on its own")
	for _, ev := range c03Log {
		ran := len(ev) >= 3 && (ev[:3] == "op." || ev[:3] == "roo" || ev[:3] == "fie" || ev[:3] == "exe")
		zzsym.Assert(!ran, "nothing runs for a rejected document")
	}
	zzsym.Reach("c03.cachekeys")
}
