package executor

import (
	"context"
	"sync"

	"github.com/vektah/gqlparser/v2/ast"

	"github.com/99designs/gqlgen/graphql"
	"github.com/99designs/gqlgen/zzsym"
)

func Setup_C03_concurrentDispatch() { Setup_C03_gates() }

// c03CountES counts, per operation name, how often the executable schema was
// asked to execute it.
type c03CountES struct {
	mu    *sync.Mutex
	execs map[string]int
}

func (c03CountES) Schema() *ast.Schema { return c03Schema }
func (c03CountES) Complexity(ctx context.Context, typeName, fieldName string, childComplexity int, args map[string]any) (int, bool) {
	return 0, false
}
func (e c03CountES) Exec(ctx context.Context) graphql.ResponseHandler {
	name := graphql.GetOperationContext(ctx).Operation.Name
	e.mu.Lock()
	e.execs[name]++
	e.mu.Unlock()
	return graphql.OneShot(&graphql.Response{Data: []byte(`{"op":"` + name + `"}`)})
}

// c03QuietOp: an operation interceptor that does some locked bookkeeping
// before it calls on (auth, tracing): a window in which another request may
// enter the same chain.
type c03QuietOp struct {
	idx     int
	mu      *sync.Mutex
	entered map[string]int
}

func (q c03QuietOp) ExtensionName() string                          { return "quiet" + string(rune('0'+q.idx)) }
func (q c03QuietOp) Validate(schema graphql.ExecutableSchema) error { return nil }
func (q c03QuietOp) InterceptOperation(ctx context.Context, next graphql.OperationHandler) graphql.ResponseHandler {
	name := graphql.GetOperationContext(ctx).Operation.Name
	q.mu.Lock()
	q.entered[name]++
	q.mu.Unlock()
	return next(ctx)
}

// Harness_C03_concurrentDispatch: two accepted requests (operations A and B
// of one or two texts) dispatched concurrently through one Executor with one
// or two operation interceptors, every interleaving at synchronisation
// points, happens-before race check: every interceptor sees each operation
// exactly once, each operation is executed exactly once, and each request is
// answered with its own operation's response.
func Harness_C03_concurrentDispatch() {
	mu := &sync.Mutex{}
	es := c03CountES{mu: mu, execs: map[string]int{}}
	e := New(es)
	nint := 1 + zzsym.Choice("interceptors", 2)
	var qs []c03QuietOp
	for k := 0; k < nint; k++ {
		q := c03QuietOp{idx: k, mu: mu, entered: map[string]int{}}
		qs = append(qs, q)
		e.Use(q)
	}
	texts := []string{`query A { me { id } }`, `query B { me { name } }`}
	names := []string{"A", "B"}
	if zzsym.Choice("onetext", 2) == 1 {
		texts = []string{`query A { me { id } } query B { me { name } }`, `query A { me { id } } query B { me { name } }`}
	}
	data := make([]string, 2)
	done := make(chan int, 2)
	for k := range texts {
		k := k
		go func() {
			defer func() { done <- k }()
			ctx := graphql.StartOperationTrace(context.Background())
			rc, errs := e.CreateOperationContext(ctx, &graphql.RawParams{Query: texts[k], OperationName: names[k]})
			if len(errs) != 0 {
				data[k] = "rejected"
				return
			}
			h, hctx := e.DispatchOperation(ctx, rc)
			if h == nil || hctx == nil {
				data[k] = "no handler"
				return
			}
			if resp := h(hctx); resp != nil {
				data[k] = string(resp.Data)
			}
		}()
	}
	<-done
	<-done
	for k, n := range names {
		zzsym.Assert(data[k] == `{"op":"`+n+`"}`, "each request is answered with the response of the operation it names")
		zzsym.Assert(es.execs[n] == 1, "each accepted operation is executed exactly once")
		for _, q := range qs {
			zzsym.Assert(q.entered[n] == 1, "every operation interceptor runs exactly once per operation")
		}
	}
	zzsym.Reach("c03.concurrentdispatch")
}
