package executor

import (
	"context"

	"github.com/vektah/gqlparser/v2/ast"

	"github.com/99designs/gqlgen/graphql"
	"github.com/99designs/gqlgen/graphql/handler/lru"
	"github.com/99designs/gqlgen/zzsym"
)

func Setup_C03_docHistory() { Setup_C03_gates() }

// Harness_C03_docHistory: one executor with a query cache (the map cache or the
// LRU the default server installs) serves two requests of the corpus one
// after the other - the same text under another operation name or other
// variables, or another text: the second request is accepted or refused
// exactly as on a fresh executor, the operation it is accepted as is the one
// it names, and nothing runs for a refused one. (The parsed document of the
// first request is what the second is judged on when the text is the same.)
func Harness_C03_docHistory() {
	c03Log = nil
	first := c03Corpus[zzsym.Choice("first", len(c03Corpus))]
	second := c03Corpus[zzsym.Choice("second", len(c03Corpus))]
	e := New(c03ES{})
	e.Use(c03All{&c03Ext{idx: 0, mask: 15}})
	if zzsym.Choice("cache", 2) == 0 {
		e.SetQueryCache(graphql.MapCache[*ast.QueryDocument]{})
	} else {
		e.SetQueryCache(lru.New[*ast.QueryDocument](10))
	}
	ctx := graphql.StartOperationTrace(context.Background())
	rc, errs := e.CreateOperationContext(ctx, &graphql.RawParams{Query: first.query, OperationName: first.op, Variables: first.vars})
	zzsym.Assert((len(errs) == 0) == first.valid, "the first request is accepted iff it is valid")
	if len(errs) == 0 && zzsym.Choice("dispatch", 2) == 1 {
		h, hctx := e.DispatchOperation(ctx, rc)
		h(hctx)
	}
	c03Log = nil
	rc, errs = e.CreateOperationContext(ctx, &graphql.RawParams{Query: second.query, OperationName: second.op, Variables: second.vars})
	zzsym.Assert((len(errs) == 0) == second.valid, "a request is accepted iff it is valid, whatever was served before")
	if len(errs) == 0 {
		zzsym.Assert(rc != nil && rc.Operation != nil && (second.op == "" || rc.Operation.Name == second.op), "the accepted operation is the one the request names")
		nops := 1
		if second.query == c03Corpus[1].query {
			nops = 2
		}
		zzsym.Assert(len(rc.Doc.Operations) == nops, "the accepted request sees the whole document it sent")
		zzsym.Reach("c03.dochistory.accepted")
	} else {
		for _, ev := range c03Log {
			ran := len(ev) >= 3 && (ev[:3] == "op." || ev[:3] == "roo" || ev[:3] == "fie" || ev[:3] == "exe")
			zzsym.Assert(!ran, "nothing runs for a refused request")
		}
		zzsym.Reach("c03.dochistory.refused")
	}
}
