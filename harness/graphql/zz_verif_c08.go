package graphql

import (
	"bytes"
	"context"

	"github.com/99designs/gqlgen/zzsym"
)

// ---- C08a: writeQuotedString / MarshalString / MarshalID on every byte string of length n

// jsonStringDecode is an independent RFC 8259 string decoder restricted to
// the escapes a JSON encoder may emit; ok=false if out is not a well-formed
// JSON string token.
func jsonStringDecode(out []byte) (dec []byte, ok bool) {
	n := len(out)
	if n < 2 || out[0] != '"' || out[n-1] != '"' {
		return nil, false
	}
	body := out[1 : n-1]
	for i := 0; i < len(body); {
		c := body[i]
		switch {
		case c < 0x20 || c == '"':
			return nil, false
		case c == '\\':
			if i+1 >= len(body) {
				return nil, false
			}
			switch body[i+1] {
			case '"':
				dec = append(dec, '"')
			case '\\':
				dec = append(dec, '\\')
			case '/':
				dec = append(dec, '/')
			case 'b':
				dec = append(dec, 8)
			case 'f':
				dec = append(dec, 12)
			case 'n':
				dec = append(dec, '\n')
			case 'r':
				dec = append(dec, '\r')
			case 't':
				dec = append(dec, '\t')
			case 'u':
				if i+5 >= len(body) {
					return nil, false
				}
				var v int
				for k := 2; k < 6; k++ {
					h := body[i+k]
					var d int
					switch {
					case h >= '0' && h <= '9':
						d = int(h - '0')
					case h >= 'a' && h <= 'f':
						d = int(h-'a') + 10
					case h >= 'A' && h <= 'F':
						d = int(h-'A') + 10
					default:
						return nil, false
					}
					v = v<<4 | d
				}
				switch {
				case v < 0x80:
					dec = append(dec, byte(v))
				case v < 0x800:
					dec = append(dec, 0xC0|byte(v>>6), 0x80|byte(v&0x3F))
				case v >= 0xD800 && v <= 0xDFFF:
					return nil, false // surrogate escapes: not produced for any input of this harness
				default:
					dec = append(dec, 0xE0|byte(v>>12), 0x80|byte((v>>6)&0x3F), 0x80|byte(v&0x3F))
				}
				i += 4
			default:
				return nil, false
			}
			i += 2
		default:
			dec = append(dec, c)
			i++
		}
	}
	return dec, true
}

// utf8Len returns the width of the valid UTF-8 sequence at b[0:], or 0 if
// b does not start with one (RFC 3629: no overlongs, no surrogates, <= U+10FFFF).
func utf8Len(b []byte) int {
	if len(b) == 0 {
		return 0
	}
	c := b[0]
	cont := func(x byte) bool { return x >= 0x80 && x <= 0xBF }
	switch {
	case c < 0x80:
		return 1
	case c >= 0xC2 && c <= 0xDF:
		if len(b) >= 2 && cont(b[1]) {
			return 2
		}
	case c >= 0xE0 && c <= 0xEF:
		if len(b) >= 3 && cont(b[1]) && cont(b[2]) {
			if c == 0xE0 && b[1] < 0xA0 {
				return 0
			}
			if c == 0xED && b[1] > 0x9F {
				return 0
			}
			return 3
		}
	case c >= 0xF0 && c <= 0xF4:
		if len(b) >= 4 && cont(b[1]) && cont(b[2]) && cont(b[3]) {
			if c == 0xF0 && b[1] < 0x90 {
				return 0
			}
			if c == 0xF4 && b[1] > 0x8F {
				return 0
			}
			return 4
		}
	}
	return 0
}

// sanitize replaces each byte that is not part of a valid UTF-8 sequence by U+FFFD.
func sanitize(in []byte) []byte {
	var out []byte
	for i := 0; i < len(in); {
		if w := utf8Len(in[i:]); w > 0 {
			out = append(out, in[i:i+w]...)
			i += w
		} else {
			out = append(out, 0xEF, 0xBF, 0xBD)
			i++
		}
	}
	return out
}

func validUTF8(b []byte) bool {
	for i := 0; i < len(b); {
		w := utf8Len(b[i:])
		if w == 0 {
			return false
		}
		i += w
	}
	return true
}

func checkQuoted(in []byte, out []byte) {
	dec, ok := jsonStringDecode(out)
	zzsym.Assert(ok, "output is a well-formed JSON string token")
	zzsym.Assert(validUTF8(out), "output is valid UTF-8")
	zzsym.Assert(bytes.Equal(dec, sanitize(in)), "decoded output equals input with invalid bytes replaced by U+FFFD")
	zzsym.Reach("quoted.checked")
}

func Harness_C08_writeQuotedString() {
	n := zzsym.Param("n", 2)
	in := zzsym.Bytes("s", n)
	var buf bytes.Buffer
	writeQuotedString(&buf, string(in))
	checkQuoted(in, buf.Bytes())
}

// one string per escape class of JSON, Go and HTML-safe quoting, and their neighbours
var c08Strings = []string{
	"", "a", "\x00", "\a", "\b", "\t", "\n", "\v", "\f", "\r", "\x1b", "\x1f", " ", "\"", "\\", "/", "<", ">", "&", "'", "\x7f",
	"\x80", "\xbf", "\xc2", "\xc2\x80", "\xe2\x80", "\xe2\x80\xa8", "\xe2\x80\xa9", "\xef\xbf\xbd", "\xef\xbb\xbf", "\xed\xa0\x80", "\xf0\x9f\x98\x80",
	"\xf3\xa0\x80\x81", "\xf4\x90\x80\x80", "\xff", "a\xffb", "\u00e9", "\u0085", "\u00a0", "\u200b", "\ufeff", "\\u0041", "a\"b\\c\n",
}

func Harness_C08_MarshalStringID() {
	n := zzsym.Param("n", 1)
	in := zzsym.Bytes("s", n)
	var buf bytes.Buffer
	switch zzsym.Choice("which", 2+2*zzsym.Param("omittable", 0)) {
	case 0:
		MarshalString(string(in)).MarshalGQL(&buf)
	case 1:
		MarshalID(string(in)).MarshalGQL(&buf)
	case 2:
		// a string held by an Omittable (it has no marshaler of its own: the wrapper serialises it through
		// encoding/json, which is an engine model: concrete strings from a corpus of escape classes)
		in = []byte(c08Strings[zzsym.Choice("str", len(c08Strings))])
		OmittableOf(string(in)).MarshalGQL(&buf)
	case 3:
		in = []byte(c08Strings[zzsym.Choice("str", len(c08Strings))])
		OmittableOf(string(in)).MarshalGQLContext(context.Background(), &buf)
	}
	checkQuoted(in, buf.Bytes())
}
