package graphql

import (
	"github.com/99designs/gqlgen/zzsym"
)

// mkNode builds one node of a variables tree; kind is a choice.
func mkNode(name string, depth int) any {
	max := 6
	if depth == 0 {
		max = 4 // leaves only
	}
	switch zzsym.Choice(name, max) {
	case 0:
		return nil
	case 1:
		return "scalar"
	case 2:
		return map[string]any(nil)
	case 3:
		return []any{}
	case 4:
		return map[string]any{"a": mkNode(name+".a", depth-1)}
	default:
		return []any{mkNode(name+"[0]", depth-1)}
	}
}

var c10Segments = []string{"a", "b", "0", "1", "-1", "", "99999999999999999999"}

// Harness_C10_AddUpload: for every variables tree of depth <= 2 (nodes:
// nil, scalar, nil map, empty slice, map{a:…}, slice[…]) and every path
// variables.<seg>(.<seg>)? with segments from a corpus (present/absent
// names, in-range / out-of-range / negative / empty / huge indices),
// AddUpload does not panic: it returns an error or stores the upload at
// exactly that path.
func Harness_C10_AddUpload() {
	p := &RawParams{}
	switch zzsym.Choice("vars", 3) {
	case 0: // no variables at all
	case 1:
		p.Variables = map[string]any{}
	case 2:
		p.Variables = map[string]any{"a": mkNode("va", zzsym.Param("depth", 1)), "0": mkNode("v0", 0)}
	}
	nseg := 1 + zzsym.Choice("nseg", zzsym.Param("maxseg", 2))
	path := "variables"
	if zzsym.Choice("prefix", 4) == 0 {
		path = "variable" // wrong prefix
	}
	segs := make([]string, nseg)
	for k := 0; k < nseg; k++ {
		segs[k] = c10Segments[zzsym.Choice("seg", len(c10Segments))]
		path += "." + segs[k]
	}
	up := Upload{Filename: "f.txt", Size: 3}
	var gerr error
	panicked := func() (pv bool) {
		defer func() {
			if r := recover(); r != nil {
				pv = true
			}
		}()
		if e := p.AddUpload(up, "0", path); e != nil {
			gerr = e
		}
		return false
	}()
	zzsym.Assert(!panicked, "AddUpload must not panic on any client-supplied map path")
	if gerr == nil {
		// the upload must be reachable at exactly that path
		var cur any = p.Variables
		for _, s := range segs {
			switch c := cur.(type) {
			case map[string]any:
				cur = c[s]
			case []any:
				idx := -1
				switch s {
				case "0":
					idx = 0
				case "1":
					idx = 1
				}
				if idx >= 0 && idx < len(c) {
					cur = c[idx]
				} else {
					cur = nil
				}
			default:
				cur = nil
			}
		}
		got, ok := cur.(Upload)
		zzsym.Assert(ok && got.Filename == "f.txt", "AddUpload without error stored the upload at the mapped path")
		zzsym.Reach("upload.stored")
	} else {
		zzsym.Reach("upload.rejected")
	}
}
