// Package zzsym is the harness API. Under the symbolic engine every
// function here is intercepted by name (the bodies below never run);
// compiled natively, the same functions read the values of a replay file,
// so that a harness is its own replay test against the real build.
package zzsym

import (
	"encoding/json"
	"fmt"
	"math"
	"os"
	"path/filepath"
	"runtime"
	"sort"
	"strconv"
	"strings"
	"sync"
	"time"

	"github.com/davecgh/go-spew/spew"
)

var spewCfg = spew.ConfigState{Indent: " ", SortKeys: true, DisableMethods: true, DisableCapacities: true}

type frozenRec struct {
	label string
	roots []any
	dump  string
}

type replayFile struct {
	Harness string            `json:"harness"`
	Setup   string            `json:"setup"`
	Values  map[string]string `json:"values"`
	Choices map[string]int    `json:"choices"`
	Params  map[string]int    `json:"params"`
	Events  []string          `json:"events"`
	Kind    string            `json:"kind"` // set for a violation found by the engine
	Label   string            `json:"label"`
	Retries int               `json:"retries"` // timing-dependent violations: replay up to this many more times (with fresh Jitter) until it shows
}

type replayOut struct {
	Harness string   `json:"harness"`
	Outcome string   `json:"outcome"` // ok, assert, assume, panic, hang
	Label   string   `json:"label,omitempty"`
	Msg     string   `json:"msg,omitempty"`
	Events  []string `json:"events"`
	Reach   []string `json:"reach"`
	Leaked  int      `json:"leaked"`
}

type state struct {
	gateMu   sync.Mutex
	gateCond *sync.Cond
	infra    map[string]bool // goroutines that existed at Baseline(): harness infrastructure
	frozen   []frozenRec
	gates    []string // order of Gate keys recorded by the engine on this path
	gatePos  int
	mu       sync.Mutex
	rf       replayFile
	names    map[string]int
	events   []string
	reach    map[string]bool
	base     int
}

var cur *state

type assertFailed struct{ label string }
type assumeFailed struct{}

func (s *state) unique(name string) string {
	s.mu.Lock()
	defer s.mu.Unlock()
	n := s.names[name]
	s.names[name] = n + 1
	if n == 0 {
		return name
	}
	return name + "#" + strconv.Itoa(n)
}

func bits(name string) uint64 {
	if cur == nil {
		return 0
	}
	v, ok := cur.rf.Values[cur.unique(name)]
	if !ok {
		return 0
	}
	n, err := strconv.ParseUint(v, 10, 64)
	if err != nil {
		return 0
	}
	return n
}

func Bool(name string) bool       { return bits(name) != 0 }
func Int(name string) int         { return int(bits(name)) }
func Int8(name string) int8       { return int8(bits(name)) }
func Int16(name string) int16     { return int16(bits(name)) }
func Int32(name string) int32     { return int32(bits(name)) }
func Int64(name string) int64     { return int64(bits(name)) }
func Uint(name string) uint       { return uint(bits(name)) }
func Uint8(name string) uint8     { return uint8(bits(name)) }
func Byte(name string) byte       { return byte(bits(name)) }
func Uint16(name string) uint16   { return uint16(bits(name)) }
func Uint32(name string) uint32   { return uint32(bits(name)) }
func Uint64(name string) uint64   { return bits(name) }
func Float64(name string) float64 { return math.Float64frombits(bits(name)) }
func Float32(name string) float32 { return math.Float32frombits(uint32(bits(name))) }

// FloatToken returns the value the text s decodes to as a JSON number and
// whether s is a valid JSON number token. Under the engine the text of a
// formatted symbolic float is a placeholder governed by strconv's documented
// shortest-representation contract; natively this is strconv.ParseFloat on
// the bytes the real formatter produced.
func FloatToken(s string) (float64, bool) {
	f, err := strconv.ParseFloat(s, 64)
	if err != nil || !json.Valid([]byte(s)) || s == "" || !(s[0] == '-' || (s[0] >= '0' && s[0] <= '9')) {
		return f, false
	}
	return f, true
}

// String returns a string of exactly n bytes, each byte symbolic.
func String(name string, n int) string { return string(Bytes(name, n)) }

// Bytes returns n symbolic bytes.
func Bytes(name string, n int) []byte {
	b := make([]byte, n)
	for k := range b {
		b[k] = byte(bits(fmt.Sprintf("%s[%d]", name, k)))
	}
	return b
}

// Choice returns a value in [0,n): every alternative is explored.
func Choice(name string, n int) int {
	if cur == nil {
		return 0
	}
	v := cur.rf.Choices[cur.unique(name)]
	if v < 0 || v >= n {
		return 0
	}
	return v
}

// Param returns a harness parameter set by the check driver (bounds).
func Param(name string, def int) int {
	if cur != nil {
		if v, ok := cur.rf.Params[name]; ok {
			return v
		}
	}
	return def
}

func Assume(c bool) {
	if !c {
		panic(assumeFailed{})
	}
}

func Assert(c bool, label string) {
	if !c {
		panic(assertFailed{label})
	}
}

func Reach(label string) {
	if cur != nil {
		cur.mu.Lock()
		cur.reach[label] = true
		cur.mu.Unlock()
	}
}

// Event appends to the event log that the engine's prediction and the native run must agree on.
func Event(parts ...any) {
	if cur == nil {
		return
	}
	ss := make([]string, len(parts))
	for k, p := range parts {
		ss[k] = fmt.Sprint(p)
	}
	cur.mu.Lock()
	cur.events = append(cur.events, strings.Join(ss, " "))
	cur.mu.Unlock()
}

// Gate marks a point of user code (a resolver call, an emitted event) whose
// order relative to other gates is part of the schedule. The engine logs
// the order it explored; natively each Gate waits for its turn in that
// recorded order (then lets the woken goroutine run on for a moment), which
// reproduces completion orders at the granularity of these points.
func Gate(key string) {
	st := cur
	if st == nil {
		return
	}
	st.gateMu.Lock()
	deadline := time.Now().Add(3 * time.Second)
	for st.gatePos < len(st.gates) && st.gates[st.gatePos] != key {
		// is this key expected later at all?
		later := false
		for _, g := range st.gates[st.gatePos:] {
			if g == key {
				later = true
				break
			}
		}
		if !later || time.Now().After(deadline) {
			break
		}
		st.gateMu.Unlock()
		time.Sleep(2 * time.Millisecond)
		st.gateMu.Lock()
	}
	if st.gatePos < len(st.gates) && st.gates[st.gatePos] == key {
		st.gatePos++
	}
	st.gateMu.Unlock()
	Event("gate " + key)
	time.Sleep(10 * time.Millisecond) // let this goroutine reach its next blocking point before the next gate opens
}

// Symbolic reports whether the harness runs under the symbolic engine.
func Symbolic() bool { return false }

// Concrete forks a symbolic int over [lo,hi] (identity natively).
func Concrete(x, lo, hi int) int { return x }

// Frozen declares that nothing reachable from roots may be written from now
// on. Natively a deep dump of the object graph is taken now and compared at
// the end of the harness.
func Frozen(label string, roots ...any) {
	if cur == nil {
		return
	}
	cur.mu.Lock()
	cur.frozen = append(cur.frozen, frozenRec{label, roots, spewCfg.Sdump(roots...)})
	cur.mu.Unlock()
}

var attempt int

// Jitter is a point where real time passes: natively a pseudo-random sleep of
// up to maxMicros microseconds (a different sequence on every retry of a
// timing-dependent replay); under the engine nothing (schedules are explored
// by the scheduler, not by timing).
func Jitter(maxMicros int) {
	jitterMu.Lock()
	jitterState = jitterState*6364136223846793005 + 1442695040888963407 + uint64(attempt)*7919
	d := time.Duration((jitterState>>33)%uint64(maxMicros+1)) * time.Microsecond
	jitterMu.Unlock()
	time.Sleep(d)
}

var (
	jitterMu    sync.Mutex
	jitterState uint64 = 88172645463325252
)

// Preempt is an explicit point at which any other runnable goroutine may be
// scheduled (a decision of the explorer; natively a yield).
func Preempt() { runtime.Gosched() }

// FrozenGlobals: the package-level variables of the packages whose import
// path starts with one of the prefixes must not be written from now on.
func FrozenGlobals(label string, prefixes ...string) {}

// Yield is a scheduling point.
func Yield() { runtime.Gosched() }

// Baseline declares the goroutines alive now as not belonging to the unit
// under test (harness infrastructure such as a loopback server).
func Baseline() {
	if cur != nil {
		time.Sleep(5 * time.Millisecond)
		cur.base = runtime.NumGoroutine()
		cur.mu.Lock()
		cur.infra = goroutineIDs()
		cur.mu.Unlock()
	}
}

func goroutineIDs() map[string]bool {
	buf := make([]byte, 1<<20)
	buf = buf[:runtime.Stack(buf, true)]
	ids := map[string]bool{}
	for _, g := range strings.Split(string(buf), "\n\n") {
		if f := strings.Fields(g); len(f) >= 2 && f[0] == "goroutine" {
			ids[f[1]] = true
		}
	}
	return ids
}

// Quiesce lets every other goroutine run until none can make progress and
// returns how many goroutines started since the harness began are still alive.
func Quiesce() int {
	if cur == nil {
		return 0
	}
	deadline := time.Now().Add(6 * time.Second)
	for {
		n := liveUnitGoroutines()
		if n == 0 || time.Now().After(deadline) {
			return n
		}
		time.Sleep(5 * time.Millisecond)
	}
}

// liveUnitGoroutines counts the goroutines (other than the harness's own)
// that are executing code of the packages under test.
func liveUnitGoroutines() int {
	buf := make([]byte, 1<<20)
	buf = buf[:runtime.Stack(buf, true)]
	n := 0
	cur.mu.Lock()
	infra := cur.infra
	cur.mu.Unlock()
	for _, g := range strings.Split(string(buf), "\n\n") {
		if f := strings.Fields(g); len(f) >= 2 && f[0] == "goroutine" && infra[f[1]] {
			continue
		}
		if strings.Contains(g, "zzsym.runOne") || strings.Contains(g, "zzsym.RunReplays") || strings.Contains(g, "zzsym.liveUnitGoroutines") {
			continue
		}
		if strings.Contains(g, "github.com/99designs/gqlgen/") || strings.Contains(g, "example.com/probe/") {
			n++
		}
	}
	return n
}

// RunReplays runs every replay file of $VERIF_REPLAY_DIR against the
// natively compiled harnesses and writes <file>.out.json next to each.
func RunReplays(harnesses map[string]func(), setups map[string]func()) error {
	dir := os.Getenv("VERIF_REPLAY_DIR")
	if dir == "" {
		return nil
	}
	files, _ := filepath.Glob(filepath.Join(dir, "*.replay.json"))
	sort.Strings(files)
	done := map[string]bool{}
	shown := map[string]bool{}          // (harness, kind, label) already reproduced by an earlier instance
	spent := map[string]time.Duration{} // time spent retrying instances of that key
	for _, f := range files {
		b, err := os.ReadFile(f)
		if err != nil {
			return err
		}
		var rf replayFile
		if err := json.Unmarshal(b, &rf); err != nil {
			return fmt.Errorf("%s: %v", f, err)
		}
		h, ok := harnesses[rf.Harness]
		if !ok {
			continue
		}
		setupName := "Setup_" + strings.TrimPrefix(rf.Harness, "Harness_")
		if rf.Setup != "" {
			setupName = rf.Setup
		}
		if s, ok := setups[setupName]; ok && !done[setupName] {
			done[setupName] = true
			cur = nil
			s()
		}
		out := runOne(rf, h)
		key := rf.Harness + "|" + rf.Kind + "|" + rf.Label
		retries := rf.Retries
		if shown[key] && retries > 30 {
			retries = 30 // the violation is confirmed already: further instances only add detail
		}
		t0 := time.Now()
		for try := 1; out.Outcome == "ok" && rf.Kind != "" && try <= retries && spent[key]+time.Since(t0) < 150*time.Second; try++ {
			attempt = try
			out = runOne(rf, h)
		}
		spent[key] += time.Since(t0)
		if out.Outcome != "ok" && rf.Kind != "" {
			shown[key] = true
		}
		attempt = 0
		ob, _ := json.MarshalIndent(out, "", " ")
		if err := os.WriteFile(strings.TrimSuffix(f, ".replay.json")+".out.json", ob, 0o644); err != nil {
			return err
		}
	}
	return nil
}

func runOne(rf replayFile, h func()) replayOut {
	st := &state{rf: rf, names: map[string]int{}, reach: map[string]bool{}, base: runtime.NumGoroutine() + 1}
	for _, e := range rf.Events {
		if strings.HasPrefix(e, "gate ") {
			st.gates = append(st.gates, strings.TrimPrefix(e, "gate "))
		}
	}
	cur = st
	out := replayOut{Harness: rf.Harness, Outcome: "ok"}
	fin := make(chan struct{})
	go func() {
		defer close(fin)
		defer func() {
			if r := recover(); r != nil {
				switch r := r.(type) {
				case assertFailed:
					out.Outcome, out.Label = "assert", r.label
				case assumeFailed:
					out.Outcome = "assume"
				default:
					buf := make([]byte, 4096)
					buf = buf[:runtime.Stack(buf, false)]
					out.Outcome, out.Msg = "panic", fmt.Sprintf("%v\n%s", r, buf)
				}
			}
		}()
		h()
	}()
	select {
	case <-fin:
	case <-time.After(8 * time.Second):
		out.Outcome = "hang"
		buf := make([]byte, 1<<16)
		buf = buf[:runtime.Stack(buf, true)]
		out.Msg = string(buf)
	}
	if out.Outcome == "ok" {
		st.mu.Lock()
		recs := append([]frozenRec{}, st.frozen...)
		st.mu.Unlock()
		for _, r := range recs {
			if spewCfg.Sdump(r.roots...) != r.dump {
				out.Outcome, out.Label = "frozen", r.label
			}
		}
	}
	st.mu.Lock()
	out.Events = append([]string{}, st.events...)
	for l := range st.reach {
		out.Reach = append(out.Reach, l)
	}
	st.mu.Unlock()
	sort.Strings(out.Reach)
	return out
}
