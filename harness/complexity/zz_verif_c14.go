package complexity

import "github.com/99designs/gqlgen/zzsym"

// refSafeAdd is the documented meaning of safeAdd, written independently:
// a saturating sum of the non-negative operands.
func refSafeAdd(a, b int) int {
	if a < 0 && b < 0 {
		return 1 // documented quirk: both negative counts as one
	}
	if a < 0 {
		return b
	}
	if b < 0 {
		return a
	}
	if a > maxInt-b {
		return maxInt
	}
	return a + b
}

// Harness_C14_safeAdd: for all 2^128 pairs, safeAdd equals the reference,
// never wraps and is monotone in each non-negative operand.
func Harness_C14_safeAdd() {
	a, b := zzsym.Int("a"), zzsym.Int("b")
	got := safeAdd(a, b)
	zzsym.Assert(got == refSafeAdd(a, b), "safeAdd equals saturating reference")
	zzsym.Assert(got >= 0, "safeAdd never negative")
	if a >= 0 {
		zzsym.Assert(got >= a, "safeAdd(a,b) >= a for a >= 0 (no wrap-around)")
	}
	if b >= 0 {
		zzsym.Assert(got >= b, "safeAdd(a,b) >= b for b >= 0 (no wrap-around)")
	}
	zzsym.Reach("safeAdd.compared")
}
