"""Generated-code probes: a scratch Go module whose executor is generated at
check time by api.Generate from /repo's current templates."""
import glob
import json
import os
import shutil
import subprocess

VERIF = os.path.dirname(os.path.dirname(os.path.abspath(__file__)))
REPO = os.environ.get("VERIF_REPO", "/repo")
MOD = "github.com/99designs/gqlgen"

GOMOD = """module example.com/probe

go 1.23.8

require github.com/99designs/gqlgen v0.0.0

replace github.com/99designs/gqlgen => %s
"""

# generator configurations: name -> (exec section, extra yaml)
CONFIGS = {
    "single": ("  filename: graph/generated.go\n  package: graph", ""),
    "follow": ("  layout: follow-schema\n  dir: graph\n  package: graph", ""),
    "funcsyn": ("  filename: graph/generated.go\n  package: graph", "use_function_syntax_for_execution_context: true\n"),
    "wl1": ("  filename: graph/generated.go\n  package: graph\n  worker_limit: 1", ""),
    "wl2": ("  filename: graph/generated.go\n  package: graph\n  worker_limit: 2", ""),
    "wl8": ("  filename: graph/generated.go\n  package: graph\n  worker_limit: 8", ""),
    "omitptr": ("  filename: graph/generated.go\n  package: graph", "omit_slice_element_pointers: false\ncall_argument_directives_with_null: true\n"),
    "follow_wl2": ("  layout: follow-schema\n  dir: graph\n  package: graph\n  worker_limit: 2", ""),
}


_SINGLE = "  filename: graph/generated.go\n  package: graph"
FED_CONFIGS = {
    "fed_single": (_SINGLE, "", ""),
    "fed_follow": ("  layout: follow-schema\n  dir: graph\n  package: graph", "", ""),
    "fed_explicit": (_SINGLE, "", "  options:\n    explicit_requires: true"),
    "fed_computed": (_SINGLE, "call_argument_directives_with_null: true\n", "  options:\n    computed_requires: true"),
    "fed_wl2": (_SINGLE + "\n  worker_limit: 2", "", ""),
    "fed_v1": (_SINGLE, "", ""),
}
# the options probe: input objects under the options that change how they are handed around
for _k, _o in {"opts_default": "", "opts_retptr": "return_pointers_in_unmarshalinput: true\n", "opts_valstruct": "struct_fields_always_pointers: false\n",
               "opts_slices": "omit_slice_element_pointers: true\n", "opts_omittable": "nullable_input_omittable: true\n",
               "opts_all": "return_pointers_in_unmarshalinput: true\nstruct_fields_always_pointers: false\nomit_slice_element_pointers: true\n"}.items():
    CONFIGS[_k] = (_SINGLE, _o)
for _k in FED_CONFIGS:
    CONFIGS[_k] = (FED_CONFIGS[_k][0], FED_CONFIGS[_k][1])


def make_probe(probe, cfgname, scratch, env):
    """returns (dir, error) of a freshly generated probe module"""
    src = os.path.join(VERIF, "probes", probe)
    d = os.path.join(scratch, "probe_%s_%s" % (probe, cfgname))
    if os.path.exists(os.path.join(d, ".generated")):
        return d, None
    os.makedirs(os.path.join(d, "graph"), exist_ok=True)
    os.makedirs(os.path.join(d, "ref"), exist_ok=True)
    for f in glob.glob(os.path.join(src, "*.graphql")):
        shutil.copy(f, d)
    for f in glob.glob(os.path.join(src, "graph", "*.go")):
        shutil.copy(f, os.path.join(d, "graph"))
    for f in glob.glob(os.path.join(VERIF, "probes", "ref", "*.go")):
        shutil.copy(f, os.path.join(d, "ref"))
    shutil.copy(os.path.join(src, "gen_main.go.txt"), os.path.join(d, "gen_main.go"))
    open(os.path.join(d, "go.mod"), "w").write(GOMOD % REPO)
    shutil.copy(os.path.join(REPO, "go.sum"), os.path.join(d, "go.sum"))
    ex, extra = CONFIGS[cfgname]
    fedopts = ""
    if cfgname.startswith("fed_"):
        ex, extra, fedopts = FED_CONFIGS[cfgname]
    yml = open(os.path.join(src, "gqlgen.tmpl.yml")).read().replace("@EXEC@", ex).replace("@OPTIONS@", extra).replace("@FEDOPTS@", fedopts).replace("@FEDVER@", "1" if cfgname == "fed_v1" else "2")
    open(os.path.join(d, "gqlgen.yml"), "w").write(yml)
    r = subprocess.run(["go", "run", "gen_main.go"], cwd=d, env=env, capture_output=True, text=True)
    if r.returncode != 0:
        return d, "generation failed for probe %s/%s:\n%s" % (probe, cfgname, (r.stdout + r.stderr)[-3000:])
    if probe == "fed":
        open(os.path.join(d, "graph", "zz_probe_config.go"), "w").write("package graph\n\nconst probeConfigName = %s\n" % json.dumps(cfgname))
    if probe == "core":
        # what the harnesses need to know about the generator configuration
        open(os.path.join(d, "graph", "zz_probe_config.go"), "w").write(
            "package graph\n\nconst probeConfigName = %s\n\nconst probeCallArgumentDirectivesWithNull = %s\n"
            % (json.dumps(cfgname), "true" if "call_argument_directives_with_null: true" in extra else "false"))
    open(os.path.join(d, ".generated"), "w").write("ok")
    return d, None


def probe_overlay(probe, d, cfgname=""):
    """harness files laid over the generated package; zz_cfg_<cfg>__<name>.go only under that
    configuration (as <name>.go, possibly replacing a generated stub), zz_notcfg_<cfg>__<name>.go
    under every other one"""
    ov = {os.path.join(REPO, "zzsym", "zzsym.go"): os.path.join(VERIF, "harness", "zzsym", "zzsym.go")}
    for f in sorted(glob.glob(os.path.join(VERIF, "probes", probe, "harness", "*.go"))):
        b = os.path.basename(f)
        if b.startswith("zz_cfg_"):
            cfg, name = b[len("zz_cfg_"):].split("__", 1)
            if cfg != cfgname:
                continue
            b = name
        elif b.startswith("zz_notcfg_"):
            cfg, name = b[len("zz_notcfg_"):].split("__", 1)
            if cfg == cfgname:
                continue
            b = name
        ov[os.path.join(d, "graph", b)] = f
    return ov


def prepare(specs, tier, scratch, env):
    """expands specs that name a probe into one spec per generator configuration"""
    out = []
    for s in specs:
        if "probe" not in s:
            out.append(s)
            continue
        cfgs = s.get("configs_quick", ["single"])
        if tier == "thorough":
            cfgs = s.get("configs_thorough", cfgs)
        for c in cfgs:
            d, err = make_probe(s["probe"], c, scratch, env)
            n = dict(s)
            n.update({
                "dir": d, "pkg": "graph", "patterns": ["./graph"], "harness_pkg": "example.com/probe/graph",
                "under_test": [MOD, "example.com/probe/graph"], "overlay": probe_overlay(s["probe"], d, c),
                "hdir": os.path.join(VERIF, "probes", s["probe"], "harness"),
                "variant": "@" + c, "replay_key": "%s_%s" % (s["probe"], c),
            })
            if err:
                n["prepare_error"] = err
            out.append(n)
    return out
