"""Per-property manifest text. A property appears in CLAIMED only once its check runs clean on the unchanged tree."""

NOTES = "Solver-based checking of the real code: see DESIGN.md. Every verdict is bounded as stated per harness in the evidence; timeouts/unknown/unsupported are reported as inconclusive, never as success."

_NOT_BUILT = "check not built yet in this session (see DESIGN.md section 4 for the plan); listed here until its harnesses run clean on the unchanged tree"

_T = "symbolic execution of go/ssa + SMT (z3 bit-vectors/FP), decision-prefix path exploration, counterexample replay on the native build"
_N = "trusts go/ssa, the engine's instruction semantics and intrinsic models (validated by native replay of sampled passing paths and of every counterexample), the solver; bounds listed per harness in the evidence"

_PROBE = "; generated code comes from api.Generate run at check time on two hand-built probe schemas (all schemas / random schemas are outside the claim), oracle = independent reference executor in probes/ref"

CLAIMED = {
    "C01": {
        "text": "bounded: freshly generated executors (2 configurations quick, 7 thorough) executed symbolically with their goroutines; for 16 operation families (incl. lists of scalars, @skip and @include on one node, an object with a single resolver-backed field under aliases) with symbolic @skip/@include variables and resolver/directive outcomes in {value,null,error} (deviation budget 1 quick / 2 thorough) the data bytes and the multiset of error paths equal an independent reference implementation of the GraphQL execution algorithm; one genuine deviation (error path of a null scalar-list element) is recorded as a known finding; subscriptions: one response per event equal to the reference for that event; the families whose list elements of different concrete types merge type-conditioned selections also on every completion order of the concurrently resolved elements (resolvers gated, race check); operations with @defer against the defer-aware reference; failing siblings under parents whose path has 1..7 segments",
        "design_ref": "DESIGN.md section 4, C01", "note": _N + _PROBE, "technique": _T,
    },
    "C04": {
        "text": "bounded fault enumeration decided by the solver-driven explorer: {error, panic} at every resolver/directive position of the families (single faults quick, pairs thorough), on calling and spawned goroutines and list elements, worker_limit 0/1/2: response equals the reference with that position failed, recover hook once per panic, no panic escapes a goroutine; the same for faults inside and outside deferred groups of 7 @defer operations against a defer-aware reference; the field interceptor failing around any one field; faults while subscribing, inside a subscription event, and while a websocket operation is dispatched; several non-null siblings / list elements failing concurrently on every completion order incl. a preemption between reporting an error and asking whether one was reported (one error per failing position; such a violation is replayed natively up to 3000 times until the window is hit); federation entity lookups and batches failing by error or panic",
        "design_ref": "DESIGN.md section 4, C04", "note": _N + _PROBE, "technique": _T,
    },
    "C05": {
        "text": "bounded: list fan-out (3+2 elements) with the context cancelled at 9 points x worker_limit 0/1/2 - the join terminates (deadlock = every task blocked is a violation) and no task survives; 7 @defer families consumed for one payload then cancelled - no task left blocked; drained under cancellation at 7 points; 10 @defer operations with failing / null positions drained without cancellation (the response function must end the sequence); SSE and multipart/mixed Do with the context cancelled while any payload is produced (no goroutine of the transport left)",
        "design_ref": "DESIGN.md section 4, C05", "note": _N + _PROBE + "; real context.WithCancel and x/sync/semaphore interpreted from source", "technique": _T + "; deadlock/leak detection by the deterministic task scheduler",
    },
    "C11": {
        "text": "bounded: wsConnection.init over 15 first-frame kinds x 6 payloads x 4 init functions x 2 subprotocols; subscribe and its goroutine over executor verdicts x 0..2 payloads x panic step x subscription error; per-id frame grammar, deregistration, close callback once, no overlapping Send; the reader loop on every client script of <=2 (3) frames over a 9-frame alphabet with long-lived operations; run() with keep-alive / pong-only / ping-pong timers ticking at any scheduling point and server-context cancellation; init timeout; the connection may already have sent its Close frame (writes fail with ErrCloseSent); the wire format of both subprotocols (real exchangers, gorilla I/O stubbed) against tables written from the protocol documents",
        "design_ref": "DESIGN.md section 4, C11", "note": _N + "; gorilla *websocket.Conn methods are name-intercepted stubs under the engine, native replays use a real loopback connection; unbounded scripts, duplicate ids and read-deadline timing are outside the bound", "technique": _T,
    },
    "C12": {
        "text": "bounded: multipartResponseAggregator over 1 + 0..3 payloads with a symbolic flush tick at every point, bytes parsed by an independent multipart parser; SSE.Do with 0..2 payloads and a keep-alive ticker firing at any scheduling point with every Write and Flush of the ResponseWriter fake a preemption point and conflicting accesses, lock hand-off at Unlock: event grammar, exactly-once, no overlapping use, race check (natively a slow client); MultipartMixed.Do as a whole with its real aggregator goroutine and ticker over 1 + 0..2 payloads, payload production and every write being scheduling points (a violation instance is replayed natively with jittered timing until it shows)",
        "design_ref": "DESIGN.md section 4, C12", "note": _N + "; ticker modelled as a daemon task; TCP chunking and client disconnects are outside the bound", "technique": _T + "; schedule exploration with explicit preemption points",
    },
    "C13": {
        "text": "bounded: 11 @defer families x symbolic if: variables x outcome deviations x every completion order of groups; arrival-order merge equals a defer-aware reference, delivery rules (path delivered before, hasNext, once per (path,label), termination); two genuine defects are recorded as known findings",
        "design_ref": "DESIGN.md section 4, C13", "note": _N + _PROBE, "technique": _T + "; schedule exploration, gated native replay of completion orders",
    },
    "C16": {
        "text": "bounded: introspection wrappers on harness-built definitions with symbolic @deprecated/description/default on every field, argument, input field, enum value, directive argument; generated __schema/__type resolvers behind aliases/fragments/@include with DisableIntrospection symbolic; every type of a schema with an interface hierarchy, unions, wrappers, oneOf, specifiedBy and repeatable directives compared with the ast.Schema (kinds, interfaces, possible types, ofType chains, default values, type list, root types, directives); introspection does not write into the schema and answers the same after a prior introspection; names that are not types",
        "design_ref": "DESIGN.md section 4, C16", "note": _N + "; arbitrary schemas and byte-level SDL reconstruction are outside the bound", "technique": _T,
    },
    "C20": {
        "text": "bounded: generated __resolve_entities / resolveEntity / resolveManyEntities on lists of up to 2 (quick) / 3 (thorough) representations over 15 shapes with at most one failing lookup, entity resolvers honouring their context, incl. the explicit_requires and computed_requires options and entities whose @requires sets overlap and reach into a nested external object, key-only entities, a compound key whose nested field comes first; every completion order of groups and entity goroutines with a happens-before race check on the result list; the genuine defect found (multi resolver with several keys) is fixed in /repo",
        "design_ref": "DESIGN.md section 4, C20", "note": _N + _PROBE, "technique": _T + "; schedule exploration",
    },
    "C06": {
        "text": "bounded schedule exploration: every order of enabled tasks at blocking points (plus preemptions at synchronisation operations in the invalids harness) is a decision of the explorer; on each schedule the response equals the schedule-free reference and a vector-clock happens-before check covers every load/store; mutation root fields proven serial on every schedule; failing siblings under parents whose path has 1..7 segments",
        "design_ref": "DESIGN.md section 4, C06", "note": _N + _PROBE + "; race counterexamples are confirmed with go test -race", "technique": _T + "; happens-before race detection over explored schedules",
    },
    "C02": {
        "text": "full width for typed integers (every Unmarshal{Int,Int64,Int32,Uint,Uint64,Uint32,IntID,UintID} on int/int64/int32/uint64 inputs with symbolic 64-bit values: accepted => mathematically unchanged, in range => accepted); boundary grid for numeric texts; generated argument binders on a 34-case corpus (incl. an Omittable-backed and a map-backed input) compared with hand-annotated coerced values (2 configurations quick, 4 thorough); 21 requests with variables through executor.CreateOperationContext (defaults, presence, JSON forms); a field bound to a model method whose parameter order differs from the schema's; a third probe with generated models under return_pointers_in_unmarshalinput / struct_fields_always_pointers: false / omit_slice_element_pointers (13 cases incl. uncoercible fields: one error at the field's own path, no panic); two genuine deviations (unprovided variable inside an input literal; explicit null variable in a non-null position) are recorded as known findings",
        "design_ref": "DESIGN.md section 4, C02", "note": _N + _PROBE + "; options that change resolver signatures (nullable_input_omittable, struct_fields_always_pointers) are outside the bound", "technique": _T,
    },
    "C03": {
        "text": "bounded: real Executor.CreateOperationContext/parseQuery/DispatchOperation with the real gqlparser interpreted, over a 14-request corpus x symbolic mutator verdicts x cache states x suggestion setting x parser token limit (the genuine defect found there - over-limit documents executed truncated - is fixed in /repo); hook order over all lists of <=3 extensions from 5 hook subsets; request histories through one Server and its POST transport ending in each of 10 requests that must be rejected; one document per validation rule of the specification (29) under suggestions on/off, cache, and a prior suggestions-disabled executor; the solver decides every branch and assertion inside these bounds",
        "design_ref": "DESIGN.md section 4, C03", "note": _N, "technique": _T,
    },
    "C07": {
        "text": "one-step induction on the POST parameter pool (arbitrary body x executor outcome incl. panics; pooled object all-zero again) plus all two-request histories over an 11-body corpus; other transports allocate per request (checked by the same harness family as C09); server/executor/transport graph and package globals frozen across a request; the same text under different variables against one executor with a query cache, sequentially (cached document frozen) and concurrently on every explored schedule with a happens-before race check; the complexity gate after the same cached text was served with other variable values; two-request histories through one Server over a 33-request corpus (texts differing only inside a string literal or in a comment's extent, pairs of texts colliding under CRC-32 / FNV / Adler-32) x no cache / map / the real LRU",
        "design_ref": "DESIGN.md section 4, C07", "note": _N + "; sync.Pool modelled as LIFO-or-New", "technique": _T,
    },
    "C08": {
        "text": "bounded/full width: writeQuotedString, MarshalString, MarshalID on every byte string up to length 3 (quick) / 4 (thorough) against an independent RFC 8259 + RFC 3629 oracle; integer bindings on a boundary grid; every float64 through the Float bindings and back (digit generation of strconv/fmt is a documented-contract stub, counterexamples replayed on the real formatter); FieldSet/Array compositions of depth 2 (3); Boolean/Time (fixed zones on both sides of UTC, sub-second parts, far years)/UUID/Map/Any/Omittable (Omittable[string] over a corpus of 43 escape classes: encoding/json is an engine model)",
        "design_ref": "DESIGN.md section 4, C08", "note": _N, "technique": _T,
    },
    "C09": {
        "text": "bounded: Server.ServeHTTP -> GET/POST/GRAPHQL/UrlEncodedForm/MultipartForm transports (mime/multipart interpreted from source) -> real Executor and gqlparser (interpreted) with an ExecutableSchema fake, over 12 documents x operationName x 9 Accept headers x 4 ResponseHeaders settings, malformed-request corpus, unsupported requests; status, Content-Type, JSON body, 'GET only queries', 'exactly the named operation' asserted on a ResponseWriter fake; also with the document supplied by an operation-parameter mutator (APQ hash-only requests), for two-request sequences, for content negotiation across two requests with configured response headers, and for transport selection (both transport orders x method x request Content-Type x where the document is); with an error presenter that rewrites the presented error in place the status of an invalid request stays a client error on all five transports; two genuine defects found (status taken after the presenter ran; Content-Type lost under configured headers) are fixed in /repo; suggestions on / off and the documented example server (NewDefaultServer) are dimensions of the main harness",
        "design_ref": "DESIGN.md section 4, C09", "note": _N, "technique": _T,
    },
    "C10": {
        "text": "bounded: AddUpload over variables trees of depth <=2 x corpus paths; bytesReader from an arbitrary valid state with full-width offsets; malformed bodies on every HTTP transport incl. 15 malformed multipart bodies x 4 Content-Type headers through the real mime/multipart reader; the real frame decoders of both websocket subprotocols on 43 text frames; MultipartForm.Do over 12 part layouts x spill x over-limit (with and without Content-Length) x OS faults with multipart/os/http dependencies as name-intercepted stubs",
        "design_ref": "DESIGN.md section 4, C10", "note": _N, "technique": _T,
    },
    "C15": {
        "text": "one-step induction: from every invariant-satisfying cache state (key = SHA-256(text)), one request over 5 texts (incl. blank ones) x 18 extension shapes (incl. near-miss hashes) keeps the invariant, resolves hash-only requests to matching text or NotFound, rejects mismatches without registering; explicit histories of 2 (4) requests, and of 2 (3) HTTP requests through one Server incl. undecodable bodies, over 8 texts with white-space and letter-case twins x document cache none / map / LRU; two text+hash requests at once through one extension (race check); every explored path is also replayed natively",
        "design_ref": "DESIGN.md section 4, C15", "note": _N + "; SHA-256 computed natively on concrete texts, mapstructure.Decode is a contract model validated by the native replays", "technique": _T,
    },
    "C14": {
        "text": "safeAdd is decided for all 2^128 operand pairs (bit-vector SMT, no bound) against an independent saturating reference; complexity walk and limit gate bounded as listed in the evidence; the gate end to end through executor.CreateOperationContext with argument-dependent custom costs and arguments supplied by variables; the generated Complexity() switch incl. two GraphQL fields bound to one Go field; custom costs that depend on arguments, a response key selected twice, an interface field costed twice",
        "design_ref": "DESIGN.md section 4, C14",
        "note": "trusts go/ssa, the engine's instruction semantics (validated by native replay of sampled paths), z3",
        "technique": "symbolic execution of go/ssa + SMT (z3 bit-vectors), counterexample replay on the native build",
    },
}

NOT_APPLICABLE = {
    "C17": "generation success/type-checking of output is a whole-program property of text/template + go/packages + go/types + the file system over arbitrary schemas; not encodable for a solver (DESIGN.md section 6)",
    "C18": "byte-identical output across processes/map seeds/start directories is a multi-process property of the same unencodable generator pipeline (DESIGN.md section 6)",
    "C19": "preservation of arbitrary user Go source goes through go/parser/go/packages on arbitrary text; nothing a solver can range over (DESIGN.md section 6)",
}
for _p in ["C%02d" % k for k in range(1, 21)]:
    if _p not in CLAIMED and _p not in NOT_APPLICABLE:
        NOT_APPLICABLE[_p] = _NOT_BUILT
