"""Registry of checks: property id -> harness runs and their bounds.

Each harness spec: pkg (directory under /repo holding the unit and, under
/verif/harness/<pkg>, the overlay harness files), harness (entry function),
quick / thorough (engine limits and zzsym.Param values), reach (witness
labels that must be reached on some feasible path, else the check is
vacuous/broken), what (one line for the evidence)."""

CHECKS = {}

CHECKS["C14"] = {
    "prepare_late": True,
    "assumptions": [
        "go/ssa translation of the Go source; engine semantics of the SSA instructions; z3",
    ],
    "harnesses": [
        {"pkg": "complexity", "harness": "Harness_C14_safeAdd", "reach": ["safeAdd.compared"], "cross_solvers": ["z3", "cvc5"],
         "what": "complexity.safeAdd vs saturating reference, all 2^128 operand pairs (64-bit bit-vectors, no bound)"},
        {"pkg": "graphql/handler/extension", "harness": "Harness_C14_walk", "setup": "Setup_C14_walk", "reach": ["c14.walk"], "workers": 6,
         "what": "complexity.Calculate vs documented definition on 6 corpus operations (interface, union, fragments, aliases), custom costs symbolic (defined?, 64-bit constant) per (type, field)"},
        {"pkg": "graphql/handler/extension", "harness": "Harness_C14_monotone", "setup": "Setup_C14_walk", "reach": ["c14.mono"], "workers": 4,
         "what": "adding selections never decreases complexity, 2 operation pairs, all constant custom costs"},
        {"pkg": "graphql/handler/extension", "harness": "Harness_C14_gate", "setup": "Setup_C14_walk", "reach": ["c14.gate"], "workers": 4,
         "what": "ComplexityLimit.MutateOperationContext rejects iff complexity > limit, all 64-bit limits and costs, 3 operations"},
    ],
}

CHECKS["C08"] = {
    "assumptions": ["float digit generation (strconv.FormatFloat/AppendFloat, fmt %g/%v) on a symbolic operand is a contract stub: with precision -1 the text parses back (strconv.ParseFloat) to the operand rounded to the formatter's bit size, and is a JSON number iff the operand is finite; any other verb or precision parses back to an unconstrained value; native replays run the real formatter"],
    "harnesses": [
        {"pkg": "graphql", "harness": "Harness_C08_writeQuotedString", "reach": ["quoted.checked"],
         "quick": {"params": {"n": 3}, "workers": 8}, "thorough": {"params": {"n": 4}, "workers": 14},
         "what": "writeQuotedString on every byte string of length n: RFC 8259 token, RFC 3629 validity, decode = input with U+FFFD"},
        {"pkg": "graphql", "harness": "Harness_C08_MarshalStringID", "reach": ["quoted.checked"], "quick": {"params": {"n": 2, "omittable": 1}}, "thorough": {"params": {"n": 3, "omittable": 1}},
         "what": "MarshalString / MarshalID through the Marshaler interface, Omittable[string].MarshalGQL / MarshalGQLContext, on every byte string of length n"},
        {"pkg": "graphql", "harness": "Harness_C08_intRoundTrip", "reach": ["c08.ints"], "quick": {"sample_models": 100},
         "what": "Marshal{Int,Int64,Int32,Uint64,Uint32,IntID,UintID} -> JSON decode -> Unmarshal* on a 12-value boundary grid"},
        {"pkg": "graphql", "harness": "Harness_C08_composition", "reach": ["c08.composition"], "workers": 8, "quick": {"params": {"depth": 2}, "sample_models": 60, "sample_every": 17}, "thorough": {"params": {"depth": 2}, "workers": 14, "sample_models": 100, "sample_every": 97},
         "what": "FieldSet / Array / lit / contextMarshalerAdapter compositions of depth <= 2, 0..2 children of 7 kinds each: output equals the JSON text of the composition"},
        {"pkg": "graphql", "harness": "Harness_C08_composition", "reach": ["c08.composition"], "workers": 8, "thorough_only": True, "tag": "deep", "thorough": {"params": {"depth": 6, "fan": 2}, "sample_models": 40, "sample_every": 7},
         "what": "the same, nesting depth <= 6 with 0..1 children per level"},
        {"pkg": "graphql", "harness": "Harness_C08_misc", "reach": ["c08.misc"], "quick": {"sample_models": 20},
         "what": "Boolean (symbolic), Time, UUID, Map, Any, Omittable: round trips and null forms"},
        {"pkg": "graphql", "harness": "Harness_C08_float", "reach": ["c08.float"], "cross_solvers": ["z3", "cvc5"], "quick": {"sample_models": 20},
         "what": "MarshalFloatContext / MarshalFloat + UnmarshalFloat for every float64 bit pattern (FloatingPoint theory): error iff non-finite; the emitted token is a JSON number decoding to exactly the value (strconv/fmt shortest-digit generation as a contract model: text parses back to the operand rounded to the formatter's bit size; other verbs/precisions unconstrained), unmarshal gives the original back"},
    ],
}

CHECKS["C10"] = {
    "assumptions": [],
    "harnesses": [
        {"pkg": "graphql/handler/transport", "harness": "Harness_C10_bytesReader", "reach": ["reader.seek", "reader.read"], "thorough": {"params": {"ops": 3, "maxlen": 4}, "workers": 14, "timeout_ms": 60000},
         "what": "bytesReader Read/Seek, arbitrary 64-bit position/offset/whence, len 0..3, two operations from an arbitrary valid state"},
        {"pkg": "graphql", "harness": "Harness_C10_AddUpload", "reach": ["upload.stored", "upload.rejected"], "thorough": {"params": {"depth": 2, "maxseg": 3}, "workers": 14},
         "what": "RawParams.AddUpload over variables trees of depth <= 2 x paths of 1-2 segments from a 7-segment corpus"},
    ],
}

CHECKS["C03"] = {
    "assumptions": ["gqlparser's parser and validator are interpreted from source (not stubbed)"],
    "harnesses": [
        {"pkg": "graphql/executor", "harness": "Harness_C03_gates", "setup": "Setup_C03_gates", "reach": ["gates.accepted", "gates.rejected", "hooks.checked"], "workers": 8, "thorough": {"params": {"maxmut": 3}, "workers": 14, "sample_models": 60, "sample_every": 331},
         "what": "Executor.CreateOperationContext on a 12-request corpus x 0..2 parameter mutators x 0..2 context mutators (each rejecting or not, symbolic) x cache {none, cold, warm} x suggestions on/off"},
        {"pkg": "graphql/executor", "harness": "Harness_C03_hooks", "setup": "Setup_C03_hooks", "reach": ["hooks.checked"], "workers": 4, "thorough": {"params": {"maxext": 4}, "workers": 12},
         "what": "processExtensions/DispatchOperation hook order for every list of 0..3 extensions over 5 hook subsets"},
        {"pkg": "graphql/executor", "harness": "Harness_C03_concurrent", "setup": "Setup_C03_concurrent", "reach": ["c03.concurrent"], "workers": 4, "race": True, "sched_confirm": True,
         "what": "two concurrent CreateOperationContext calls on one Executor x suggestions on/off x shared MapCache or none: verdicts and happens-before race check (gqlparser's validator included)"},
    ],
}

_HTTP = {"pkg": "graphql/handler", "workers": 8}
CHECKS["C09"] = {
    "assumptions": ["http.ResponseWriter fake freezes headers at WriteHeader like net/http; request built in memory (no sockets)"],
    "harnesses": [
        dict(_HTTP, harness="Harness_C09_http", setup="Setup_C09_http", reach=["http.executed", "http.refused"], quick={"params": {"forms": 1}, "sample_models": 40, "sample_every": 211}, thorough={"params": {"forms": 1}, "sample_models": 120, "sample_every": 97},
             what="Server.ServeHTTP -> GET / POST / application/graphql / urlencoded form / multipart form (real mime/multipart parsing) -> real Executor over 29 documents (incl. one per further validation rule, texts colliding under 32-bit checksums) x operationName x 9 Accept headers x 4 ResponseHeaders configurations x suggestions on / off x a hand-built server / NewDefaultServer"),
        dict(_HTTP, harness="Harness_C09_sequence", setup="Setup_C09_sequence", reach=["seq.executed", "seq.refused"], quick={"sample_models": 30, "sample_every": 7},
             what="two requests (9 x 9 documents/operationNames incl. invalid ones, GET or POST each, query cache off / MapCache) through one server: the second executes exactly what it names or is refused on its own merits"),
        dict(_HTTP, harness="Harness_C09_malformed", setup="Setup_C09_malformed", reach=["bodies.rejected", "bodies.ok"],
             what="malformed bodies / query strings on 4 HTTP transports: the answer carries a Content-Type"),
        dict(_HTTP, harness="Harness_C09_fallbacks", setup="Setup_C09_fallbacks", reach=["fallback.checked"],
             what="Server.ServeHTTP answers when no transport supports the request"),
    ],
}
CHECKS["C10"]["harnesses"].append(
    dict(_HTTP, harness="Harness_C10_bodies", setup="Setup_C10_bodies", reach=["bodies.rejected", "bodies.ok"], quick={"sample_models": 24, "sample_every": 3},
         what="malformed bodies / query strings on POST, GET, urlencoded form and application/graphql transports through the real Executor; recover hook must not run"))

CHECKS["C10"]["harnesses"].append(
    {"pkg": "graphql/handler/transport", "harness": "Harness_C10_multipartForm", "reach": ["form.ok", "form.rejected", "form.toolarge"], "workers": 8,
     "quick": {"sample_models": 60, "sample_every": 3},
     "what": "MultipartForm.Do: 12 part layouts x in-memory/spill x over-limit x (engine) failing CreateTemp/Open/Close; multipart.Reader/Part, os.File, MaxBytesReader are name-intercepted stubs under the engine; native replays use a real multipart body and a private TMPDIR"})

CHECKS["C15"] = {
    "assumptions": ["crypto/sha256 runs natively on concrete texts; mapstructure.Decode is a contract model (flat struct, integers from any numeric/json.Number)",
                    "one-step induction: arbitrary cache pre-state satisfying key = SHA-256(text); eviction only removes entries"],
    "harnesses": [
        {"pkg": "graphql/handler/extension", "harness": "Harness_C15_apq", "workers": 4, "quick": {"sample_models": 200},
         "reach": ["apq.noext", "apq.hit", "apq.notfound", "apq.registered", "apq.mismatch"],
         "what": "AutomaticPersistedQuery.MutateOperationParameters: 4 cache pre-states x 3 texts x 11 extension shapes"},
        {"pkg": "graphql/handler/extension", "harness": "Harness_C15_history", "workers": 8, "reach": ["apq.history", "apq.history.hit"],
         "quick": {"params": {"hist": 2}, "sample_models": 300}, "thorough": {"params": {"hist": 4}, "sample_models": 400, "sample_every": 151, "workers": 14},
         "what": "explicit histories of 2 [4] requests from an empty store over 2 texts x 2 hashes x {text, text+own hash, text+given hash, hash only}"},
    ],
}

CHECKS["C07"] = {
    "assumptions": ["sync.Pool model: Get returns the most recently Put object, else New() (the real pool may also drop objects, which only removes memory)",
                    "one-step induction over the pool invariant 'pooled objects are all-zero'"],
    "harnesses": [
        {"pkg": "graphql/handler/transport", "harness": "Harness_C07_postPool", "reach": ["pool.checked"], "quick": {"sample_models": 60},
         "what": "POST.Do from an all-zero pooled RawParams: 11 bodies x 4 executor outcomes (ok, rejected, panic before/after dispatch); object back in the pool is all-zero"},
        {"pkg": "graphql/handler/transport", "harness": "Harness_C07_postHistory", "reach": ["history.compared", "history.rejected"], "quick": {"sample_models": 100, "sample_every": 5}, "thorough": {"params": {"hist": 3}, "workers": 12, "sample_models": 200, "sample_every": 101},
         "what": "two POST requests through one pool: 11 x 11 bodies x 4 outcomes of the first; parameters seen for the second equal its own content"},
    ],
}


import probes

CHECKS["C01"] = {
    "prepare": probes.prepare,
    "assumptions": ["two hand-built probe schemas stand for 'all schemas'; the reference executor (probes/ref) is the oracle",
                    "scheduler: run-to-block, lowest task id first (schedule independence is C06)"],
    "harnesses": [
        {"probe": "core", "harness": "Harness_C01_exec", "setup": "Setup_C01_exec", "reach": ["c01.compared"], "workers": 10, "sched": "first",
         "configs_quick": ["single", "follow", "funcsyn"], "configs_thorough": ["single", "follow", "funcsyn", "wl1", "wl2", "omitptr", "follow_wl2"],
         "quick": {"params": {"budget": 2}, "sample_models": 40, "sample_every": 53}, "thorough": {"params": {"budget": 3}, "sample_models": 200, "sample_every": 523},
         "what": "generated executor (api.Generate at check time) vs reference on 10 operation families with symbolic @skip/@include variables and resolver/directive outcomes {value,null,error} within a deviation budget"},
    ],
}

CHECKS["C04"] = {
    "prepare": probes.prepare,
    "assumptions": CHECKS["C01"]["assumptions"] + ["a panic escaping any interpreted goroutine is reported as a process crash"],
    "harnesses": [
        {"probe": "core", "harness": "Harness_C04_faults", "setup": "Setup_C04_faults", "reach": ["c04.compared", "c04.panic"], "workers": 10, "sched": "first",
         "configs_quick": ["single", "wl1"], "configs_thorough": ["single", "follow", "funcsyn", "wl1", "wl2", "follow_wl2"],
         "quick": {"params": {"budget": 1}, "sample_models": 40, "sample_every": 5}, "thorough": {"params": {"budget": 2}, "sample_models": 200, "sample_every": 31},
         "what": "fault injection {error, panic} at every resolver / directive / argument-directive position of 8 operation families (single faults quick, pairs thorough) on the generated executor; worker_limit 0/1/2"},
    ],
}

CHECKS["C14"]["prepare"] = probes.prepare
CHECKS["C14"]["harnesses"].append(
    {"probe": "core", "harness": "Harness_C14_generated", "setup": "Setup_C14_generated", "reach": ["c14.custom", "c14.default"], "workers": 4, "sched": "first",
     "configs_quick": ["single"], "configs_thorough": ["single", "follow", "funcsyn"], "quick": {"sample_models": 40},
     "what": "generated Complexity() switch: 8 (type, field, raw arguments) cases x custom function registered or not, child complexity and returned cost symbolic at full width"})

CHECKS["C04"]["harnesses"].append(
    {"probe": "core", "harness": "Harness_C04_argPanic", "setup": "Setup_C04_faults", "reach": ["c04.argpanic"], "workers": 6, "sched": "first",
     "configs_quick": ["single", "follow"], "configs_thorough": ["single", "follow", "funcsyn", "omitptr"], "quick": {"params": {"budget": 1}},
     "what": "a panic while building a field's arguments (custom scalar UnmarshalGQL, argument directive): field null, one error, resolver not called, recover hook once"})

CHECKS["C06"] = {
    "prepare": probes.prepare,
    "assumptions": ["tasks switch only at synchronisation operations (plus a preemption budget); exhaustive for data-race-free code, and race freedom is checked on every explored schedule by a happens-before (vector clock) detector",
                    "the reference executor is schedule-free, so equality with it on every explored schedule is schedule independence"],
    "harnesses": [
        {"probe": "core", "harness": "Harness_C06_schedules", "setup": "Setup_C06_schedules", "reach": ["c06.compared"], "workers": 12, "race": True,
         "configs_quick": ["single"], "configs_thorough": ["single", "wl1", "wl2", "follow"],
         "quick": {"params": {"budget": 1}, "sample_models": 10, "sample_every": 37}, "thorough": {"params": {"budget": 2}, "preempt": 0, "sample_models": 30, "sample_every": 101},
         "no_native": False,
         "what": "every completion order of concurrently resolved fields / list elements at blocking points (plus 1 preemption, thorough) on 5 families x outcome deviations; data and error multiset equal the reference on each; vector-clock race check on every load/store"},
        {"probe": "core", "harness": "Harness_C06_invalids", "setup": "Setup_C06_schedules", "reach": ["c06.invalids"], "workers": 6, "race": True,
         "configs_quick": ["single", "wl1", "wl2"], "configs_thorough": ["single", "wl1", "wl2", "follow"],
         "quick": {"preempt": 1}, "thorough": {"preempt": 2}, "native_retries": 3000,
         "what": "several non-null siblings failing concurrently (fixed outcomes): every schedule incl. preemptions; race check on the shared field set"},
        {"probe": "core", "harness": "Harness_C06_mutationSerial", "setup": "Setup_C06_schedules", "reach": ["c06.serial"], "workers": 6, "race": True,
         "configs_quick": ["single"], "configs_thorough": ["single", "wl1", "follow"],
         "quick": {"params": {"budget": 1}}, "thorough": {"params": {"budget": 2, "docs": 1}, "preempt": 1},
         "what": "mutation root fields start in document order, each after the previous field's whole sub-selection (spawned resolvers included) has finished, on every schedule (quick: also with a root field that is a list of objects; thorough: two deviations and one preemption on the object document, the list document under the tag -list)"},
    ],
}

CHECKS["C13"] = {
    "prepare": probes.prepare,
    "assumptions": CHECKS["C06"]["assumptions"] + ["one family selects a field plainly and again inside deferred fragments: its groups hold nullable fields only (which group such a field belongs to when a non-null sibling fails is not settled by the property)",
                                                 "@defer(if: x) with x null or a variable without a value: the reference inlines the fragment, as gqlgen does (its directive declares `if: Boolean = true`, nullable; the property does not say which payload carries the data then)"],
    "harnesses": [
        {"probe": "core", "harness": "Harness_C13_defer", "setup": "Setup_C13_defer", "reach": ["c13.compared", "c13.incremental"], "workers": 12, "sched_confirm": True,
         "configs_quick": ["single"], "configs_thorough": ["single", "follow", "wl2"], "map_permute": 3,
         "quick": {"params": {"budget": 1}, "sample_models": 12, "sample_every": 41}, "thorough": {"params": {"budget": 1}, "sample_models": 30, "sample_every": 301},
         "what": "7 @defer families (two groups, lists, spreads, shared labels, nested) x symbolic if: variables x one outcome deviation x every completion order of groups: arrival-order merge equals the defer-aware reference, delivery rules"},
        {"probe": "core", "harness": "Harness_C13_defer", "setup": "Setup_C13_defer", "reach": ["c13.compared", "c13.incremental"], "workers": 14, "sched": "first", "tag": "-b2", "thorough_only": True,
         "configs_thorough": ["single"],
         "thorough": {"params": {"budget": 2}, "sample_models": 30, "sample_every": 1501},
         "what": "the same with two outcome deviations on the canonical schedule (lowest task id first)"},
    ],
}

CHECKS["C05"] = {
    "prepare": probes.prepare,
    "assumptions": ["context.WithCancel, x/sync/semaphore interpreted from source; resolvers of the probe never block (they 'return promptly')",
                    "liveness is rendered as: the main task reaches its return (a state where every task is blocked is a deadlock violation), and zzsym.Quiesce() counts tasks still alive"],
    "harnesses": [
        {"probe": "core", "harness": "Harness_C05_cancelList", "setup": "Setup_C05_cancelList", "reach": ["c05.list"], "workers": 8, "sched": "first",
         "configs_quick": ["single", "wl1", "wl2"], "configs_thorough": ["single", "wl1", "wl2", "wl8", "follow_wl2"],
         "what": "list fan-out of 3 + 2 elements, context cancelled at 9 points (never, before, inside the k-th resolver call), worker_limit 0/1/2: join terminates, nothing left running"},
        {"probe": "core", "harness": "Harness_C05_deferOnce", "setup": "Setup_C05_deferOnce", "reach": ["c05.defer"], "workers": 8, "sched": "first",
         "configs_quick": ["single", "follow"], "configs_thorough": ["single", "follow", "wl2"],
         "what": "7 @defer families consumed for one payload then cancelled (single-response transports): no task left blocked"},
        {"probe": "core", "harness": "Harness_C05_deferCancel", "setup": "Setup_C05_deferCancel", "reach": ["c05.defercancel"], "workers": 10, "sched_confirm": True, "native_retries": 600,
         "configs_quick": ["single", "follow"], "configs_thorough": ["single", "follow", "wl2"], "quick": {"sample_models": 8, "sample_every": 53},
         "what": "7 @defer families drained by a streaming consumer with the context cancelled at 7 points (inside a resolver call / after a payload), every schedule and select choice: the response function returns, no task left"},
    ],
}

CHECKS["C16"] = {
    "prepare": probes.prepare,
    "assumptions": ["ast definitions are built directly by the harness (not through the SDL parser); arbitrary schemas are outside the bound"],
    "harnesses": [
        {"pkg": "graphql/introspection", "harness": "Harness_C16_fields", "reach": ["c16.fields"], "workers": 8, "quick": {"sample_models": 30, "sample_every": 13}, "thorough": {"params": {"defaults": 11}, "workers": 14},
         "what": "Type.Fields: 2 fields x 2 arguments, each with symbolic @deprecated (+/- reason), description, default value, includeDeprecated"},
        {"pkg": "graphql/introspection", "harness": "Harness_C16_inputsEnums", "reach": ["c16.inputs"], "workers": 8, "quick": {"params": {"defaults": 3, "defaults:in.q": 11}, "sample_models": 30, "sample_every": 29}, "thorough": {"params": {"defaults": 11}, "workers": 14},
         "what": "InputFields, EnumValues(includeDeprecated), Schema.Directives/directiveFromDef with symbolic @deprecated on each element"},
        {"probe": "core", "harness": "Harness_C16_disabled", "setup": "Setup_C16_disabled", "reach": ["c16.enabled", "c16.disabled"], "workers": 6, "sched": "first",
         "configs_quick": ["single"], "configs_thorough": ["single", "follow", "funcsyn"], "quick": {"sample_models": 20},
         "what": "generated __schema/__type resolvers behind aliases, fragments, inline fragments and @include variables with DisableIntrospection symbolic"},
    ],
}

CHECKS["C20"] = {
    "prepare": probes.prepare,
    "assumptions": ["federation probe schema: two single-lookup keys (Alpha), a batch type with two keys (Beta, multi), nested key (Gamma), @requires (Delta)",
                    "expected element i is computed from representation i alone (and the fault table)"],
    "harnesses": [
        {"probe": "fed", "harness": "Harness_C20_entities", "setup": "Setup_C20_entities", "reach": ["c20.compared"], "workers": 12, "sched": "first",
         "configs_quick": ["fed_single", "fed_v1"], "configs_thorough": ["fed_single", "fed_v1", "fed_follow", "fed_wl2", "fed_explicit", "fed_computed"],
         "quick": {"params": {"maxreps": 2, "budget": 1}, "sample_models": 40, "sample_every": 17},
         "thorough": {"params": {"maxreps": 3, "budget": 1}, "sample_models": 120, "sample_every": 211},
         "what": "generated __resolve_entities on lists of 0..2 (quick) / 0..3 (thorough) representations over 11 shapes with at most one failing lookup (error / panic)"},
        {"probe": "fed", "harness": "Harness_C20_entities", "setup": "Setup_C20_entities", "reach": ["c20.compared"], "workers": 12, "sched": "first", "tag": "-requires",
         "configs_quick": ["fed_explicit", "fed_computed", "fed_single"], "configs_thorough": ["fed_explicit", "fed_single"],
         "quick": {"params": {"maxreps": 3, "budget": 1, "shapes": 4, "requires": 1}, "sample_models": 20, "sample_every": 23},
         "thorough": {"params": {"maxreps": 3, "budget": 2, "shapes": 4, "requires": 1}, "sample_models": 20, "sample_every": 97},
         "what": "@requires under explicit_requires (user populator called with the entity's own representation) and computed_requires (the requiring field's resolver receives the representation at the entity's result index): lists of 0..3 representations over {plain entity, batch entity, requiring entity, unknown type}, one [two] failing lookups"},
        {"probe": "fed", "harness": "Harness_C20_entities", "setup": "Setup_C20_entities", "reach": ["c20.compared"], "workers": 12, "race": True, "tag": "-sched",
         "configs_quick": ["fed_single"], "configs_thorough": ["fed_single", "fed_wl2"], "sched_confirm": True,
         "quick": {"params": {"maxreps": 3, "budget": 1, "shapes": 3, "gated": 1}, "sample_models": 10, "sample_every": 97},
         "thorough": {"params": {"maxreps": 3, "budget": 1, "shapes": 4, "gated": 1}, "sample_models": 20, "sample_every": 997},
         "what": "same, every completion order of the per-type groups and per-entity goroutines (3 representations over the first 3 / 6 shapes), with the happens-before race check on the result list"},
    ],
}

_WS = {"pkg": "graphql/handler/transport", "workers": 8}
CHECKS["C11"] = {
    "assumptions": ["gorilla's *websocket.Conn methods WriteMessage/Close/Subprotocol/SetReadDeadline are name-intercepted stubs under the engine (frames of interest go through the messageExchanger fake); native replays use a real server-side connection over loopback",
                    "client message sequences are bounded scripts; executor is a fake with the contract that C03 establishes for the real one"],
    "harnesses": [
        dict(_WS, harness="Harness_C11_init", reach=["c11.init.accepted", "c11.init.refused"], quick={"sample_models": 60, "sample_every": 11},
             what="wsConnection.init: 15 first-frame kinds x 6 payloads x 4 init-function behaviours x 2 subprotocols"),
        dict(_WS, harness="Harness_C11_subscribe", reach=["c11.sub.ran", "c11.sub.rejected"], quick={"sample_models": 40, "sample_every": 7}, thorough={"params": {"maxpayloads": 3}, "sample_models": 80, "sample_every": 13},
             what="wsConnection.subscribe + its goroutine: verdict x 0..2 payloads x panic at step k x subscription error x 3 start payloads"),
        dict(_WS, harness="Harness_C11_initTimeout", reach=["c11.timeout.fired"], sched_confirm=True, quick={"sample_models": 8},
             what="wsConnection.init with InitTimeout: silent client or connection_init, the timer firing at any scheduling point: decided once, closed once, the helper goroutine ends"),
        dict(_WS, harness="Harness_C11_run", reach=["c11.run", "c11.run.op"], race=True, sched_confirm=True, native_retries=4000, workers=12,
             quick={"params": {"maxlen": 2}, "sample_models": 12, "sample_every": 97}, thorough={"params": {"maxlen": 3}, "sample_models": 30, "sample_every": 997},
             what="wsConnection.run on every client script of 1..2 [3] frames over a 9-frame alphabet, long-lived operations, a scheduling decision before every frame, race check"),
    ],
}

CHECKS["C12"] = {
    "assumptions": ["time.NewTicker is modelled as a daemon task that may deliver a tick at any scheduling point (at most 'ticks' times); every write to the ResponseWriter fake is an explicit preemption point in the SSE harness",
                    "payload sequences satisfy C13's hasNext contract; aggregator flush ticks are symbolic Booleans at every point between Adds (flush and Add hold the same mutex)"],
    "harnesses": [
        dict(_WS, harness="Harness_C12_multipart", reach=["c12.multipart"], quick={"sample_models": 40, "sample_every": 3}, thorough={"params": {"maxinc": 5}, "sample_models": 80, "sample_every": 29, "workers": 12},
             what="multipartResponseAggregator Add/flush/Done over 1 + 0..3 payloads with a symbolic flush tick at every point: independent multipart parser on the bytes"),
        dict(_WS, harness="Harness_C12_sse", reach=["c12.sse"], race=True, sched_confirm=True, quick={"params": {"ticks": 1}, "sample_models": 10, "sample_every": 7}, thorough={"params": {"ticks": 1, "maxpayloads": 2, "yield": 1}, "workers": 14},
             what="SSE.Do with 0..2 payloads / rejected operation, keep-alive ticker firing at any scheduling point, every write a preemption point: event grammar, exactly-once, no overlapping writes, race check"),
    ],
}

CHECKS["C02"] = {
    "prepare": probes.prepare,
    "assumptions": ["strconv runs interpreted from source on the concrete boundary grid; typed inputs are symbolic at full width"],
    "harnesses": [
        {"pkg": "graphql", "harness": "Harness_C02_typedInts", "reach": ["c02.typed"], "workers": 6, "cross_solvers": ["z3", "cvc5"],
         "what": "Unmarshal{Int,Int64,Int32,Uint,Uint64,Uint32,IntID,UintID} on typed inputs (int, int64, int32, uint64) with symbolic 64-bit values: accepted => mathematically unchanged; in-range => accepted"},
        {"pkg": "graphql", "harness": "Harness_C02_stringInts", "reach": ["c02.strings"], "workers": 6, "quick": {"sample_models": 200, "sample_every": 3},
         "what": "the same functions on string / json.Number inputs from a 30-entry boundary grid"},
        {"probe": "core", "harness": "Harness_C02_args", "setup": "Setup_C02_args", "reach": ["c02.coerced", "c02.rejected"], "workers": 6, "sched": "first",
         "configs_quick": ["single", "follow"], "configs_thorough": ["single", "follow", "funcsyn", "omitptr"], "quick": {"sample_models": 60},
         "what": "generated field_*_args / unmarshalInput* / unmarshalN/O* on a 23-case argument corpus (literals, variables, defaults, explicit null, nested inputs, single-value-to-list incl. nested lists, enum, custom scalar, failures): resolver receives exactly the annotated coerced values"},
    ],
}

CHECKS["C04"]["harnesses"].append(
    dict(_HTTP, harness="Harness_C04_servePanic", setup="Setup_C04_servePanic", reach=["c04.serve"], quick={"sample_models": 10},
         what="Server.ServeHTTP when serialising the response panics (GET / POST / application/graphql): error body, recover hook once, no escape"))
CHECKS["C07"]["harnesses"].append(
    dict(_HTTP, harness="Harness_C07_noPersistentWrites", setup="Setup_C07_noPersistentWrites", reach=["c07.frozen"], no_native_samples=False, quick={"sample_models": 10, "sample_every": 9},
         what="after a warm-up request the server/executor/transport object graph and every package-level variable of gqlgen's graphql packages and of gqlparser are frozen: one request (4 transports x 10 documents x 2 header configurations) must not store into any of it"))


CHECKS["C05"]["harnesses"].append(
    dict(_WS, harness="Harness_C11_initTimeout", reach=["c11.timeout.fired"], sched_confirm=True, quick={"sample_models": 8},
         what="websocket init timeout: no goroutine of the handshake survives the closed connection"))


CHECKS["C15"]["harnesses"].append(
    dict(_HTTP, harness="Harness_C15_server", setup="Setup_C15_server", reach=["c15.server"], workers=8,
         quick={"params": {"hist": 2}, "sample_models": 40, "sample_every": 5}, thorough={"params": {"hist": 3, "texts": 4, "kinds": 10}, "sample_models": 60, "sample_every": 47, "workers": 14},
         what="histories of 2 [3, over the first 4 texts] HTTP requests through one Server (POST/GET transports with the recycled parameter object, APQ extension, executor) over 12 request kinds (thorough histories of 3: the first 10) incl. text with its own / another hash over GET, and bodies that fail decoding after query/extensions were read, against the model hash -> text"))

CHECKS["C14"]["harnesses"].append(
    {"pkg": "graphql/handler/extension", "harness": "Harness_C14_variables", "setup": "Setup_C14_walk", "reach": ["c14.vars.accepted", "c14.vars.rejected"], "workers": 6,
     "quick": {"sample_models": 30, "sample_every": 3},
     "what": "the gate end to end through executor.CreateOperationContext: 6 operations whose custom cost depends on an argument given by literal / variable / variable default x 4 values x int64|json.Number, symbolic limit: rejected iff the documented complexity under the request's variable values exceeds the limit; rejected operations are not dispatched"})

CHECKS["C07"]["prepare"] = probes.prepare
CHECKS["C07"]["harnesses"].append(
    {"probe": "core", "harness": "Harness_C07_sharedDocument", "setup": "Setup_C07_sharedDocument", "reach": ["c07.doc.sequential", "c07.doc.concurrent"], "workers": 8, "race": True,
     "configs_quick": ["single"], "configs_thorough": ["single", "follow"], "quick": {"params": {"concq": 2}, "sample_models": 12}, "thorough": {"workers": 14, "sample_models": 24, "sample_every": 97},
     "what": "generated executor + executor.Executor with a query cache: the same text under different variables (6 documents with variable-dependent merged selections), sequentially (cached document frozen after the first request) and concurrently (every explored schedule, vector-clock race check): each response equals the reference for that request alone"})

CHECKS["C11"]["harnesses"].append(
    dict(_WS, harness="Harness_C11_tickers", reach=["c11.tickers", "c11.tickers.op"], race=True, sched_confirm=True,
         quick={"params": {"ticks": 1}, "sample_models": 12, "sample_every": 11}, thorough={"params": {"ticks": 2}, "workers": 14, "sample_models": 24, "sample_every": 211},
         what="wsConnection.run with keep-alive / pong-only / ping-pong timers (ticks at any scheduling point), 0..1 long-lived operation, ended by server context cancellation at any point or by the peer: goroutines end, operation cancelled and terminated, close callback once, no concurrent frame writes, race check"))

CHECKS["C04"]["harnesses"].append(
    {"probe": "core", "harness": "Harness_C04_deferFaults", "setup": "Setup_C04_deferFaults", "reach": ["c04.defer.compared", "c04.defer.panic"], "workers": 6, "sched": "first",
     "configs_quick": ["single"], "configs_thorough": ["single", "follow", "wl1"], "quick": {"sample_models": 16, "sample_every": 5}, "thorough": {"params": {"budget": 2}, "sample_models": 24, "sample_every": 37, "workers": 12},
     "what": "a single [pair of] fault(s) (error / panic / alien value; resolver or directive) in 4 operations with active @defer fragments, inside and outside the deferred groups: merged payloads = defer-aware reference, one error per failure, recover hook once per panic"})

CHECKS["C05"]["harnesses"].append(
    {"probe": "core", "harness": "Harness_C05_deferFaults", "setup": "Setup_C05_deferFaults", "reach": ["c05.deferfaults"], "workers": 6, "sched": "first",
     "configs_quick": ["single"], "configs_thorough": ["single", "follow", "wl1"], "quick": {"sample_models": 12, "sample_every": 7}, "thorough": {"params": {"budget": 2}, "sample_models": 24, "sample_every": 41, "workers": 12},
     "what": "8 @defer operations with one [two] resolver positions failing or null (incl. a non-null sibling that nulls the object carrying a deferred group), drained without cancellation: the response function ends the sequence (deadlock detection), last payload has no hasNext, no goroutine left"})

CHECKS["C09"]["harnesses"].append(
    dict(_HTTP, harness="Harness_C09_persisted", setup="Setup_C09_persisted", reach=["c09.persisted.executed", "c09.persisted.refused"], quick={"sample_models": 20, "sample_every": 3},
         what="the document supplied by an operation-parameter mutator (APQ hash-only request) over GET and POST: 9 documents x operationName x 3 Accept: GET executes only queries, exactly the named operation runs, status follows the outcome"))

CHECKS["C03"]["harnesses"].append(
    dict(_HTTP, harness="Harness_C03_history", setup="Setup_C03_history", reach=["c03.history"], quick={"sample_models": 20, "sample_every": 2}, thorough={"params": {"hist": 2}, "sample_models": 40, "sample_every": 7},
         what="request histories through one Server and its POST transport: 1 [2] preceding requests from a 4-request corpus, then each of 10 requests that must be rejected (missing / null / mistyped variables, operation selection, validation, parse): no interceptor, no resolver, errors only"))

CHECKS["C07"]["harnesses"].append(
    dict(_HTTP, harness="Harness_C07_serverHistory", setup="Setup_C07_serverHistory", reach=["c07.server.history"], quick={"sample_models": 30, "sample_every": 23},
         what="two requests through one Server (13-request corpus: 4 transports x documents x operation names x Accept headers, valid and invalid) x configured response headers x query cache: status, headers, executed operation and body of the second equal a fresh server's answer"))

CHECKS["C12"]["harnesses"].append(
    dict(_WS, harness="Harness_C12_multipartDo", reach=["c12.multipartdo", "c12.multipartdo.rejected"], race=True, sched_confirm=True,
         native_retries=40, quick={"params": {"ticks": 1, "maxinc": 2}, "sample_models": 10, "sample_every": 7}, thorough={"params": {"ticks": 1, "maxinc": 3}, "workers": 14, "sample_models": 16, "sample_every": 101},
         what="MultipartMixed.Do as a whole (aggregator goroutine with its real ticker ticking at any scheduling point, payload production and every Write/Flush being scheduling points, response loop, Done, final flush): 1 + 0..1 [2] payloads / rejected operation: multipart grammar, exactly-once, order, closing boundary, ticker goroutine ends, no concurrent use of the ResponseWriter (race check)"))

CHECKS["C04"]["harnesses"].append(
    {"probe": "core", "harness": "Harness_C04_interceptor", "setup": "Setup_C04_interceptor", "reach": ["c04.interceptor", "c04.interceptor.panic"], "workers": 6, "sched": "first",
     "configs_quick": ["single"], "configs_thorough": ["single", "follow", "funcsyn", "wl1"], "quick": {"sample_models": 16, "sample_every": 5},
     "what": "the field interceptor (around every field, plain ones included) answering nil / failing / panicking at any one position of 5 operation families: only that position null with ordinary propagation, one error at its path, recover hook once per panic"})

CHECKS["C01"]["harnesses"].append(
    {"probe": "core", "harness": "Harness_C01_subscription", "setup": "Setup_C01_subscription", "reach": ["c01.sub.compared", "c01.sub.failed"], "workers": 6, "sched": "first",
     "configs_quick": ["single"], "configs_thorough": ["single", "follow", "funcsyn"], "quick": {"sample_models": 16, "sample_every": 7},
     "what": "subscriptions: 3 operations x 0..2 events (a nil event, a failing subscribe) x resolver outcomes within the budget: one response per event equal to the reference for that event's value, then nil"})
CHECKS["C04"]["harnesses"].append(
    {"probe": "core", "harness": "Harness_C04_subscription", "setup": "Setup_C04_subscription", "reach": ["c01.sub.compared", "c01.sub.failed"], "workers": 6, "sched": "first",
     "configs_quick": ["single"], "configs_thorough": ["single", "follow"], "quick": {"sample_models": 16, "sample_every": 7},
     "what": "a fault (error / panic) while subscribing or inside one subscription event: only that position of that event fails, the stream continues, recover hook once per panic"})

CHECKS["C02"]["harnesses"].append(
    {"probe": "core", "harness": "Harness_C02_variables", "setup": "Setup_C02_variables", "reach": ["c02.vars.coerced", "c02.vars.rejected"], "workers": 6, "sched": "first",
     "configs_quick": ["single"], "configs_thorough": ["single", "follow", "funcsyn", "omitptr"], "quick": {"sample_models": 40},
     "what": "requests with variables through executor.CreateOperationContext (gqlparser's variable coercion) and the generated binders: 20 cases (variable defaults with no / empty / partial variables, explicit null, json.Number and string forms, single value to list, input objects and their field defaults, missing required variables, uncoercible values): the resolver receives the coerced values or is never called"})

CHECKS["C03"]["harnesses"].append(
    {"pkg": "graphql/executor", "harness": "Harness_C03_rules", "setup": "Setup_C03_rules", "reach": ["c03.rules"], "workers": 8, "quick": {"sample_models": 30, "sample_every": 7},
     "what": "one document per validation rule of the specification (29 documents, each invalid only by that rule) x suggestions on/off x query cache x a suggestions-disabled executor having served a request before in the same process: rejected, nothing runs, nothing cached"})

CHECKS["C05"]["harnesses"].append(
    dict(_WS, harness="Harness_C05_streams", reach=["c05.streams"], race=True, sched_confirm=True, native_retries=60,
         quick={"params": {"ticks": 1}, "sample_models": 10, "sample_every": 11}, thorough={"params": {"ticks": 2}, "workers": 14, "sample_models": 16, "sample_every": 211},
         what="SSE (keep-alive on) and multipart/mixed (aggregator ticker) serving 1..2 payloads with the request context cancelled while any payload is produced, timers ticking at any scheduling point: Do returns and no goroutine of the transport is left (leak + deadlock detection), race check"))

CHECKS["C04"]["harnesses"].append(
    dict(_WS, harness="Harness_C11_subscribe", reach=["c11.sub.ran", "c11.sub.rejected"], quick={"sample_models": 12, "sample_every": 9},
         what="websocket subscribe goroutine: user code panicking while the operation is dispatched (operation interceptor / subscription directive) or while a result is produced: error frame for the id, recover hook, no panic escapes the goroutine (process keeps serving)"))

CHECKS["C09"]["harnesses"].append(
    dict(_HTTP, harness="Harness_C09_negotiationSequence", setup="Setup_C09_negotiationSequence", reach=["c09.negseq"], quick={"sample_models": 20, "sample_every": 5},
         what="two requests through one server with configured response headers (none / without Content-Type) x 3 x 3 Accept headers x GET/POST x valid / invalid second document: Content-Type and client-error status of the second answer follow its own Accept"))

CHECKS["C16"]["harnesses"].append(
    {"pkg": "graphql/introspection", "harness": "Harness_C16_relations", "setup": "Setup_C16_relations", "reach": ["c16.rel.type", "c16.rel.schema"], "workers": 6, "quick": {"sample_models": 40},
     "what": "every type of a schema with an interface hierarchy, unions, wrappers, oneOf, specifiedBy, repeatable directives: kind, name, description, interfaces, possibleTypes, ofType chains of every field / argument / input field, enum values, type list, root types, directives with locations and arguments, against the ast.Schema"})

CHECKS["C15"]["harnesses"].append(
    {"pkg": "graphql/handler/extension", "harness": "Harness_C15_concurrent", "workers": 8, "race": True, "reach": ["apq.concurrent"], "quick": {"sample_models": 12, "sample_every": 3},
     "what": "two requests carrying text and hash handled concurrently by one AutomaticPersistedQuery extension (own hash / another text's hash x 2 texts each), every explored schedule under the happens-before race check: each verdict is the one the request gets alone, the store only maps a hash to the text with that SHA-256"})

CHECKS["C04"]["harnesses"].append(
    {"probe": "core", "harness": "Harness_C04_extensionDup", "setup": "Setup_C04_extensionDup", "reach": ["c04.extdup", "c04.extdup.panic"], "workers": 6, "sched": "first",
     "configs_quick": ["single"], "configs_thorough": ["single", "follow", "wl1"], "quick": {"sample_models": 8},
     "what": "user code misusing an API that panics inside gqlgen (every resolver-backed field registers the same response extension): each later registration fails its position like a panicking resolver, the operation completes (deadlock detection), recover hook once per panic"})

CHECKS["C03"]["harnesses"].append(
    {"pkg": "graphql/executor", "harness": "Harness_C03_cacheKeys", "setup": "Setup_C03_cacheKeys", "reach": ["c03.cachekeys"], "workers": 6, "quick": {"sample_models": 15},
     "what": "query cache = map cache / LRU(10) / LRU(1): a valid document served first, then an invalid one differing only in white space, line ends or comments (5 twin pairs): rejected, nothing runs"})

CHECKS["C06"]["harnesses"].append(
    {"probe": "core", "harness": "Harness_C06_listInvalids", "setup": "Setup_C06_schedules", "reach": ["c06.listinvalids"], "workers": 8, "race": True,
     "configs_quick": ["single", "wl1", "wl2"], "configs_thorough": ["single", "wl1", "wl2", "wl8", "follow_wl2"], "quick": {"sample_models": 6, "sample_every": 5}, "thorough": {"preempt": 1, "sample_models": 10, "sample_every": 31}, "native_retries": 3000,
     "what": "three elements of a [T!] list each failing in a non-null field, worker_limit 0/1/2: the list is null and all three errors are reported on every completion order; race check"})

CHECKS["C09"]["harnesses"].append(
    dict(_HTTP, harness="Harness_C09_routing", setup="Setup_C09_routing", reach=["c09.routing.executed", "c09.routing.refused"], quick={"sample_models": 30, "sample_every": 11},
         what="transport selection: both orders of the five HTTP transports x method GET/POST/PUT x 8 request Content-Types x document in the body (query / mutation / named mutation) x document in the URL: a GET never executes a mutation, at most one operation runs, status follows the outcome, never gqlgen's own panic"))

CHECKS["C06"]["harnesses"].append(
    {"probe": "core", "harness": "Harness_C06_sharedVariables", "setup": "Setup_C06_schedules", "reach": ["c06.sharedvars"], "workers": 8, "race": True,
     "configs_quick": ["single"], "configs_thorough": ["single", "wl2", "follow"], "quick": {"sample_models": 6, "sample_every": 9},
     "what": "one request variable (input objects leaving defaulted fields out) feeding the arguments of 4 concurrently resolved fields / list elements: coerced values, variables unmodified, race check on every completion order"})

CHECKS["C04"]["harnesses"].append(
    {"probe": "core", "harness": "Harness_C04_serializePanic", "setup": "Setup_C04_serializePanic", "reach": ["c04.serializepanic"], "workers": 4, "sched": "first",
     "configs_quick": ["single"], "configs_thorough": ["single", "follow", "funcsyn"], "quick": {"sample_models": 3},
     "what": "a custom scalar panicking while the response is serialised (generated Exec), then a fault-free operation in the same process: the panic reaches the transport, and the next operation is answered exactly like the reference"})

# the websocket reader loop is also a transport under C05 (stop / close must cancel, nothing left running) and C07
# (frames of one operation never carry another operation's id)
for _p in ("C05", "C07"):
    CHECKS[_p]["harnesses"].append(
        dict(_WS, harness="Harness_C11_run", reach=["c11.run", "c11.run.op"], race=True, sched_confirm=True, native_retries=300,
             quick={"params": {"maxlen": 2}, "sample_models": 8, "sample_every": 31}, thorough={"params": {"maxlen": 3}, "workers": 12, "sample_models": 12, "sample_every": 301},
             what="websocket reader loop on every client script of <=2 [3] frames with long-lived operations: per-id frames, stop / close cancel every affected operation, all goroutines end (shared with C11)"))

# websocket frames of any type and order must not make gqlgen's own code panic (C10): the reader loop and the handshake
CHECKS["C10"]["harnesses"].append(
    dict(_WS, harness="Harness_C11_run", reach=["c11.run", "c11.run.op"], race=True, sched_confirm=True, native_retries=300,
         quick={"params": {"maxlen": 2}, "sample_models": 8, "sample_every": 31}, thorough={"params": {"maxlen": 3}, "workers": 12, "sample_models": 12, "sample_every": 301},
         what="websocket reader loop on every client script of <=2 [3] frames (start / stop of known and unknown ids, ping, pong, terminate, unexpected and unreadable frames): no panic of gqlgen's own, protocol close (shared with C11)"))
CHECKS["C10"]["harnesses"].append(
    dict(_WS, harness="Harness_C11_init", reach=["c11.init.accepted", "c11.init.refused"], quick={"sample_models": 12, "sample_every": 29},
         what="websocket handshake: 15 first-frame kinds x 6 payload shapes x 4 init functions x 2 subprotocols: ack or protocol close, never a panic (shared with C11)"))
# the incremental-delivery transport turns the payload sequence's hasNext into the closing boundary (C13's termination clause at the transport)
CHECKS["C13"]["harnesses"].append(
    dict(_WS, harness="Harness_C12_multipart", reach=["c12.multipart"], quick={"sample_models": 20, "sample_every": 5}, thorough={"params": {"maxinc": 5}, "sample_models": 40, "sample_every": 29, "workers": 12},
         what="multipart/mixed aggregator over 1 + 0..3 [5] payloads with a flush tick at every point: the closing boundary follows exactly the payload whose hasNext is false, however payloads are batched (shared with C12)"))

CHECKS["C16"]["harnesses"].append(
    {"probe": "core", "harness": "Harness_C16_configuredSchema", "setup": "Setup_C16_configuredSchema", "reach": ["c16.configured"], "workers": 4, "sched": "first",
     "configs_quick": ["single", "follow"], "configs_thorough": ["single", "follow", "funcsyn"], "quick": {"sample_models": 10},
     "what": "generated __schema / __type(name:) (literal and through a variable, aliased) on a server built with a configured schema that is a reduced view of the compiled-in one: both describe the configured schema and agree"})

# client disconnect points (C12): the streaming transports with the request context cancelled while a payload is produced
CHECKS["C12"]["harnesses"].append(
    dict(_WS, harness="Harness_C05_streams", reach=["c05.streams"], race=True, sched_confirm=True, native_retries=60,
         quick={"params": {"ticks": 1}, "sample_models": 10, "sample_every": 11}, thorough={"params": {"ticks": 2}, "workers": 14, "sample_models": 16, "sample_every": 211},
         what="SSE (keep-alive on) and multipart/mixed serving 1..2 payloads with the client gone (request context cancelled) while any payload is produced: nothing writes to the response after the handler returned, no concurrent use of the writer, no goroutine left (shared with C05)"))

CHECKS["C09"]["harnesses"].append(
    dict(_HTTP, harness="Harness_C09_presenter", setup="Setup_C09_presenter", reach=["c09.presenter"], quick={"sample_models": 30, "sample_every": 5},
         what="a custom error presenter that rewrites the presented error in place (drops / replaces the code, the extensions, the message) x 5 invalid requests x Accept x GET / POST / application/graphql / form / multipart form: nothing executes and the status stays a client error"))

# the complexity gate judges each request by its own variables, whatever the same (cached) document was served with before (C07's no-leak clause at the gate)
CHECKS["C07"]["harnesses"].append(
    {"pkg": "graphql/handler/extension", "harness": "Harness_C14_variables", "setup": "Setup_C14_walk", "reach": ["c14.vars.accepted", "c14.vars.rejected"], "workers": 6,
     "quick": {"sample_models": 30, "sample_every": 3},
     "what": "complexity gate through executor.CreateOperationContext after the same text was served with another variable value from a shared query cache: 6 operations x 4 values x int64|json.Number x prior none / larger / smaller, symbolic limit: verdict and recorded complexity are those of the request's own variables (shared with C14)"})

# type-conditioned merging is part of C01's execution semantics; which selections an element of one concrete type gets must not depend on
# which sibling elements (of other types) were collected before it completed - the schedule-exploring harness with the resolvers gated
CHECKS["C01"]["harnesses"].append(
    {"probe": "core", "harness": "Harness_C06_schedules", "setup": "Setup_C06_schedules", "reach": ["c06.compared"], "workers": 12, "race": True, "variant": "merge",
     "configs_quick": ["single"], "configs_thorough": ["single", "wl2", "follow"],
     "quick": {"params": {"budget": 0, "merge": 1}, "sample_models": 10, "sample_every": 37}, "thorough": {"params": {"budget": 1, "merge": 1}, "sample_models": 30, "sample_every": 101},
     "what": "the families whose interface / union list elements of different concrete types merge type-conditioned selections into one response key, on every completion order of the concurrently resolved elements and fields: data and errors equal the reference (shared with C06)"})

# containment counts errors: a failing non-null position gets exactly one error however the errors of concurrently failing siblings
# interleave with it (the response's error list is shared, so the schedule - preemptions between reporting an error and asking whether
# one was reported included - is part of the quantifier)
CHECKS["C04"]["harnesses"].append(
    {"probe": "core", "harness": "Harness_C06_invalids", "setup": "Setup_C06_schedules", "reach": ["c06.invalids"], "workers": 6, "race": True,
     "configs_quick": ["single"], "configs_thorough": ["single", "wl2", "follow"],
     "quick": {"preempt": 1}, "thorough": {"preempt": 2}, "native_retries": 3000,
     "what": "several non-null siblings failing concurrently (error and null outcomes): on every completion order incl. 1 [2] preemptions at unlock / go / channel points the error multiset is the reference's - one error per failing position (shared with C06)"})
CHECKS["C04"]["harnesses"].append(
    {"probe": "core", "harness": "Harness_C06_listInvalids", "setup": "Setup_C06_schedules", "reach": ["c06.listinvalids"], "workers": 8, "race": True,
     "configs_quick": ["single"], "configs_thorough": ["single", "wl2"], "quick": {"preempt": 1, "sample_models": 6, "sample_every": 5}, "thorough": {"preempt": 2, "sample_models": 10, "sample_every": 31}, "native_retries": 3000,
     "what": "three elements of a [T!] list each failing in a non-null field: one error per failing element on every completion order incl. 1 [2] preemptions (shared with C06)"})

# operations with @defer are valid operations too: merged in arrival order their payloads are the response C01 prescribes
# (null propagation inside a deferred fragment stops at the fragment's object) - the defer harness against the defer-aware reference
CHECKS["C01"]["harnesses"].append(
    {"probe": "core", "harness": "Harness_C13_defer", "setup": "Setup_C13_defer", "reach": ["c13.compared", "c13.incremental"], "workers": 12, "sched_confirm": True,
     "configs_quick": ["single"], "configs_thorough": ["single", "follow"], "map_permute": 3,
     "quick": {"params": {"budget": 1}, "sample_models": 12, "sample_every": 41}, "thorough": {"params": {"budget": 1}, "sample_models": 30, "sample_every": 301},
     "what": "11 @defer families x symbolic if: variables x one outcome deviation x every completion order of groups: the payloads merged in arrival order equal the defer-aware reference (shared with C13)"})

CHECKS["C02"]["harnesses"].append(
    {"probe": "core", "harness": "Harness_C02_methodArgs", "setup": "Setup_C02_methodArgs", "reach": ["c02.method"], "workers": 4, "sched": "first",
     "configs_quick": ["single", "follow"], "configs_thorough": ["single", "follow", "funcsyn", "omitptr"], "quick": {"sample_models": 8},
     "what": "a field bound to a model method whose parameter order differs from the schema's argument order (same Go type): literal, variable and defaulted arguments reach the parameter of their own name (4 operations, lists included)"})

CHECKS["C05"]["harnesses"].append(
    {"probe": "core", "harness": "Harness_C05_nestedLists", "setup": "Setup_C05_nestedLists", "reach": ["c05.nested"], "workers": 8, "sched": "first",
     "configs_quick": ["single", "wl1", "wl2"], "configs_thorough": ["single", "wl1", "wl2", "wl8", "follow_wl2"],
     "what": "three levels of nested object lists (2..3 x 2..3 x 2 elements), worker_limit 0/1/2, no fault: the join terminates with the plain result (deadlock = every task blocked), nothing left running"})

CHECKS["C10"]["harnesses"].append(
    dict(_WS, harness="Harness_C10_wsFrames", reach=["c10.ws.frames"], quick={"sample_models": 40, "sample_every": 3}, thorough={"params": {"two": 1}, "sample_models": 60, "sample_every": 61},
         what="the real frame decoders of graphql-ws and graphql-transport-ws on 43 text frames (every JSON kind at top level and in every member, unknown / missing / duplicated types, truncations) [thorough: every pair]: a message of a known type or errInvalidMsg, never a panic; gorilla's NextReader is a stub playing the frames, natively a loopback connection"))

_WIRE = dict(_WS, harness="Harness_C11_wire", reach=["c11.wire.sent", "c11.wire.noop", "c11.wire.decoded", "c11.wire.refused"], quick={"sample_models": 40, "sample_every": 7},
             what="the real exchangers of both subprotocols against tables written from the protocol documents: every server message x 3 ids x 4 payloads through Send (type name, id, payload unchanged, or nothing written), 12 client frame types through NextMessage (the message it stands for, or refused)")
CHECKS["C11"]["harnesses"].append(dict(_WIRE))

_DEEP = {"probe": "core", "harness": "Harness_C06_deepSiblings", "setup": "Setup_C06_schedules", "reach": ["c06.deep"], "workers": 8, "race": True,
         "configs_quick": ["single"], "configs_thorough": ["single", "wl2", "follow"], "thorough": {"preempt": 1},
         "what": "2..3 sibling fields failing under one parent whose path has 1, 3, 4, 5, 7 segments (objects, list elements, nested lists), every completion order [+1 preemption], race check: each failure once, at its own path"}
CHECKS["C06"]["harnesses"].append(dict(_DEEP))
CHECKS["C01"]["harnesses"].append(dict(_DEEP))

# entity resolvers are user code too (C04 names plugin/federation/federation.gotpl): an error or panic in one lookup / one batch fails only the
# representations it served, is reported, and reaches the recover hook once
CHECKS["C04"]["harnesses"].append(
    {"probe": "fed", "harness": "Harness_C20_entities", "setup": "Setup_C20_entities", "reach": ["c20.compared"], "workers": 12, "sched": "first",
     "configs_quick": ["fed_single"], "configs_thorough": ["fed_single", "fed_wl2", "fed_explicit"],
     "quick": {"params": {"maxreps": 2, "budget": 1}, "sample_models": 40, "sample_every": 17},
     "thorough": {"params": {"maxreps": 3, "budget": 1}, "sample_models": 60, "sample_every": 211},
     "what": "generated _entities on lists of 0..2 [3] representations over 19 shapes with one lookup or batch failing by error or panic: null exactly for the representations it served, at least one error, recover hook once per panic (shared with C20)"})

CHECKS["C02"]["harnesses"].append(
    {"probe": "opts", "harness": "Harness_C02_options", "setup": "Setup_C02_options", "reach": ["c02.opts.coerced", "c02.opts.rejected"], "workers": 4, "sched": "first",
     "configs_quick": ["opts_default", "opts_retptr", "opts_valstruct", "opts_omittable"], "configs_thorough": ["opts_default", "opts_retptr", "opts_valstruct", "opts_slices", "opts_omittable", "opts_all"], "quick": {"sample_models": 13},
     "what": "a third probe (generated models only): input objects (non-null and nullable arguments, nested, in lists, literals and variables, 13 cases) through the generated binders under return_pointers_in_unmarshalinput / struct_fields_always_pointers: false / omit_slice_element_pointers: the resolver receives the coerced input; a field that cannot be coerced is one error at its own path, no panic, resolver not called"})

CHECKS["C07"]["harnesses"].append(
    {"probe": "core", "harness": "Harness_C07_panicHistory", "setup": "Setup_C07_panicHistory", "reach": ["c07.panics"], "workers": 6, "sched": "first",
     "configs_quick": ["single"], "configs_thorough": ["single", "follow", "wl2"], "quick": {"sample_models": 16},
     "what": "two operations in one process, each with a resolver panicking at one of 4 positions (object field, union field, list element, non-null field), under graphql.DefaultRecover: the second response is the reference's for it alone (its error carries its own path)"})

CHECKS["C06"]["harnesses"].append(
    {"probe": "core", "harness": "Harness_C06_extensions", "setup": "Setup_C06_schedules", "reach": ["c06.extensions"], "workers": 8, "race": True,
     "configs_quick": ["single"], "configs_thorough": ["single", "wl2", "follow"], "quick": {"preempt": 1, "sample_models": 6, "sample_every": 11}, "thorough": {"params": {"wide": 1}, "preempt": 1, "sample_models": 10, "sample_every": 101}, "native_retries": 2000,
     "what": "6 [7] concurrently resolved fields / list elements each registering a response extension under its own key (graphql.RegisterExtension): every completion order incl. 1 [2] preemptions: all registrations are in the response; race check"})

CHECKS["C01"]["harnesses"].append(
    {"probe": "core", "harness": "Harness_C01_errorLists", "setup": "Setup_C01_errorLists", "reach": ["c01.errlists"], "workers": 4, "sched": "first",
     "configs_quick": ["single", "follow"], "configs_thorough": ["single", "follow", "funcsyn", "wl1", "omitptr"], "quick": {"sample_models": 5},
     "what": "resolvers returning a gqlerror.List of two entries on 5 operations (fields with and without schema directives, aliases, list elements, a non-null field with propagation): one response entry per list entry, at the field's path"})

# a fault that escapes to the list-element closure under a worker limit must give its slot back: the operation terminates (C05's clause
# for {worker_limit} x {fault points}); the fault harness under the worker-limit configurations, deadlock = violation
CHECKS["C05"]["harnesses"].append(
    {"probe": "core", "harness": "Harness_C04_faults", "setup": "Setup_C04_faults", "reach": ["c04.compared", "c04.panic"], "workers": 10, "sched": "first",
     "configs_quick": ["wl1", "wl2"], "configs_thorough": ["wl1", "wl2", "follow_wl2"],
     "quick": {"params": {"budget": 1}, "sample_models": 20, "sample_every": 11}, "thorough": {"params": {"budget": 2}, "sample_models": 60, "sample_every": 61},
     "what": "one [two] faults (error, panic, a Go value that is not a schema type - which panics in the list-element closure) at every position of 8 operation families under worker_limit 1/2: the operation terminates (deadlock = every task blocked) with the reference's response (shared with C04)"})

CHECKS["C12"]["harnesses"].append(
    dict(_WS, harness="Harness_C12_multipartBurst", reach=["c12.burst"], quick={"sample_models": 14, "sample_every": 5},
         what="multipart/mixed aggregator with 7..100 incremental payloads queued between flush ticks (14 sizes around powers of two x 5 tick positions): each delivered once, in order, closing boundary last"))
CHECKS["C13"]["harnesses"].append(
    dict(_WS, harness="Harness_C12_multipartBurst", reach=["c12.burst"], quick={"sample_models": 14, "sample_every": 5},
         what="the same burst harness under C13's delivery clause: every payload of the sequence reaches the client once, the stream is terminated (shared with C12)"))

CHECKS["C20"]["harnesses"].append(
    {"probe": "fed", "harness": "Harness_C20_longLists", "setup": "Setup_C20_entities", "reach": ["c20.long"], "workers": 8, "sched": "first",
     "configs_quick": ["fed_single"], "configs_thorough": ["fed_single", "fed_wl2", "fed_follow"], "quick": {"sample_models": 12, "sample_every": 7},
     "what": "lists of 8..40 representations (8 lengths around powers of two) of one single-lookup type / the batch type / three types alternating, no or one failing lookup (first, middle, last): element i is the entity of representation i, one error per failed one"})

CHECKS["C15"]["harnesses"].append(
    {"pkg": "graphql/handler/extension", "harness": "Harness_C15_concurrentLookups", "workers": 8, "race": True, "reach": ["apq.lookups"],
     "quick": {"preempt": 2, "sample_models": 12, "sample_every": 7}, "thorough": {"preempt": 3, "sample_models": 20, "sample_every": 101}, "native_retries": 3000,
     "what": "two concurrent hash-only requests (same / different hashes, after an optional earlier hit) against the real LRU of graphql/handler/lru: every interleaving incl. 2 [3] preemptions at locks and atomic operations: each resolves to the text with its own hash; race check"})

CHECKS["C15"]["harnesses"].append(
    dict(_HTTP, harness="Harness_C15_server", setup="Setup_C15_server", reach=["c15.server"], workers=10, variant="evict",
         quick={"params": {"hist": 3, "texts": 3, "evict": 1}, "sample_models": 40, "sample_every": 97}, thorough={"params": {"hist": 4, "texts": 3, "evict": 1}, "sample_models": 60, "sample_every": 997, "workers": 14},
         what="histories of 3 [4] HTTP requests over 3 texts x 10 request kinds with the registry an unbounded map or the real LRU with room for 1 / 2 entries (evictions happen), against an exact model (least recently registered-or-resolved first): a hash-only request executes the registered text or is answered NotFound exactly as the model says"))

# the websocket transport is a caller of CreateOperationContext like the HTTP ones: a start that the executor rejects (validation, or an
# extension's verdict without a protocol error code) never reaches DispatchOperation (C03's gate at that transport)
CHECKS["C03"]["harnesses"].append(
    dict(_WS, harness="Harness_C11_subscribe", reach=["c11.sub.ran", "c11.sub.rejected"], quick={"sample_models": 20, "sample_every": 7}, thorough={"params": {"maxpayloads": 3}, "sample_models": 40, "sample_every": 13},
         what="websocket subscribe over executor verdicts {accepted, rejected with a protocol-kind error, rejected by an extension (no protocol code)} x 0..2 [3] payloads x panic step: a rejected start is answered with an error frame and complete, and nothing is dispatched (shared with C11)"))
# one-element lists are the case a worker limit's slot accounting gets wrong first: the deep-sibling operations (one-element lists at every level) under a limit
CHECKS["C01"]["harnesses"].append(dict(_DEEP, configs_quick=["wl1"], configs_thorough=["wl1", "wl2", "follow_wl2"], tag="-wl",
    what="the same operations (one-element lists of objects at every level) generated with worker_limit 1 [1, 2]: data and errors equal the reference"))

_ERRVAL = {"probe": "core", "harness": "Harness_C04_errorWithValue", "setup": "Setup_C04_errorWithValue", "reach": ["c04.errval"], "workers": 4, "sched": "first",
           "configs_quick": ["single", "follow"], "configs_thorough": ["single", "follow", "funcsyn", "wl1"], "quick": {"sample_models": 4},
           "what": "resolvers returning an error together with a non-nil value on 4 operations (nullable, non-null with propagation, list element, a field carrying an executable directive): null and one error at the position, as for any failure"}
CHECKS["C04"]["harnesses"].append(dict(_ERRVAL))
CHECKS["C01"]["harnesses"].append(dict(_ERRVAL))

CHECKS["C15"]["harnesses"].append(
    {"pkg": "graphql/handler/extension", "harness": "Harness_C15_collidingKeys", "workers": 4, "reach": ["apq.colliding"], "quick": {"sample_models": 20},
     "what": "5 pairs of texts whose SHA-256 hex strings collide under CRC-32 IEEE / Castagnoli, FNV-1a / FNV-1, Adler-32 (found by search), both registered in the real LRU in either order, then one hash sent alone: it resolves to its own text"})

CHECKS["C16"]["harnesses"].append(
    {"probe": "core", "harness": "Harness_C16_gate", "setup": "Setup_C16_gate", "reach": ["c16.gate.on", "c16.gate.off"], "workers": 4, "sched": "first",
     "configs_quick": ["single"], "configs_thorough": ["single", "follow", "funcsyn"], "quick": {"sample_models": 12},
     "what": "the gate end to end: executor.CreateOperationContext with extension.Introspection and a second context mutator that switches introspection off, registered in either order (or without the former) x 3 query shapes: the last registered decides; off = null, one error, no schema data"})

CHECKS["C20"]["harnesses"].append(
    {"probe": "fed", "harness": "Harness_C20_entities", "setup": "Setup_C20_entities", "reach": ["c20.compared"], "workers": 12, "race": True, "tag": "-schedfail",
     "configs_quick": ["fed_single"], "configs_thorough": ["fed_single", "fed_wl2"], "sched_confirm": True,
     "quick": {"params": {"maxreps": 3, "budget": 0, "shapes": 3, "gated": 1, "failing": 1}, "sample_models": 10, "sample_every": 17},
     "thorough": {"params": {"maxreps": 3, "budget": 0, "shapes": 3, "gated": 1, "failing": 1}, "sample_models": 20, "sample_every": 97},
     "what": "lists of 0..3 representations over {a type's representation without any key, a resolvable one, an unknown type}: several failing representations of one type in one request, every completion order of the entity goroutines, race check: one error per failed representation"})

# requests that are refused must not make gqlgen's own code panic later either: the two-request sequences (query cache on / off) with
# the recover hook asserted silent (C10's clause over histories)
CHECKS["C10"]["harnesses"].append(
    dict(_HTTP, harness="Harness_C09_sequence", setup="Setup_C09_sequence", reach=["seq.executed", "seq.refused"], quick={"params": {"norecover": 1}, "sample_models": 30, "sample_every": 7}, thorough={"params": {"norecover": 1}, "sample_models": 60, "sample_every": 31},
         what="two requests (29 x 29 documents / operationNames incl. invalid ones and a variable of an unknown type, GET or POST each, query cache off / MapCache) through one server: no panic of gqlgen's own reaches the recover hook, whatever was sent before (shared with C09)"))

# the default recover function is user-code containment too: every recovered panic is one error at its own position (C04), also
# for the second panic of a process
CHECKS["C04"]["harnesses"].append(
    {"probe": "core", "harness": "Harness_C07_panicHistory", "setup": "Setup_C07_panicHistory", "reach": ["c07.panics"], "workers": 6, "sched": "first",
     "configs_quick": ["single"], "configs_thorough": ["single", "follow", "wl2"], "quick": {"sample_models": 25},
     "what": "two operations in one process with resolvers panicking at 1..2 of 5 positions each, under graphql.DefaultRecover: every panic is one error at its own path (shared with C07)"})

CHECKS["C05"]["harnesses"].append(
    {"probe": "fed", "harness": "Harness_C05_entitiesCancel", "setup": "Setup_C05_entitiesCancel", "reach": ["c05.entities"], "workers": 8, "sched": "first",
     "configs_quick": ["fed_single"], "configs_thorough": ["fed_single", "fed_wl2", "fed_v1"], "quick": {"sample_models": 12, "sample_every": 5},
     "what": "federation _entities over 1..3 representations (two single-lookup types, a nested key, the batch type) with the request context cancelled never / before the request / at the start of the 1st or 2nd lookup: the response function returns (deadlock = every task blocked), nothing left running"})
CHECKS["C16"]["harnesses"].append(
    {"probe": "fed", "harness": "Harness_C16_service", "setup": "Setup_C16_service", "reach": ["c16.service.on", "c16.service.off"], "workers": 4, "sched": "first",
     "configs_quick": ["fed_single"], "configs_thorough": ["fed_single", "fed_v1", "fed_follow"], "quick": {"sample_models": 6},
     "what": "the federation _service { sdl } field with introspection enabled / disabled for the operation, after no / an allowed / a refused earlier _service operation in the same process: disabled = null and one error, no schema text"})
CHECKS["C05"]["prepare"] = probes.prepare
CHECKS["C16"]["prepare"] = probes.prepare

# scripts of three frames over the start / stop sub-alphabet (two operations on one connection, a stop for one while the other runs or
# ends): the part of the three-frame space that the quick tier can afford
CHECKS["C11"]["harnesses"].append(
    dict(_WS, harness="Harness_C11_run", reach=["c11.run", "c11.run.op"], race=True, sched_confirm=True, native_retries=4000, workers=12, tag="-ops",
         quick={"params": {"maxlen": 3, "alphabet": 4}, "sample_models": 12, "sample_every": 37}, thorough={"params": {"maxlen": 4, "alphabet": 4}, "sample_models": 20, "sample_every": 397},
         what="wsConnection.run on every client script of 1..3 [4] frames over {start(a), start(b), stop(a), stop(b)}: two operations on one connection, stops racing the start and the end of the other operation; race check incl. map accesses"))

# deferred groups are concurrency too: which payload carries a group's errors must not depend on the completion order (C06) - the defer harness
CHECKS["C06"]["harnesses"].append(
    {"probe": "core", "harness": "Harness_C13_defer", "setup": "Setup_C13_defer", "reach": ["c13.compared", "c13.incremental"], "workers": 12, "sched_confirm": True,
     "configs_quick": ["single"], "configs_thorough": ["single", "follow"], "map_permute": 3,
     "quick": {"params": {"budget": 1}, "sample_models": 12, "sample_every": 41}, "thorough": {"params": {"budget": 1}, "sample_models": 30, "sample_every": 301},
     "what": "12 @defer families x symbolic if: variables x one outcome deviation x every completion order of groups: data and errors of the merged payloads equal the reference on every order (shared with C13)"})

# the multipart/mixed transport queues payloads and serialises them at its next flush: a payload the generated executor handed over must
# keep its bytes while later payloads are produced (C12's "each payload delivered once, intact") - the defer harness reads every payload
# only after the whole sequence arrived
CHECKS["C12"]["prepare"] = probes.prepare
CHECKS["C12"]["harnesses"].append(
    {"probe": "core", "harness": "Harness_C13_defer", "setup": "Setup_C13_defer", "reach": ["c13.compared", "c13.incremental"], "workers": 12, "sched_confirm": True,
     "configs_quick": ["single"], "configs_thorough": ["single", "follow"], "map_permute": 3,
     "quick": {"params": {"budget": 0}, "sample_models": 12, "sample_every": 41}, "thorough": {"params": {"budget": 1}, "sample_models": 30, "sample_every": 301},
     "what": "12 @defer families on the generated executor, every completion order of groups, payloads read only after the whole sequence arrived (as a queueing transport does): each is still the JSON it was, the merge equals the reference (shared with C13)"})

# round 13
CHECKS["C15"]["harnesses"].append(
    dict(_HTTP, harness="Harness_C15_server", setup="Setup_C15_server", reach=["c15.server"], workers=8, tag="-cancelled",
         quick={"params": {"hist": 2, "cancelled": 1}, "sample_models": 20, "sample_every": 11}, thorough={"params": {"hist": 2, "cancelled": 1}, "sample_models": 30, "sample_every": 97, "workers": 14},
         what="the same histories with every request arriving on an already cancelled context: the verdict on text and hash, what executes and what the registry holds are unchanged"))
CHECKS["C09"]["harnesses"].append(
    {"pkg": "graphql/handler/extension", "harness": "Harness_C15_apq", "workers": 4, "quick": {"sample_models": 60},
     "reach": ["apq.noext", "apq.hit", "apq.notfound", "apq.registered", "apq.mismatch"],
     "what": "a request carrying a text executes that text or nothing: AutomaticPersistedQuery.MutateOperationParameters over 4 registry pre-states x 3 texts x 11 extension shapes never replaces a text the request carries (shared with C15)"})
CHECKS["C09"]["harnesses"].append(
    dict(_HTTP, harness="Harness_C15_server", setup="Setup_C15_server", reach=["c15.server"], workers=8,
         quick={"params": {"hist": 2}, "sample_models": 20, "sample_every": 11}, thorough={"params": {"hist": 2}, "sample_models": 30, "sample_every": 97, "workers": 14},
         what="histories of 2 [3] HTTP requests through one Server with the persisted-query registry: a request carrying a text executes exactly that text or is refused, a hash-only request executes exactly the text registered under it, whatever was registered before (shared with C15)"))
CHECKS["C03"]["harnesses"].append(
    {"pkg": "graphql/executor", "harness": "Harness_C03_docHistory", "setup": "Setup_C03_docHistory", "reach": ["c03.dochistory.accepted", "c03.dochistory.refused"], "workers": 8, "quick": {"sample_models": 30, "sample_every": 7},
     "what": "one executor with a query cache (map / LRU) serves two requests of the 14-request corpus in a row (same text under another operation name or variables, or another text; the first dispatched or not): the second is accepted iff valid, as the operation it names, on the whole document it sent; nothing runs for a refused one"})
CHECKS["C05"]["harnesses"].append(
    {"probe": "core", "harness": "Harness_C05_streamCancel", "setup": "Setup_C05_streamCancel", "reach": ["c05.streamcancel"], "workers": 6, "sched_confirm": True, "native_retries": 300,
     "configs_quick": ["single", "follow"], "configs_thorough": ["single", "follow", "wl2"], "quick": {"sample_models": 8, "sample_every": 3},
     "what": "generated subscription field over a live source (0..2 buffered events, channel never closed by the resolver), k responses taken, then the context cancelled, every select choice: the response function returns nil after at most the buffered events, no task left"})
CHECKS["C06"]["harnesses"].append(
    {"probe": "core", "harness": "Harness_C06_mutationSerial", "setup": "Setup_C06_schedules", "reach": ["c06.serial"], "workers": 6, "race": True, "tag": "-list",
     "configs_quick": ["wl1"], "configs_thorough": ["single", "wl1", "wl2", "follow"],
     "quick": {"params": {"budget": 1}}, "thorough": {"params": {"budget": 1}},
     "what": "the same with a mutation root field that is a list of objects with nullable elements (element resolvers on goroutines of their own) before the next root field, one deviation, every schedule, under worker limits 0/1/2 and both layouts"})

# round 14
CHECKS["C03"]["harnesses"].append(
    {"pkg": "graphql/executor", "harness": "Harness_C03_concurrentDispatch", "setup": "Setup_C03_concurrentDispatch", "reach": ["c03.concurrentdispatch"], "workers": 6, "race": True, "sched_confirm": True, "native_retries": 300,
     "quick": {"sample_models": 10, "sample_every": 7},
     "what": "two accepted requests (operations A and B of two texts or of one) dispatched concurrently through one Executor with 1..2 operation interceptors that lock before calling on, every interleaving at synchronisation points, race check: each interceptor once per operation, each operation executed once, each request answered with its own operation's response"})

# a harness name stands for one function: results, replays and evidence are keyed by it
_where = {}
for _p, _c in CHECKS.items():
    for _h in _c["harnesses"]:
        _where.setdefault(_h["harness"], set()).add(_h.get("pkg") or "probe:" + _h.get("probe", ""))
_dups = {k: v for k, v in _where.items() if len(v) > 1}
assert not _dups, "harness names defined in two places: %r" % _dups
