"""Registry of checks: property id -> harness runs and their bounds.

Each harness spec: pkg (directory under /repo holding the unit and, under
/verif/harness/<pkg>, the overlay harness files), harness (entry function),
quick / thorough (engine limits and zzsym.Param values), reach (witness
labels that must be reached on some feasible path, else the check is
vacuous/broken), what (one line for the evidence)."""

CHECKS = {}

CHECKS["C14"] = {
    "assumptions": [
        "go/ssa translation of the Go source; engine semantics of the SSA instructions; z3",
    ],
    "harnesses": [
        {"pkg": "complexity", "harness": "Harness_C14_safeAdd", "reach": ["safeAdd.compared"],
         "what": "complexity.safeAdd vs saturating reference, all 2^128 operand pairs (64-bit bit-vectors, no bound)"},
    ],
}
