#!/usr/bin/env python3
"""Regenerates MANIFEST.json from checks/manifest_meta.py (kept valid at all times)."""
import json, os, sys
sys.path.insert(0, os.path.join(os.path.dirname(os.path.abspath(__file__)), "checks"))
import manifest_meta as M
props = [json.loads(l)["id"] for l in open(os.path.join(os.path.dirname(os.path.abspath(__file__)), "properties.jsonl"))]
checks = []
for pid in props:
    if pid in M.CLAIMED:
        c = M.CLAIMED[pid]
        checks.append({
            "property_id": pid,
            "quick_cmd": "bin/check %s --tier quick" % pid,
            "thorough_cmd": "bin/check %s --tier thorough" % pid,
            "evidence_file": "evidence/%s.json" % pid,
            "replay_cmd_template": "bin/check %s --replay {path}" % pid,
            "engine": "symgo",
            "level_claimed": {"category": "model_checking", "text": c["text"], "design_ref": c["design_ref"]},
            "level_note": c["note"],
            "technique": c["technique"],
        })
na = [{"property_id": pid, "reason": M.NOT_APPLICABLE[pid]} for pid in props if pid not in M.CLAIMED]
man = {
    "version": 1,
    "setup_cmd": "cd /verif/engine && GOFLAGS=-mod=mod GOPROXY=off go build -o ../bin/symgo ./cmd/symgo",
    "hooks": {"guard": "verif", "enable": "no source hooks: harnesses and the zzsym package are injected as go build/packages overlays (bin/check); nothing in /repo is built with a tag",
              "baseline_off_cmd": "cd /repo && GOFLAGS=-mod=mod GOPROXY=off go test -mod=mod -json -vet=off -count=1 -timeout 25m ./...",
              "source_commits": [], "add_only": True},
    "engines": [{"name": "symgo", "path": "engine/", "serves_properties": sorted(M.CLAIMED),
                 "kind_free_text": "symbolic executor for go/ssa (adapted x/tools go/ssa/interp): SSA of /repo's current source is executed with symbolic scalars/strings, branch feasibility and every assertion decided by z3 (SMT-LIB2, bit-vectors/FP), decision-prefix re-execution, deterministic task scheduler; counterexamples replayed natively via go test -overlay"}],
    "checks": checks,
    "not_applicable": na,
    "notes": M.NOTES,
}
json.dump(man, open(os.path.join(os.path.dirname(os.path.abspath(__file__)), "MANIFEST.json"), "w"), indent=1)
print("claimed:", sorted(M.CLAIMED), "n/a:", [x["property_id"] for x in na])
