// symgo runs one harness symbolically and prints the result as JSON.
package main

import (
	"encoding/json"
	"flag"
	"fmt"
	"os"

	"verif/engine/interp"
)

func main() {
	cfgPath := flag.String("config", "", "JSON config file")
	out := flag.String("out", "", "result file (default stdout)")
	flag.Parse()
	b, err := os.ReadFile(*cfgPath)
	if err != nil {
		fmt.Fprintln(os.Stderr, err)
		os.Exit(2)
	}
	var cfg interp.Config
	if err := json.Unmarshal(b, &cfg); err != nil {
		fmt.Fprintln(os.Stderr, err)
		os.Exit(2)
	}
	res := interp.Run(&cfg)
	js := res.JSON()
	if *out != "" {
		os.WriteFile(*out, js, 0o644)
	} else {
		os.Stdout.Write(js)
	}
	if res.Fatal != "" {
		fmt.Fprintln(os.Stderr, "fatal:", res.Fatal)
		os.Exit(3)
	}
}
