package interp

// Intrinsics: the harness API (zzsym) and models of standard-library
// functions whose bodies cannot be interpreted (unsafe, assembly,
// runtime, reflectlite). Keys are ssa.Function.String() with type
// arguments stripped.

import (
	"fmt"
	"go/token"
	"go/types"
	"math"
	"os"
	"sort"
	"strconv"
	"strings"
	"unicode/utf8"

	"golang.org/x/tools/go/ssa"
)

const zz = "github.com/99designs/gqlgen/zzsym."

func init() {
	// remove originals that we want interpreted from source instead
	for _, n := range []string{"strconv.Atoi", "strconv.Itoa", "strconv.FormatFloat", "fmt.Sprint", "strings.ToLower", "strings.Replace",
		"strings.EqualFold", "unicode/utf8.DecodeRuneInString", "os.Exit", "os.Getenv", "time.Sleep", "runtime.Goexit", "runtime.Gosched",
		"math.IsNaN", "math.Inf", "math.NaN", "math.Abs", "math.Min", "math.Copysign", "sort.Ints", "sort.Strings", "sort.Float64s",
		"bytes.Equal", "bytes.IndexByte", "strings.Index", "strings.IndexByte", "strings.Count"} {
		delete(externals, n)
	}
	for k, v := range map[string]externalFn{
		// ---- harness API
		zz + "Bool":     func(fr *frame, a []value) value { return fr.freshScalar(a[0], types.Bool) },
		zz + "Int":      func(fr *frame, a []value) value { return fr.freshScalar(a[0], types.Int) },
		zz + "Int8":     func(fr *frame, a []value) value { return fr.freshScalar(a[0], types.Int8) },
		zz + "Int16":    func(fr *frame, a []value) value { return fr.freshScalar(a[0], types.Int16) },
		zz + "Int32":    func(fr *frame, a []value) value { return fr.freshScalar(a[0], types.Int32) },
		zz + "Int64":    func(fr *frame, a []value) value { return fr.freshScalar(a[0], types.Int64) },
		zz + "Uint":     func(fr *frame, a []value) value { return fr.freshScalar(a[0], types.Uint) },
		zz + "Uint8":    func(fr *frame, a []value) value { return fr.freshScalar(a[0], types.Uint8) },
		zz + "Byte":     func(fr *frame, a []value) value { return fr.freshScalar(a[0], types.Uint8) },
		zz + "Uint16":   func(fr *frame, a []value) value { return fr.freshScalar(a[0], types.Uint16) },
		zz + "Uint32":   func(fr *frame, a []value) value { return fr.freshScalar(a[0], types.Uint32) },
		zz + "Uint64":   func(fr *frame, a []value) value { return fr.freshScalar(a[0], types.Uint64) },
		zz + "Float64":  func(fr *frame, a []value) value { return fr.freshScalar(a[0], types.Float64) },
		zz + "Float32":  func(fr *frame, a []value) value { return fr.freshScalar(a[0], types.Float32) },
		zz + "String":   zzString,
		zz + "Bytes":    zzBytes,
		zz + "Choice":   zzChoice,
		zz + "Assume":   zzAssume,
		zz + "Assert":   zzAssert,
		zz + "Reach":    zzReach,
		zz + "Event":    zzEvent,
		zz + "Symbolic": func(fr *frame, a []value) value { return true },
		zz + "Quiesce":  func(fr *frame, a []value) value { return fr.i.sched.quiesce() },
		zz + "Param":    zzParam,
		zz + "Baseline": func(fr *frame, a []value) value { return nil },
		zz + "Jitter":   func(fr *frame, a []value) value { return nil },
		zz + "Gate": func(fr *frame, a []value) value {
			fr.i.ps.events = append(fr.i.ps.events, "gate "+fr.cstr(a[0]))
			return nil
		},
		zz + "Frozen":   zzFrozen,
		zz + "FrozenGlobals": zzFrozenGlobals,
		zz + "Concrete": zzConcrete,
		zz + "Yield":    func(fr *frame, a []value) value { fr.i.sched.block(func() bool { return true }, "zzsym.Yield"); return nil },
		zz + "Preempt":  func(fr *frame, a []value) value { fr.i.sched.preemptPoint("zzsym.Preempt"); return nil },

		// ---- strings / bytes kernels implemented in assembly or with unsafe
		"internal/bytealg.IndexByteString": func(fr *frame, a []value) value { return strings.IndexByte(fr.cstr(a[0]), fr.cbyte(a[1])) },
		"internal/bytealg.IndexByte":       func(fr *frame, a []value) value { return strings.IndexByte(fr.cbytes(a[0]), fr.cbyte(a[1])) },
		"internal/bytealg.CountString":     func(fr *frame, a []value) value { return strings.Count(fr.cstr(a[0]), string([]byte{fr.cbyte(a[1])})) },
		"internal/bytealg.Count":           func(fr *frame, a []value) value { return strings.Count(fr.cbytes(a[0]), string([]byte{fr.cbyte(a[1])})) },
		"internal/bytealg.IndexString":     func(fr *frame, a []value) value { return strings.Index(fr.cstr(a[0]), fr.cstr(a[1])) },
		"internal/bytealg.Index":           func(fr *frame, a []value) value { return strings.Index(fr.cbytes(a[0]), fr.cbytes(a[1])) },
		"internal/bytealg.Equal":           func(fr *frame, a []value) value { return fr.cbytes(a[0]) == fr.cbytes(a[1]) },
		"internal/bytealg.Compare":         func(fr *frame, a []value) value { return strings.Compare(fr.cbytes(a[0]), fr.cbytes(a[1])) },
		"internal/bytealg.CompareString":   func(fr *frame, a []value) value { return strings.Compare(fr.cstr(a[0]), fr.cstr(a[1])) },
		"internal/bytealg.LastIndexByteString": func(fr *frame, a []value) value {
			return strings.LastIndexByte(fr.cstr(a[0]), fr.cbyte(a[1]))
		},
		"internal/bytealg.LastIndexByte": func(fr *frame, a []value) value { return strings.LastIndexByte(fr.cbytes(a[0]), fr.cbyte(a[1])) },
		"internal/bytealg.MakeNoZero":    func(fr *frame, a []value) value { return zeroBytes(int(asInt64(a[0]))) },
		"internal/stringslite.Index":     func(fr *frame, a []value) value { return strings.Index(fr.cstr(a[0]), fr.cstr(a[1])) },
		"internal/stringslite.IndexByte": func(fr *frame, a []value) value { return strings.IndexByte(fr.cstr(a[0]), fr.cbyte(a[1])) },
		"strings.Index":                  func(fr *frame, a []value) value { return strings.Index(fr.cstr(a[0]), fr.cstr(a[1])) },
		"strings.IndexByte":              func(fr *frame, a []value) value { return strings.IndexByte(fr.cstr(a[0]), fr.cbyte(a[1])) },
		"strings.Count":                  func(fr *frame, a []value) value { return strings.Count(fr.cstr(a[0]), fr.cstr(a[1])) },
		"strings.Compare":                func(fr *frame, a []value) value { return strings.Compare(fr.cstr(a[0]), fr.cstr(a[1])) },
		"strings.LastIndex":              func(fr *frame, a []value) value { return strings.LastIndex(fr.cstr(a[0]), fr.cstr(a[1])) },
		"strings.ToLower":                func(fr *frame, a []value) value { return strings.ToLower(fr.cstr(a[0])) },
		"strings.ToUpper":                func(fr *frame, a []value) value { return strings.ToUpper(fr.cstr(a[0])) },
		"strings.EqualFold":              func(fr *frame, a []value) value { return strings.EqualFold(fr.cstr(a[0]), fr.cstr(a[1])) },
		"strings.Clone":                  func(fr *frame, a []value) value { return a[0] },
		"internal/stringslite.Clone":     func(fr *frame, a []value) value { return a[0] },
		"strconv.cloneString":            func(fr *frame, a []value) value { return a[0] },
		"bytes.Equal":                    bytesEqual,
		"bytes.IndexByte":                func(fr *frame, a []value) value { return strings.IndexByte(fr.cbytes(a[0]), fr.cbyte(a[1])) },
		"bytes.Index":                    func(fr *frame, a []value) value { return strings.Index(fr.cbytes(a[0]), fr.cbytes(a[1])) },
		"bytes.Compare":                  func(fr *frame, a []value) value { return strings.Compare(fr.cbytes(a[0]), fr.cbytes(a[1])) },
		"unique.Make":                    func(fr *frame, a []value) value { panic(unsupported("unique.Make")) },

		"(*strings.Builder).WriteString": sbWriteString,
		"(*strings.Builder).Write":       sbWrite,
		"(*strings.Builder).WriteByte":   sbWriteByte,
		"(*strings.Builder).WriteRune":   sbWriteRune,
		"(*strings.Builder).String":      sbString,
		"(*strings.Builder).Len":         func(fr *frame, a []value) value { return len(fr.sb(a[0]).b) },
		"(*strings.Builder).Cap":         func(fr *frame, a []value) value { return cap(fr.sb(a[0]).b) },
		"(*strings.Builder).Reset":       func(fr *frame, a []value) value { fr.sb(a[0]).b = nil; return nil },
		"(*strings.Builder).Grow":        func(fr *frame, a []value) value { return nil },

		"unicode/utf8.DecodeRuneInString": func(fr *frame, a []value) value {
			if s, ok := a[0].(string); ok {
				r, n := utf8.DecodeRuneInString(s)
				return tuple{r, n}
			}
			r, n := fr.decodeRune(strBytes(a[0]))
			return tuple{r, n}
		},
		"unicode/utf8.DecodeRune": func(fr *frame, a []value) value {
			r, n := fr.decodeRune(a[0].([]value))
			return tuple{r, n}
		},

		// ---- math kernels in assembly
		"math.Floor":           func(fr *frame, a []value) value { return math.Floor(fr.cfloat(a[0])) },
		"math.Ceil":            func(fr *frame, a []value) value { return math.Ceil(fr.cfloat(a[0])) },
		"math.Trunc":           func(fr *frame, a []value) value { return math.Trunc(fr.cfloat(a[0])) },
		"math.Sqrt":            func(fr *frame, a []value) value { return math.Sqrt(fr.cfloat(a[0])) },
		"math.Log":             func(fr *frame, a []value) value { return math.Log(fr.cfloat(a[0])) },
		"math.Exp":             func(fr *frame, a []value) value { return math.Exp(fr.cfloat(a[0])) },
		"math.Modf":            func(fr *frame, a []value) value { x, y := math.Modf(fr.cfloat(a[0])); return tuple{x, y} },
		"math.Float64bits":     mathFloat64bits,
		"math.Float64frombits": mathFloat64frombits,
		"math.Float32bits":     func(fr *frame, a []value) value { return math.Float32bits(a[0].(float32)) },
		"math.Float32frombits": func(fr *frame, a []value) value { return math.Float32frombits(a[0].(uint32)) },
		"math/bits.TrailingZeros64": func(fr *frame, a []value) value { return trailingZeros(a[0].(uint64)) },

		// ---- misc runtime
		"runtime.Gosched":          func(fr *frame, a []value) value { fr.i.sched.yield("runtime.Gosched"); return nil },
		"runtime.Goexit":           func(fr *frame, a []value) value { panic(unsupported("runtime.Goexit")) },
		"runtime.KeepAlive":        func(fr *frame, a []value) value { return nil },
		"runtime.SetFinalizer":     func(fr *frame, a []value) value { return nil },
		"runtime.Stack":            func(fr *frame, a []value) value { return 0 },
		"runtime/debug.Stack":      func(fr *frame, a []value) value { return []value(nil) },
		"runtime/debug.PrintStack": func(fr *frame, a []value) value { return nil },
		"runtime.Caller":           func(fr *frame, a []value) value { return tuple{uintptr(0), "", 0, false} },
		"runtime.Callers":          func(fr *frame, a []value) value { return 0 },
		"os.Getenv":                func(fr *frame, a []value) value { return "" },
		"os.LookupEnv":             func(fr *frame, a []value) value { return tuple{"", false} },
		"os.Exit":                  func(fr *frame, a []value) value { panic(unsupported("os.Exit")) },
		"log.Printf":               func(fr *frame, a []value) value { return nil },
		"log.Println":              func(fr *frame, a []value) value { return nil },
		"log.Print":                func(fr *frame, a []value) value { return nil },
		"fmt.Fprintln":             fmtFprintln,
		"fmt.Sprintf":              fmtDesym(1),
		"fmt.Errorf":               fmtDesym(1),
		"fmt.Fprintf":              fmtDesym(2),
		"fmt.Sprint":               fmtDesym(0),
		"fmt.Sprintln":             fmtDesym(0),
		"fmt.Fprint":               fmtDesym(1),
		"fmt.Println":              func(fr *frame, a []value) value { return tuple{0, iface{}} },
		"fmt.Printf":               func(fr *frame, a []value) value { return tuple{0, iface{}} },
		"internal/godebug.New":     func(fr *frame, a []value) value { return (*value)(nil) },
		"(*internal/godebug.Setting).Value":        func(fr *frame, a []value) value { return "" },
		"(*internal/godebug.Setting).IncNonDefault": func(fr *frame, a []value) value { return nil },
		"internal/race.Enabled":                     nil,
	} {
		if v == nil {
			continue
		}
		externals[k] = v
	}
}

func trailingZeros(x uint64) int {
	if x == 0 {
		return 64
	}
	n := 0
	for x&1 == 0 {
		x >>= 1
		n++
	}
	return n
}

func zeroBytes(n int) []value {
	r := make([]value, n)
	for k := range r {
		r[k] = uint8(0)
	}
	return r
}

// ---- concretisation helpers for intrinsic arguments

func (fr *frame) cstr(v value) string {
	if s, ok := v.(string); ok {
		return s
	}
	panic(unsupported("symbolic string passed to an intrinsic at %s", fr.site()))
}

func (fr *frame) cbyte(v value) byte {
	if b, ok := v.(uint8); ok {
		return b
	}
	panic(unsupported("symbolic byte passed to an intrinsic at %s", fr.site()))
}

func (fr *frame) cfloat(v value) float64 {
	if f, ok := v.(float64); ok {
		return f
	}
	panic(unsupported("symbolic float passed to an intrinsic at %s", fr.site()))
}

// cbytes returns the content of a concrete []byte as a Go string.
func (fr *frame) cbytes(v value) string {
	bs := v.([]value)
	b := make([]byte, len(bs))
	for k, e := range bs {
		c, ok := e.(uint8)
		if !ok {
			panic(unsupported("symbolic bytes passed to an intrinsic at %s", fr.site()))
		}
		b[k] = c
	}
	return string(b)
}

func bytesToValue(b []byte) []value {
	r := make([]value, len(b))
	for k, c := range b {
		r[k] = c
	}
	return r
}

func bytesEqual(fr *frame, a []value) value {
	x, y := a[0].([]value), a[1].([]value)
	if len(x) != len(y) {
		return false
	}
	sym := false
	for k := range x {
		if isSym(x[k]) || isSym(y[k]) {
			sym = true
		}
	}
	if !sym {
		for k := range x {
			if x[k] != y[k] {
				return false
			}
		}
		return true
	}
	t := boolLit(true)
	for k := range x {
		t = tAnd(t, tEq(lift(x[k]), lift(y[k])))
	}
	return mkSym(types.Bool, t)
}

// ---- zzsym

func kindName(k types.BasicKind) string { return types.Typ[k].Name() }

func (fr *frame) freshScalar(name value, k types.BasicKind) value {
	n := fr.cstr(name)
	return mkSym(k, fr.i.ps.fresh(n, kindName(k), kindWidth(k)))
}

func zzString(fr *frame, a []value) value {
	name := fr.cstr(a[0])
	n := int(asInt64(a[1]))
	b := make([]value, n)
	for k := 0; k < n; k++ {
		b[k] = mkSym(types.Uint8, fr.i.ps.fresh(fmt.Sprintf("%s[%d]", name, k), "uint8", 8))
	}
	return normStr(b)
}

func zzBytes(fr *frame, a []value) value {
	name := fr.cstr(a[0])
	n := int(asInt64(a[1]))
	b := make([]value, n)
	for k := 0; k < n; k++ {
		b[k] = mkSym(types.Uint8, fr.i.ps.fresh(fmt.Sprintf("%s[%d]", name, k), "uint8", 8))
	}
	return b
}

func zzChoice(fr *frame, a []value) value {
	ps := fr.i.ps
	name := ps.uniqueName(fr.cstr(a[0]))
	n := int(asInt64(a[1]))
	v := ps.choose(n, "choice", name)
	ps.choices[name] = v
	return v
}

func zzAssume(fr *frame, a []value) value {
	switch c := a[0].(type) {
	case bool:
		if !c {
			panic(engineAbort{"assume", "assumption false at " + fr.site()})
		}
	case *SymVal:
		fr.i.ps.assume(c.t, fr.site())
	}
	return nil
}

func zzAssert(fr *frame, a []value) value {
	label := fr.cstr(a[1])
	fr.i.ps.assert(lift(a[0]), label, fr.site())
	return nil
}

func zzReach(fr *frame, a []value) value {
	fr.i.ps.reach[fr.cstr(a[0])] = true
	return nil
}

func zzEvent(fr *frame, a []value) value {
	var sb strings.Builder
	for k, p := range a[0].([]value) {
		if k > 0 {
			sb.WriteByte(' ')
		}
		sb.WriteString(fr.eventString(p.(iface).v))
	}
	fr.i.ps.events = append(fr.i.ps.events, sb.String())
	return nil
}

func (fr *frame) eventString(v value) string {
	switch v := v.(type) {
	case string:
		return v
	case bool, int, int8, int16, int32, int64, uint, uint8, uint16, uint32, uint64:
		return fmt.Sprint(v)
	case *SymVal, *symStr:
		panic(unsupported("symbolic value passed to zzsym.Event at %s", fr.site()))
	case iface:
		return fr.eventString(v.v)
	}
	panic(unsupported("zzsym.Event: unsupported part type %T", v))
}

func zzParam(fr *frame, a []value) value {
	name := fr.cstr(a[0])
	if v, ok := fr.i.cfg.Params[name]; ok {
		return v
	}
	return int(asInt64(a[1]))
}

func zzConcrete(fr *frame, a []value) value {
	// Concrete(x int, lo, hi int) int: fork a symbolic int over a small range
	return int(fr.concretizeInt(a[0], asInt64(a[1]), asInt64(a[2]), "zzsym.Concrete"))
}

// zzFrozen(label string, roots ...any): every cell reachable from the
// roots must not be written for the rest of the path.
func zzFrozen(fr *frame, a []value) value {
	i := fr.i
	label := fr.cstr(a[0])
	if i.frozen == nil {
		i.frozen = map[*value]string{}
		i.frozenM = map[*hashmap]string{}
	}
	seen := map[any]bool{}
	var walk func(v value)
	walkCell := func(p *value) {
		if p == nil || seen[p] {
			return
		}
		seen[p] = true
		i.frozen[p] = label
		walk(*p)
	}
	walk = func(v value) {
		switch v := v.(type) {
		case *value:
			walkCell(v)
		case structure:
			for k := range v {
				i.frozen[&v[k]] = label
				walk(v[k])
			}
		case array:
			for k := range v {
				i.frozen[&v[k]] = label
				walk(v[k])
			}
		case []value:
			if len(v) == 0 || seen[&v[0]] {
				return
			}
			seen[&v[0]] = true
			for k := range v {
				i.frozen[&v[k]] = label
				walk(v[k])
			}
		case iface:
			walk(v.v)
		case *closure:
			if v == nil || seen[v] {
				return
			}
			seen[v] = true
			for _, e := range v.Env {
				walk(e)
			}
		case *hashmap:
			if v == nil || seen[v] {
				return
			}
			seen[v] = true
			i.frozenM[v] = label
			for _, e := range v.live() {
				walk(e.key)
				walk(e.value)
			}
		}
	}
	for _, r := range a[1].([]value) {
		walk(r)
	}
	if label == "\x00globals" {
		return nil
	}
	if i.logging {
		// freezing requested inside Body lasts for this path only
		i.logUndo(func() { i.frozen, i.frozenM = nil, nil })
	}
	return nil
}

// ---- strings.Builder (side state keyed by the builder's address)

type sbState struct{ b []value }

func (fr *frame) sb(recv value) *sbState {
	p := fr.nilCheck(recv.(*value))
	if st, ok := fr.i.side[p]; ok {
		return st.(*sbState)
	}
	st := &sbState{}
	fr.i.side[p] = st
	return st
}

func sbWriteString(fr *frame, a []value) value {
	st := fr.sb(a[0])
	st.b = append(st.b, strBytes(a[1])...)
	return tuple{strLen(a[1]), iface{}}
}

func sbWrite(fr *frame, a []value) value {
	st := fr.sb(a[0])
	p := a[1].([]value)
	st.b = append(st.b, p...)
	return tuple{len(p), iface{}}
}

func sbWriteByte(fr *frame, a []value) value {
	st := fr.sb(a[0])
	st.b = append(st.b, a[1])
	return iface{}
}

func sbWriteRune(fr *frame, a []value) value {
	st := fr.sb(a[0])
	r, ok := a[1].(int32)
	if !ok {
		panic(unsupported("strings.Builder.WriteRune of a symbolic rune"))
	}
	var buf [4]byte
	n := utf8.EncodeRune(buf[:], r)
	st.b = append(st.b, bytesToValue(buf[:n])...)
	return tuple{n, iface{}}
}

func sbString(fr *frame, a []value) value {
	return normStr(fr.sb(a[0]).b)
}

// ---- math

func mathFloat64bits(fr *frame, a []value) value {
	if s, ok := a[0].(*SymVal); ok {
		// IEEE bit pattern: introduce a fresh bit-vector constrained to convert back
		ps := fr.i.ps
		bv := ps.fresh("$f64bits", "uint64", 64)
		ps.assertTerm(app(0, "=", Term{fmt.Sprintf("((_ to_fp 11 53) %s)", bv.s), -64}, s.t))
		return mkSym(types.Uint64, bv)
	}
	return math.Float64bits(a[0].(float64))
}

func mathFloat64frombits(fr *frame, a []value) value {
	if s, ok := a[0].(*SymVal); ok {
		return mkSym(types.Float64, Term{fmt.Sprintf("((_ to_fp 11 53) %s)", s.t.s), -64})
	}
	return math.Float64frombits(a[0].(uint64))
}

func fmtFprintln(fr *frame, a []value) value {
	// only used for diagnostics on os.Stderr / os.Stdout in the code under test
	return tuple{0, iface{}}
}

// ---- helpers to call interpreted functions / build values from the host

func (i *interpreter) pkgFunc(pkg, name string) *ssa.Function {
	p := i.prog.ImportedPackage(pkg)
	if p == nil {
		panic(unsupported("package %s is not part of the program", pkg))
	}
	f := p.Func(name)
	if f == nil {
		panic(unsupported("function %s.%s not found", pkg, name))
	}
	return f
}

func (i *interpreter) pkgType(pkg, name string) types.Type {
	p := i.prog.ImportedPackage(pkg)
	if p == nil {
		panic(unsupported("package %s is not part of the program", pkg))
	}
	t := p.Type(name)
	if t == nil {
		panic(unsupported("type %s.%s not found", pkg, name))
	}
	return t.Type()
}

// newError builds an error value through the interpreted errors.New.
func (fr *frame) newError(msg string) value {
	return call(fr.i, fr, token.NoPos, fr.i.pkgFunc("errors", "New"), []value{msg})
}

// findMethod returns the method named name of dynamic type t (or nil).
func (i *interpreter) findMethod(t types.Type, name string) *ssa.Function {
	ms := i.prog.MethodSets.MethodSet(t)
	for k := 0; k < ms.Len(); k++ {
		sel := ms.At(k)
		if sel.Obj().Name() == name && sel.Obj().Exported() {
			return i.prog.MethodValue(sel)
		}
	}
	return nil
}

var _ = sort.Strings
var _ = strconv.Itoa
var _ = os.Getenv

// fmtDesym wraps a fmt function: symbolic operands are rendered as the
// placeholder text "<sym>" (message texts are never compared by the
// harnesses), then the real body is interpreted.
func fmtDesym(argsIdx int) externalFn {
	return func(fr *frame, a []value) value {
		if vs, ok := a[argsIdx].([]value); ok {
			var cp []value
			var verbs []string
			hasFormat := false
			if argsIdx > 0 {
				if f, ok := a[argsIdx-1].(string); ok {
					hasFormat, verbs = true, fmtVerbs(f)
				}
			}
			for k, e := range vs {
				if it, ok := e.(iface); ok && containsSym(it.v) {
					if cp == nil {
						cp = append([]value{}, vs...)
					}
					cp[k] = iface{t: types.Typ[types.String], v: "<sym>"}
					if x, isScalar := it.v.(*SymVal); isScalar && x.t.w < 0 {
						// a symbolic float: rendered as a float token (contract model, intrinsics_float.go);
						// the operand becomes a string, so the verb is replaced by %s below
						verb := ""
						if hasFormat {
							verb = "%!"
							if k < len(verbs) {
								verb = verbs[k]
							}
						}
						cp[k] = iface{t: types.Typ[types.String], v: fr.fmtFloatOperand(x, verb)}
						if hasFormat && k < len(verbs) {
							a = append([]value{}, a...)
							a[argsIdx-1] = replaceVerb(a[argsIdx-1].(string), k, "%s")
							verbs = fmtVerbs(a[argsIdx-1].(string))
						}
					}
				}
			}
			if cp != nil {
				a = append([]value{}, a...)
				a[argsIdx] = cp
			}
		}
		fr.i.skipExt = true
		return call(fr.i, fr.caller, token.NoPos, fr.i.curExtFn, a)
	}
}

// zzFrozenGlobals(label string, prefixes ...string): every package-level
// variable of the packages whose import path starts with one of the prefixes
// (and everything reachable from it) must not be written for the rest of the path.
func zzFrozenGlobals(fr *frame, a []value) value {
	i := fr.i
	label := fr.cstr(a[0])
	var prefixes []string
	for _, p := range a[1].([]value) {
		prefixes = append(prefixes, fr.cstr(p))
	}
	var roots []value
	for g, cell := range i.globals {
		if g.Pkg == nil {
			continue
		}
		path := g.Pkg.Pkg.Path()
		for _, p := range prefixes {
			if strings.HasPrefix(path, p) && !strings.HasSuffix(path, "/zzsym") && !strings.HasPrefix(g.Name(), "init$") {
				roots = append(roots, iface{t: nil, v: cell})
				break
			}
		}
	}
	return zzFrozen(fr, []value{label, roots})
}
