package interp

// Contract model of the shortest-representation float formatting of
// strconv / fmt (Ryu/Grisu digit generation is far outside solver reach):
//
//	strconv.FormatFloat(f, 'g'|'e'|'f'|'G'|'E', -1, bitSize) "uses the smallest
//	number of digits necessary to represent the value uniquely, assuming
//	that the original was obtained from a floating-point value of bitSize
//	bits" - so ParseFloat of the text yields float64(float32(f)) for bitSize
//	32 and f for bitSize 64; fmt's %v and %g (no precision) format a float64
//	operand with bitSize 64 and a float32 operand with bitSize 32.
//
// A symbolic operand is rendered as the placeholder text "<symfloat:N>" and
// the value the text parses back to is kept per path; any other precision or
// verb yields an unconstrained value (so that a round-trip assertion fails and
// the native replay, which runs the real strconv, decides).
// strconv.ParseFloat and zzsym.FloatToken read the placeholder back.

import (
	"fmt"
	"go/token"
	"go/types"
	"strconv"
	"strings"
)

type floatTok struct {
	val    *SymVal // float64: what the text parses back to
	finite value   // bool or *SymVal: the operand was finite (else the text is +Inf/-Inf/NaN)
}

func (fr *frame) f64(x *SymVal) *SymVal {
	if x.t.w == -64 {
		return x
	}
	return fr.symConv(types.Typ[types.Float64], x).(*SymVal)
}

// newFloatTok registers the text of formatting x (float64 or float32 kind)
// with the given verb, precision and bit size.
func (fr *frame) newFloatTok(x *SymVal, verb byte, prec, bitSize int) string {
	ps := fr.i.ps
	var back *SymVal
	exact := prec == -1 && strings.IndexByte("geGEfv", verb) >= 0
	switch {
	case !exact:
		back = mkSym(types.Float64, ps.fresh("$fmtfloat", "float64", -64))
	case bitSize == 32 && x.t.w == -64:
		back = fr.f64(fr.symConv(types.Typ[types.Float32], x).(*SymVal))
	default:
		back = fr.f64(x)
	}
	x64 := fr.f64(x)
	fin := mkSym(types.Bool, tNot(app(0, "or", app(0, "fp.isInfinite", x64.t), app(0, "fp.isNaN", x64.t))))
	ps.floatToks = append(ps.floatToks, floatTok{back, fin})
	return fmt.Sprintf("<symfloat:%d>", len(ps.floatToks)-1)
}

func (fr *frame) floatTokOf(s string) (floatTok, bool) {
	if strings.HasPrefix(s, "<symfloat:") && strings.HasSuffix(s, ">") {
		n, err := strconv.Atoi(s[len("<symfloat:") : len(s)-1])
		if err == nil && n >= 0 && n < len(fr.i.ps.floatToks) {
			return fr.i.ps.floatToks[n], true
		}
	}
	return floatTok{}, false
}

func callOriginal(fr *frame, a []value) value {
	fr.i.skipExt = true
	return call(fr.i, fr.caller, token.NoPos, fr.i.curExtFn, a)
}

func strconvFormatFloat(fr *frame, a []value) value {
	if x, ok := a[0].(*SymVal); ok {
		return fr.newFloatTok(x, a[1].(byte), int(asInt64(a[2])), int(asInt64(a[3])))
	}
	return callOriginal(fr, a)
}

func strconvAppendFloat(fr *frame, a []value) value {
	if x, ok := a[1].(*SymVal); ok {
		s := fr.newFloatTok(x, a[2].(byte), int(asInt64(a[3])), int(asInt64(a[4])))
		dst := a[0].([]value)
		r := make([]value, len(dst), len(dst)+len(s))
		copy(r, dst)
		for k := 0; k < len(s); k++ {
			r = append(r, s[k])
		}
		return r
	}
	return callOriginal(fr, a)
}

func strconvParseFloat(fr *frame, a []value) value {
	if s, ok := a[0].(string); ok {
		if t, ok := fr.floatTokOf(s); ok {
			// the text of a finite value parses back without error (non-finite texts parse too: "+Inf", "NaN")
			return tuple{t.val, iface{}}
		}
	}
	return callOriginal(fr, a)
}

// zzFloatToken(s string) (float64, bool): the value a JSON number token
// decodes to and whether s is a valid JSON number token.
func zzFloatToken(fr *frame, a []value) value {
	s, ok := a[0].(string)
	if !ok {
		if ss, isSym := a[0].(*symStr); isSym {
			_ = ss
		}
		panic(unsupported("zzsym.FloatToken on a symbolic string"))
	}
	if t, ok := fr.floatTokOf(s); ok {
		return tuple{t.val, t.finite}
	}
	f, err := strconv.ParseFloat(s, 64)
	return tuple{f, err == nil && jsonNumberToken(s)}
}

func jsonNumberToken(s string) bool {
	i := 0
	if i < len(s) && s[i] == '-' {
		i++
	}
	if i >= len(s) {
		return false
	}
	if s[i] == '0' {
		i++
	} else if s[i] >= '1' && s[i] <= '9' {
		for i < len(s) && s[i] >= '0' && s[i] <= '9' {
			i++
		}
	} else {
		return false
	}
	if i < len(s) && s[i] == '.' {
		i++
		j := i
		for i < len(s) && s[i] >= '0' && s[i] <= '9' {
			i++
		}
		if i == j {
			return false
		}
	}
	if i < len(s) && (s[i] == 'e' || s[i] == 'E') {
		i++
		if i < len(s) && (s[i] == '+' || s[i] == '-') {
			i++
		}
		j := i
		for i < len(s) && s[i] >= '0' && s[i] <= '9' {
			i++
		}
		if i == j {
			return false
		}
	}
	return i == len(s)
}

// fmtVerbs returns, per operand index, the verb text ("%g", "%.2f", ...) of a
// Printf-style format (operands consumed by * widths are not supported: nil).
func fmtVerbs(format string) []string {
	var vs []string
	for i := 0; i < len(format); i++ {
		if format[i] != '%' {
			continue
		}
		j := i + 1
		for j < len(format) && strings.IndexByte("+-# 0123456789.", format[j]) >= 0 {
			j++
		}
		if j < len(format) && (format[j] == '*' || format[j] == '[') {
			return nil
		}
		if j >= len(format) {
			break
		}
		if format[j] != '%' {
			vs = append(vs, format[i:j+1])
		}
		i = j
	}
	return vs
}

// fmtFloatOperand renders a symbolic float operand of a fmt call as a float
// token; format == "" means the operand is printed with %v.
func (fr *frame) fmtFloatOperand(x *SymVal, verb string) string {
	bits := 64
	if x.t.w == -32 {
		bits = 32
	}
	if verb == "" || verb == "%v" || verb == "%g" {
		return fr.newFloatTok(x, 'g', -1, bits)
	}
	if verb == "%e" || verb == "%f" || verb == "%G" || verb == "%E" {
		return fr.newFloatTok(x, verb[1], 6, bits) // fmt's default precision for these verbs is 6: not shortest
	}
	return fr.newFloatTok(x, 'g', 0, bits) // explicit flags/precision: not modelled
}

func init() {
	externals["strconv.FormatFloat"] = strconvFormatFloat
	externals["strconv.AppendFloat"] = strconvAppendFloat
	externals["strconv.ParseFloat"] = strconvParseFloat
	externals[zz+"FloatToken"] = zzFloatToken
}

// replaceVerb replaces the k-th operand-consuming verb of format by repl.
func replaceVerb(format string, k int, repl string) string {
	n := 0
	for i := 0; i < len(format); i++ {
		if format[i] != '%' {
			continue
		}
		j := i + 1
		for j < len(format) && strings.IndexByte("+-# 0123456789.", format[j]) >= 0 {
			j++
		}
		if j >= len(format) {
			break
		}
		if format[j] != '%' {
			if n == k {
				return format[:i] + repl + format[j+1:]
			}
			n++
		}
		i = j
	}
	return format
}
