// Copyright 2013 The Go Authors. All rights reserved.
// Use of this source code is governed by a BSD-style
// license that can be found in the LICENSE file.

// Package interp is a symbolic executor for go/ssa, adapted from
// golang.org/x/tools/go/ssa/interp v0.32.0 (BSD licence above).
//
// Changes relative to the original: symbolic scalars and strings with
// SMT terms (term.go, sym.go, symstr.go), branch decisions explored by
// decision-prefix re-execution against an SMT solver (explore.go,
// solver.go), cooperative deterministic tasks and channels instead of
// host goroutines (sched.go), deterministic maps (map.go), explicit
// target run-time panics (host run-time errors are engine bugs, never
// target behaviour), an undo log so that state built once by package
// initialisation and Setup is shared by all paths, selective package
// initialisation, and a registry of intrinsics for the standard library
// (intrinsics*.go).
package interp

import (
	"fmt"
	"go/token"
	"go/types"
	"os"
	"runtime"
	"slices"
	"strings"

	"golang.org/x/tools/go/ssa"
)

type continuation int

const (
	kNext continuation = iota
	kReturn
	kJump
)

// Mode is a bitmask of options affecting the interpreter.
type Mode uint

const (
	DisableRecover Mode = 1 << iota // Disable recover() in target programs; show interpreter crash instead.
	EnableTracing                   // Print a trace of all instructions as they are interpreted.
)

type methodSet map[string]*ssa.Function

type undoEntry struct {
	addr *value
	old  value
	fn   func()
}

// State of one interpreter instance (one per worker).
type interpreter struct {
	prog               *ssa.Program           // the SSA program
	globals            map[*ssa.Global]*value // addresses of global variables (immutable)
	mode               Mode                   // interpreter options
	reflectPackage     *ssa.Package           // the fake reflect package
	errorMethods       methodSet              // the method set of reflect.error, which implements the error interface.
	rtypeMethods       methodSet              // the method set of rtype, which implements the reflect.Type interface.
	runtimeErrorString types.Type             // the runtime.errorString type
	sizes              types.Sizes            // the effective type-sizing function

	ex      *Explorer
	ps      *pathState
	sched   *scheduler
	undo    []undoEntry
	logging bool                  // undo log active (inside Body)
	side    map[any]any           // per-path side state of intrinsics (mutexes, pools, ...)
	inited  map[*ssa.Package]bool // packages whose initialiser ran
	initing map[*ssa.Package]bool
	nchan   int
	cfg     *Config
	embeds  map[string][]byte // file path -> content for go:embed
	stubs   map[string]value  // name-intercepted stubs declared by the harness (//sym:stub)
	frozen  map[*value]string // cells that must not be written in Body
	frozenM map[*hashmap]string
	clock   int64
	depth   int
	race    *raceState
	curExtFn *ssa.Function
	lastFrame *frame
	skipExt bool // next callSSA runs the body even if an intrinsic is registered
	raceOff int  // >0 while a package is initialised lazily: no race accesses are recorded
}

type deferred struct {
	fn    value
	args  []value
	instr *ssa.Defer
	tail  *deferred
}

type frame struct {
	i                *interpreter
	caller           *frame
	fn               *ssa.Function
	block, prevBlock *ssa.BasicBlock
	env              map[ssa.Value]value // dynamic values of SSA variables
	locals           []value
	defers           *deferred
	result           value
	panicking        bool
	panic            any
	phitemps         []value // temporaries for parallel phi assignment
	cur              ssa.Instruction
	callpos          token.Pos
}

// site returns a short description of the current instruction's position.
func (fr *frame) site() string {
	if fr == nil {
		return "?"
	}
	if fr.cur != nil {
		if p := fr.cur.Pos(); p.IsValid() {
			pos := fr.i.prog.Fset.Position(p)
			return shortFile(pos.Filename) + ":" + fmt.Sprint(pos.Line)
		}
		return fr.fn.String() + "/" + fr.block.String()
	}
	return fr.fn.String()
}

// stack returns the interpreted call chain (innermost first).
func (fr *frame) stack() string {
	var sb strings.Builder
	n := 0
	for f := fr; f != nil && n < 12; f = f.caller {
		if n > 0 {
			sb.WriteString(" < ")
		}
		sb.WriteString(f.fn.String())
		n++
	}
	return sb.String()
}

func shortFile(f string) string {
	if k := strings.Index(f, "/repo/"); k >= 0 {
		return f[k+6:]
	}
	if k := strings.LastIndex(f, "/pkg/mod/"); k >= 0 {
		return f[k+9:]
	}
	if k := strings.Index(f, "/src/"); k >= 0 {
		return f[k+5:]
	}
	return f
}

func mustDeref(t types.Type) types.Type {
	if p, ok := t.Underlying().(*types.Pointer); ok {
		return p.Elem()
	}
	panic(fmt.Sprintf("mustDeref: %v is not a pointer", t))
}

// rtPanic builds a target-level run-time panic (nil dereference, index out
// of range, ...). Only these are visible to the target's recover().
func (i *interpreter) rtPanic(msg string) targetPanic {
	return targetPanic{v: iface{i.runtimeErrorString, "runtime error: " + msg}, rt: true}
}

func (i *interpreter) panicString(p targetPanic) string {
	if it, ok := p.v.(iface); ok {
		if s, ok := it.v.(string); ok {
			if p.where != "" {
				return s + " [at " + p.where + "]"
			}
			return s
		}
		if it.t != nil {
			// error values: try to find a message
			return fmt.Sprintf("(%s) %s", it.t, toString(it.v))
		}
	}
	return toString(p.v)
}

func isStdlib(path string) bool {
	first := path
	if k := strings.IndexByte(path, '/'); k >= 0 {
		first = path[:k]
	}
	return !strings.Contains(first, ".")
}

// Standard-library packages that are never initialised: their
// functionality is reached only through intrinsics.
var initDeny = map[string]bool{
	"runtime": true, "os": true, "syscall": true, "net": true, "net/http": true, "reflect": true,
	"time": false, "sync": true, "log": true, "internal/poll": true, "os/signal": true, "internal/godebug": true,
	"crypto/rand": true, "math/rand": true, "math/rand/v2": true, "testing": true, "internal/reflectlite": true,
	"crypto/tls": true, "crypto/x509": true, "net/http/httptrace": true, "internal/cpu": true, "sync/atomic": true,
	"runtime/debug": true, "os/exec": true, "io/fs": true, "path/filepath": true, "internal/syscall/unix": true,
	"net/http/internal": true, "vendor/golang.org/x/net/http2/hpack": true, "compress/flate": true, "compress/gzip": true,
	"mime/multipart": false, "crypto/sha256": false, "crypto/sha1": true, "crypto/md5": true, "crypto/internal/boring": true,
	"hash/crc32": true, "log/slog": true, "internal/bytealg": true, "crypto": true, "internal/testlog": true,
	"net/textproto": false,
	"github.com/davecgh/go-spew/spew": true,
}

func (fr *frame) get(key ssa.Value) value {
	switch key := key.(type) {
	case nil:
		// Hack; simplifies handling of optional attributes
		// such as ssa.Slice.{Low,High}.
		return nil
	case *ssa.Function, *ssa.Builtin:
		return key
	case *ssa.Const:
		return constValue(key)
	case *ssa.Global:
		if r, ok := fr.i.globals[key]; ok {
			if pkg := key.Pkg; pkg != nil && !fr.i.inited[pkg] {
				fr.i.lazyInit(pkg)
			}
			return r
		}
	}
	if r, ok := fr.env[key]; ok {
		return r
	}
	panic(fmt.Sprintf("get: no value for %T: %v", key, key.Name()))
}

// lazyInit initialises a standard-library package on first access to one
// of its globals (without its imports' initialisers).
func (i *interpreter) lazyInit(pkg *ssa.Package) {
	if i.inited[pkg] || i.initing[pkg] {
		return
	}
	path := pkg.Pkg.Path()
	if !isStdlib(path) {
		return // initialised eagerly
	}
	if initDeny[path] {
		i.inited[pkg] = true
		return
	}
	i.initing[pkg] = true
	saved := i.logging
	i.logging = false
	// package initialisation happens before everything else in a real program:
	// its stores are not accesses of the task that happens to trigger it lazily
	i.raceOff++
	defer func() {
		i.raceOff--
		i.logging = saved
		delete(i.initing, pkg)
		i.inited[pkg] = true
	}()
	if init := pkg.Func("init"); init != nil {
		call(i, nil, token.NoPos, init, nil)
	}
}

// runDefer runs a deferred call d.
// It always returns normally, but may set or clear fr.panic.
func (fr *frame) runDefer(d *deferred) {
	var ok bool
	defer func() {
		if !ok {
			// Deferred call created a new state of panic.
			r := recover()
			if isEnginePanic(r) {
				panic(r)
			}
			fr.panicking = true
			fr.panic = r
		}
	}()
	call(fr.i, fr, d.instr.Pos(), d.fn, d.args)
	ok = true
}

// isEnginePanic reports whether a recovered value must not be seen by the target.
func isEnginePanic(r any) bool {
	switch r.(type) {
	case targetPanic:
		return false
	case nil:
		return false
	}
	return true
}

// runDefers executes fr's deferred function calls in LIFO order.
//
// On entry, fr.panicking indicates a state of panic; if
// true, fr.panic contains the panic value.
//
// On completion, if a deferred call started a panic, or if no
// deferred call recovered from a previous state of panic, then
// runDefers itself panics after the last deferred call has run.
//
// If there was no initial state of panic, or it was recovered from,
// runDefers returns normally.
func (fr *frame) runDefers() {
	for d := fr.defers; d != nil; d = d.tail {
		fr.runDefer(d)
	}
	fr.defers = nil
	if fr.panicking {
		panic(fr.panic) // new panic, or still panicking
	}
}

// lookupMethod returns the method set for type typ, which may be one
// of the interpreter's fake types.
func lookupMethod(i *interpreter, typ types.Type, meth *types.Func) *ssa.Function {
	switch typ {
	case rtypeType:
		return i.rtypeMethods[meth.Id()]
	case errorType:
		return i.errorMethods[meth.Id()]
	}
	return i.prog.LookupMethod(typ, meth.Pkg(), meth.Name())
}

// logStore records the old content of a cell in the undo log.
func (i *interpreter) logStore(addr *value) {
	if i.logging {
		i.undo = append(i.undo, undoEntry{addr: addr, old: *addr})
		if i.frozen != nil {
			if what, ok := i.frozen[addr]; ok {
				where := ""
				if i.lastFrame != nil {
					where = i.lastFrame.site() + " in " + i.lastFrame.stack()
				}
				i.ps.violation("frozen", "store into frozen object "+what, where, where, nil)
				panic(engineAbort{"stop", "store into frozen object " + what})
			}
		}
	}
}

func (i *interpreter) logUndo(fn func()) {
	if i.logging {
		i.undo = append(i.undo, undoEntry{fn: fn})
	}
}

func (i *interpreter) rollback() {
	for k := len(i.undo) - 1; k >= 0; k-- {
		u := i.undo[k]
		if u.fn != nil {
			u.fn()
		} else {
			*u.addr = u.old
		}
	}
	i.undo = i.undo[:0]
}

// store stores value v of type T into *addr, with undo logging.
func (i *interpreter) store(T types.Type, addr *value, v value) {
	switch T := T.Underlying().(type) {
	case *types.Struct:
		lhs := (*addr).(structure)
		rhs := v.(structure)
		for k := range lhs {
			i.store(T.Field(k).Type(), &lhs[k], rhs[k])
		}
	case *types.Array:
		lhs := (*addr).(array)
		rhs := v.(array)
		for k := range lhs {
			i.store(T.Elem(), &lhs[k], rhs[k])
		}
	default:
		i.logStore(addr)
		*addr = v
	}
}

// setCell is an untyped single-cell store with undo logging.
func (i *interpreter) setCell(addr *value, v value) {
	i.logStore(addr)
	*addr = v
}

func (fr *frame) nilCheck(p *value) *value {
	if p == nil {
		tp := fr.i.rtPanic("invalid memory address or nil pointer dereference")
		tp.where = fr.site() + " in " + fr.stack()
		panic(tp)
	}
	return p
}

// visitInstr interprets a single ssa.Instruction within the activation
// record frame.  It returns a continuation value indicating where to
// read the next instruction from.
func visitInstr(fr *frame, instr ssa.Instruction) continuation {
	fr.cur = instr
	i := fr.i
	i.lastFrame = fr
	if ps := i.ps; ps != nil {
		ps.instrs++
		if m := i.ex.Lim.MaxInstrs; m > 0 && ps.instrs > m {
			panic(engineAbort{"bound", fmt.Sprintf("more than %d instructions on one path", m)})
		}
	}
	switch instr := instr.(type) {
	case *ssa.DebugRef:
		// no-op

	case *ssa.UnOp:
		fr.env[instr] = fr.unop(instr, fr.get(instr.X))

	case *ssa.BinOp:
		fr.env[instr] = fr.binop(instr.Op, instr.X.Type(), fr.get(instr.X), fr.get(instr.Y))

	case *ssa.Call:
		fn, args := prepareCall(fr, &instr.Call)
		fr.env[instr] = call(fr.i, fr, instr.Pos(), fn, args)

	case *ssa.ChangeInterface:
		fr.env[instr] = fr.get(instr.X)

	case *ssa.ChangeType:
		fr.env[instr] = fr.get(instr.X) // (can't fail)

	case *ssa.Convert:
		fr.env[instr] = fr.conv(instr.Type(), instr.X.Type(), fr.get(instr.X))

	case *ssa.SliceToArrayPointer:
		fr.env[instr] = sliceToArrayPointer(instr.Type(), instr.X.Type(), fr.get(instr.X))

	case *ssa.MakeInterface:
		fr.env[instr] = iface{t: instr.X.Type(), v: fr.get(instr.X)}

	case *ssa.Extract:
		fr.env[instr] = fr.get(instr.Tuple).(tuple)[instr.Index]

	case *ssa.Slice:
		fr.env[instr] = fr.slice(fr.get(instr.X), fr.get(instr.Low), fr.get(instr.High), fr.get(instr.Max))

	case *ssa.Return:
		switch len(instr.Results) {
		case 0:
		case 1:
			fr.result = fr.get(instr.Results[0])
		default:
			var res []value
			for _, r := range instr.Results {
				res = append(res, fr.get(r))
			}
			fr.result = tuple(res)
		}
		fr.block = nil
		return kReturn

	case *ssa.RunDefers:
		fr.runDefers()

	case *ssa.Panic:
		panic(targetPanic{v: fr.get(instr.X)})

	case *ssa.Send:
		i.chanSend(fr.get(instr.Chan).(*channel), fr.get(instr.X))

	case *ssa.Store:
		addr := fr.nilCheck(fr.get(instr.Addr).(*value))
		// go/ssa lowers `return x` in a function with named results to "x' = *x; *x = x'": a store of the
		// value just loaded from the same variable, which the compiler never emits - not an access of the program
		selfStore := false
		if u, ok := instr.Val.(*ssa.UnOp); ok && u.Op == token.MUL && u.X == instr.Addr {
			selfStore = true
		}
		if i.sched != nil && i.cfg.Race && !selfStore {
			i.raceAccess(fr, addr, true)
		}
		i.store(mustDeref(instr.Addr.Type()), addr, fr.get(instr.Val))

	case *ssa.If:
		succ := 1
		if fr.truth(fr.get(instr.Cond)) {
			succ = 0
		}
		fr.prevBlock, fr.block = fr.block, fr.block.Succs[succ]
		return kJump

	case *ssa.Jump:
		fr.prevBlock, fr.block = fr.block, fr.block.Succs[0]
		return kJump

	case *ssa.Defer:
		fn, args := prepareCall(fr, &instr.Call)
		defers := &fr.defers
		if into := fr.get(instr.DeferStack); into != nil {
			defers = into.(**deferred)
		}
		*defers = &deferred{
			fn:    fn,
			args:  args,
			instr: instr,
			tail:  *defers,
		}

	case *ssa.Go:
		fn, args := prepareCall(fr, &instr.Call)
		name := fmt.Sprintf("go@%s", fr.site())
		i.sched.spawn(fn, args, name)
		i.sched.yield("go statement")

	case *ssa.MakeChan:
		n := fr.concretizeInt(fr.get(instr.Size), 0, 64, "channel capacity")
		fr.env[instr] = i.newChan(int(n), zero(instr.Type().Underlying().(*types.Chan).Elem()))

	case *ssa.Alloc:
		var addr *value
		if instr.Heap {
			// new
			addr = new(value)
			fr.env[instr] = addr
		} else {
			// local
			addr = fr.env[instr].(*value)
		}
		*addr = zero(mustDeref(instr.Type()))

	case *ssa.MakeSlice:
		c := fr.concretizeInt(fr.get(instr.Cap), 0, 1<<16, "slice capacity")
		l := fr.concretizeInt(fr.get(instr.Len), 0, 1<<16, "slice length")
		if l < 0 || c < l {
			panic(i.rtPanic("makeslice: len out of range"))
		}
		slice := make([]value, c)
		tElt := instr.Type().Underlying().(*types.Slice).Elem()
		for i := range slice {
			slice[i] = zero(tElt)
		}
		fr.env[instr] = slice[:l]

	case *ssa.MakeMap:
		fr.env[instr] = makeMap(instr.Type().Underlying().(*types.Map).Key(), 0)

	case *ssa.Range:
		if m, ok := fr.get(instr.X).(*hashmap); ok && m != nil && i.sched != nil && i.cfg.Race && i.race != nil {
			i.race.access(fr, m, false)
		}
		fr.env[instr] = fr.rangeIter(fr.get(instr.X), instr.X.Type())

	case *ssa.Next:
		fr.env[instr] = fr.get(instr.Iter).(iter).next()

	case *ssa.FieldAddr:
		p := fr.nilCheck(fr.get(instr.X).(*value))
		fr.env[instr] = &(*p).(structure)[instr.Field]

	case *ssa.Field:
		fr.env[instr] = fr.get(instr.X).(structure)[instr.Field]

	case *ssa.IndexAddr:
		x := fr.get(instr.X)
		idx := fr.get(instr.Index)
		switch x := x.(type) {
		case []value:
			fr.env[instr] = &x[fr.concretizeIndex(idx, len(x), "index")]
		case *value: // *array
			a := (*fr.nilCheck(x)).(array)
			fr.env[instr] = &a[fr.concretizeIndex(idx, len(a), "index")]
		default:
			panic(fmt.Sprintf("unexpected x type in IndexAddr: %T", x))
		}

	case *ssa.Index:
		fr.env[instr] = fr.index(fr.get(instr.X), fr.get(instr.Index))

	case *ssa.Lookup:
		x := fr.get(instr.X)
		if m, ok := x.(*hashmap); ok && m != nil && i.sched != nil && i.cfg.Race && i.race != nil {
			// a map is one object for the race check, as for Go's detector: lookups and range read it, updates and delete write it
			i.race.access(fr, m, false)
		}
		fr.env[instr] = fr.lookup(instr, x, fr.get(instr.Index))

	case *ssa.MapUpdate:
		m, _ := fr.get(instr.Map).(*hashmap)
		if m == nil {
			panic(i.rtPanic("assignment to entry in nil map"))
		}
		if i.sched != nil && i.cfg.Race && i.race != nil {
			i.race.access(fr, m, true)
		}
		i.mapInsert(m, fr.mapKey(fr.get(instr.Key)), fr.get(instr.Value))

	case *ssa.TypeAssert:
		fr.env[instr] = typeAssert(fr.i, instr, fr.get(instr.X).(iface))

	case *ssa.MakeClosure:
		var bindings []value
		for _, binding := range instr.Bindings {
			bindings = append(bindings, fr.get(binding))
		}
		fr.env[instr] = &closure{instr.Fn.(*ssa.Function), bindings}

	case *ssa.Phi:
		panic("unreachable") // phis are processed at block entry

	case *ssa.Select:
		var cases []selCase
		for _, state := range instr.States {
			c, _ := fr.get(state.Chan).(*channel)
			sc := selCase{c: c, send: state.Dir == types.SendOnly}
			if state.Send != nil {
				sc.v = fr.get(state.Send)
			}
			cases = append(cases, sc)
		}
		chosen, recv, recvOk := i.chanSelect(cases, instr.Blocking)
		r := tuple{chosen, recvOk}
		for k, st := range instr.States {
			if st.Dir == types.RecvOnly {
				var v value
				if k == chosen && recvOk {
					v = recv
				} else {
					v = zero(st.Chan.Type().Underlying().(*types.Chan).Elem())
				}
				r = append(r, v)
			}
		}
		fr.env[instr] = r

	default:
		panic(fmt.Sprintf("unexpected instruction: %T", instr))
	}

	return kNext
}

// mapInsert inserts with undo logging.
func (i *interpreter) mapInsert(m *hashmap, k, v value) {
	if i.logging && i.frozenM != nil {
		if what, ok := i.frozenM[m]; ok {
			i.ps.violation("frozen", "map update in frozen object "+what, "", "", nil)
			panic(engineAbort{"stop", "map update in frozen object " + what})
		}
	}
	e, created, old := m.insert(k, v)
	if i.logging {
		if created {
			i.logUndo(func() { m.removeNew(e) })
		} else {
			i.logUndo(func() { e.value = old })
		}
	}
}

func (i *interpreter) mapDelete(m *hashmap, k value) {
	if m == nil {
		return
	}
	if i.logging && i.frozenM != nil {
		if what, ok := i.frozenM[m]; ok {
			i.ps.violation("frozen", "map delete in frozen object "+what, "", "", nil)
			panic(engineAbort{"stop", "map delete in frozen object " + what})
		}
	}
	if e := m.delete(k); e != nil && i.logging {
		i.logUndo(func() { m.undelete(e) })
	}
}

// mapKey validates a map key (symbolic keys are outside the engine's reach).
func (fr *frame) mapKey(k value) value {
	if containsSym(k) {
		panic(unsupported("symbolic map key at %s", fr.site()))
	}
	return k
}

// prepareCall determines the function value and argument values for a
// function call in a Call, Go or Defer instruction, performing
// interface method lookup if needed.
func prepareCall(fr *frame, call *ssa.CallCommon) (fn value, args []value) {
	v := fr.get(call.Value)
	if call.Method == nil {
		// Function call.
		fn = v
	} else {
		// Interface method invocation.
		recv := v.(iface)
		if recv.t == nil {
			panic(fr.i.rtPanic("invalid memory address or nil pointer dereference (method " + call.Method.Name() + " invoked on nil interface)"))
		}
		if f := lookupMethod(fr.i, recv.t, call.Method); f == nil {
			// Unreachable in well-typed programs.
			panic(fmt.Sprintf("method set for dynamic type %v does not contain %s", recv.t, call.Method))
		} else {
			fn = f
		}
		args = append(args, recv.v)
	}
	for _, arg := range call.Args {
		args = append(args, fr.get(arg))
	}
	return
}

// call interprets a call to a function (function, builtin or closure)
// fn with arguments args, returning its result.
// callpos is the position of the callsite.
func call(i *interpreter, caller *frame, callpos token.Pos, fn value, args []value) value {
	switch fn := fn.(type) {
	case *ssa.Function:
		if fn == nil {
			panic(i.rtPanic("invalid memory address or nil pointer dereference (call of nil function)"))
		}
		return callSSA(i, caller, callpos, fn, args, nil)
	case *closure:
		if fn == nil {
			panic(i.rtPanic("invalid memory address or nil pointer dereference (call of nil function)"))
		}
		return callSSA(i, caller, callpos, fn.Fn, args, fn.Env)
	case *ssa.Builtin:
		return callBuiltin(caller, callpos, fn, args)
	case *hostFunc:
		return fn.f(caller, args)
	}
	panic(fmt.Sprintf("cannot call %T", fn))
}

// hostFunc is a function value implemented by the engine.
type hostFunc struct {
	name string
	f    func(fr *frame, args []value) value
}

func loc(fset *token.FileSet, pos token.Pos) string {
	if pos == token.NoPos {
		return ""
	}
	return " at " + fset.Position(pos).String()
}

// normName strips type arguments from an instantiated function's name.
func normName(s string) string {
	if !strings.Contains(s, "[") {
		return s
	}
	var sb strings.Builder
	depth := 0
	for _, c := range s {
		switch {
		case c == '[':
			depth++
		case c == ']':
			depth--
		case depth == 0:
			sb.WriteRune(c)
		}
	}
	return sb.String()
}

const maxDepth = 2000

// callSSA interprets a call to function fn with arguments args,
// and lexical environment env, returning its result.
// callpos is the position of the callsite.
func callSSA(i *interpreter, caller *frame, callpos token.Pos, fn *ssa.Function, args []value, env []value) value {
	if i.mode&EnableTracing != 0 {
		fset := fn.Prog.Fset
		fmt.Fprintf(os.Stderr, "Entering %s%s.\n", fn, loc(fset, fn.Pos()))
		suffix := ""
		if caller != nil {
			suffix = ", resuming " + caller.fn.String() + loc(fset, callpos)
		}
		defer fmt.Fprintf(os.Stderr, "Leaving %s%s.\n", fn, suffix)
	}
	fr := &frame{
		i:       i,
		caller:  caller, // for panic/recover
		fn:      fn,
		callpos: callpos,
	}
	if fn.Parent() == nil {
		name := fn.String()
		if fn.TypeArgs() != nil || strings.Contains(name, "[") {
			name = normName(name)
		}
		if len(i.stubs) > 0 {
			if st, ok := i.stubs[name]; ok {
				if i.ps != nil {
					i.ps.stubs[name] = true
				}
				return call(i, caller, callpos, st, args)
			}
		}
		if ext := externals[name]; ext != nil && !i.skipExt {
			if i.mode&EnableTracing != 0 {
				fmt.Fprintln(os.Stderr, "\t(external)")
			}
			i.curExtFn = fn
			return ext(frameFor(fr, caller), args)
		}
		i.skipExt = false
		if fn.Synthetic == "package initializer" {
			pkg := fn.Pkg
			if i.inited[pkg] {
				return nil
			}
			if isStdlib(pkg.Pkg.Path()) && !i.initing[pkg] {
				return nil // initialised lazily
			}
			if initDeny[pkg.Pkg.Path()] {
				i.inited[pkg] = true
				return nil // only used by the native variant of the harness API
			}
			i.inited[pkg] = true
		}
		if fn.Blocks == nil {
			panic(unsupported("no code and no intrinsic for function %s (called at %s; stack: %s)", name, caller.site(), caller.stack()))
		}
		if i.ps != nil {
			if p := fn.Pkg; p != nil && i.cfg.isUnderTest(p.Pkg.Path()) {
				i.ps.funcs[name] = true
			}
		}
	} else if i.ps != nil {
		if p := fn.Pkg; p != nil && i.cfg.isUnderTest(p.Pkg.Path()) {
			i.ps.funcs[fn.String()] = true
		}
	}

	// generic function body?
	if fn.TypeParams().Len() > 0 && len(fn.TypeArgs()) == 0 {
		panic("interp requires ssa.BuilderMode to include InstantiateGenerics to execute generics")
	}
	i.depth++
	if i.depth > maxDepth {
		panic(engineAbort{"bound", "call depth exceeded"})
	}
	defer func() { i.depth-- }()

	fr.env = make(map[ssa.Value]value)
	fr.block = fn.Blocks[0]
	fr.locals = make([]value, len(fn.Locals))
	for i, l := range fn.Locals {
		fr.locals[i] = zero(mustDeref(l.Type()))
		fr.env[l] = &fr.locals[i]
	}
	for i, p := range fn.Params {
		fr.env[p] = args[i]
	}
	for i, fv := range fn.FreeVars {
		fr.env[fv] = env[i]
	}
	for fr.block != nil {
		runFrame(fr)
	}
	return fr.result
}

// frameFor gives intrinsics a frame whose site() is the call site.
func frameFor(fr, caller *frame) *frame {
	if caller != nil {
		return &frame{i: fr.i, caller: caller, fn: caller.fn, block: caller.block, cur: caller.cur, panicking: false}
	}
	return fr
}

// runFrame executes SSA instructions starting at fr.block and
// continuing until a return, a panic, or a recovered panic.
//
// After a panic, runFrame panics.
//
// After a normal return, fr.result contains the result of the call
// and fr.block is nil.
//
// A recovered panic in a function without named return parameters
// (NRPs) becomes a normal return of the zero value of the function's
// result type.
//
// After a recovered panic in a function with NRPs, fr.result is
// undefined and fr.block contains the block at which to resume
// control.
func runFrame(fr *frame) {
	defer func() {
		if fr.block == nil {
			return // normal return
		}
		r := recover()
		switch r := r.(type) {
		case targetPanic:
			// target-level panic: run the frame's defers
		case engineAbort:
			panic(r)
		case runtime.Error:
			// a host run-time error is an engine defect, never target behaviour
			buf := make([]byte, 4096)
			buf = buf[:runtime.Stack(buf, false)]
			panic(engineAbort{"internal", fmt.Sprintf("host run-time error %v in %s at %s\n%s", r, fr.fn, fr.site(), buf)})
		default:
			panic(engineAbort{"internal", fmt.Sprintf("host panic %v in %s at %s", r, fr.fn, fr.site())})
		}
		fr.panicking = true
		fr.panic = r
		fr.runDefers()
		fr.block = fr.fn.Recover
		if fr.block == nil {
			// recovered in a function without named results: return zero values
			fr.result = zeroResult(fr.fn)
		}
	}()

	for {
		nonPhis := executePhis(fr)
		for _, instr := range nonPhis {
			if fr.i.mode&EnableTracing != 0 {
				if v, ok := instr.(ssa.Value); ok {
					fmt.Fprintln(os.Stderr, "\t", v.Name(), "=", instr)
				} else {
					fmt.Fprintln(os.Stderr, "\t", instr)
				}
			}
			if visitInstr(fr, instr) == kReturn {
				return
			}
			// Inv: kNext (continue) or kJump (last instr)
		}
	}
}

func zeroResult(fn *ssa.Function) value {
	res := fn.Signature.Results()
	switch res.Len() {
	case 0:
		return nil
	case 1:
		return zero(res.At(0).Type())
	}
	return zero(res)
}

// executePhis executes the phi-nodes at the start of the current
// block and returns the non-phi instructions.
func executePhis(fr *frame) []ssa.Instruction {
	firstNonPhi := -1
	for i, instr := range fr.block.Instrs {
		if _, ok := instr.(*ssa.Phi); !ok {
			firstNonPhi = i
			break
		}
	}
	// Inv: 0 <= firstNonPhi; every block contains a non-phi.

	nonPhis := fr.block.Instrs[firstNonPhi:]
	if firstNonPhi > 0 {
		phis := fr.block.Instrs[:firstNonPhi]
		// Execute parallel assignment of phis.
		predIndex := slices.Index(fr.block.Preds, fr.prevBlock)
		fr.phitemps = fr.phitemps[:0]
		for _, phi := range phis {
			phi := phi.(*ssa.Phi)
			fr.phitemps = append(fr.phitemps, fr.get(phi.Edges[predIndex]))
		}
		for i, phi := range phis {
			fr.env[phi.(*ssa.Phi)] = fr.phitemps[i]
		}
	}
	return nonPhis
}

// doRecover implements the recover() built-in.
func doRecover(caller *frame) value {
	// recover() must be exactly one level beneath the deferred
	// function (two levels beneath the panicking function) to
	// have any effect.  Thus we ignore both "defer recover()" and
	// "defer f() -> g() -> recover()".
	if caller != nil && !caller.panicking &&
		caller.caller != nil && caller.caller.panicking {
		caller.caller.panicking = false
		p := caller.caller.panic
		caller.caller.panic = nil

		switch p := p.(type) {
		case targetPanic:
			// The target program explicitly called panic(), or a
			// target-level run-time error occurred.
			return p.v
		default:
			panic(engineAbort{"internal", fmt.Sprintf("unexpected panic type %T in target call to recover()", p)})
		}
	}
	return iface{}
}
