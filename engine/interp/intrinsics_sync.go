package interp

// Models of sync, sync/atomic, context.WithValue, errors.Is/As, time.

import (
	"fmt"
	"go/token"
	"go/types"
	"strings"

	"golang.org/x/tools/go/ssa"
)

type mutexState struct {
	locked  bool
	readers int
	owner   int
	vc      vclock
}

type wgState struct {
	n  int
	vc vclock
}

type onceState struct {
	done bool
	vc   vclock
}

type poolState struct {
	items []value
	vcs   []vclock // release clock of each Put (a Get of that item acquires it)
}

func sideOf[T any](i *interpreter, key any, mk func() *T) *T {
	if st, ok := i.side[key]; ok {
		return st.(*T)
	}
	st := mk()
	i.side[key] = st
	return st
}

func (fr *frame) mutex(recv value) *mutexState {
	p := fr.nilCheck(recv.(*value))
	return sideOf(fr.i, p, func() *mutexState { return &mutexState{vc: vclock{}} })
}

func init() {
	for k, v := range map[string]externalFn{
		"(*sync.Mutex).Lock":      mutexLock,
		"(*sync.Mutex).Unlock":    mutexUnlock,
		"(*sync.Mutex).TryLock":   mutexTryLock,
		"(*sync.RWMutex).Lock":    mutexLock,
		"(*sync.RWMutex).Unlock":  mutexUnlock,
		"(*sync.RWMutex).RLock":   rwRLock,
		"(*sync.RWMutex).RUnlock": rwRUnlock,
		"(*sync.WaitGroup).Add":   wgAdd,
		"(*sync.WaitGroup).Done":  func(fr *frame, a []value) value { return wgAdd(fr, []value{a[0], int(-1)}) },
		"(*sync.WaitGroup).Wait":  wgWait,
		"(*sync.Once).Do":         onceDo,
		"(*sync.Pool).Get":        poolGet,
		"(*sync.Pool).Put":        poolPut,

		"sync/atomic.AddInt32":              atomicAdd,
		"sync/atomic.AddInt64":              atomicAdd,
		"sync/atomic.AddUint32":             atomicAdd,
		"sync/atomic.AddUint64":             atomicAdd,
		"sync/atomic.AddUintptr":            atomicAdd,
		"sync/atomic.LoadInt32":             atomicLoad,
		"sync/atomic.LoadInt64":             atomicLoad,
		"sync/atomic.LoadUint32":            atomicLoad,
		"sync/atomic.LoadUint64":            atomicLoad,
		"sync/atomic.LoadUintptr":           atomicLoad,
		"sync/atomic.LoadPointer":           atomicLoad,
		"sync/atomic.StoreInt32":            atomicStore,
		"sync/atomic.StoreInt64":            atomicStore,
		"sync/atomic.StoreUint32":           atomicStore,
		"sync/atomic.StoreUint64":           atomicStore,
		"sync/atomic.StoreUintptr":          atomicStore,
		"sync/atomic.StorePointer":          atomicStore,
		"sync/atomic.SwapInt32":             atomicSwap,
		"sync/atomic.SwapInt64":             atomicSwap,
		"sync/atomic.SwapUint32":            atomicSwap,
		"sync/atomic.SwapUint64":            atomicSwap,
		"sync/atomic.SwapPointer":           atomicSwap,
		"sync/atomic.CompareAndSwapInt32":   atomicCAS,
		"sync/atomic.CompareAndSwapInt64":   atomicCAS,
		"sync/atomic.CompareAndSwapUint32":  atomicCAS,
		"sync/atomic.CompareAndSwapUint64":  atomicCAS,
		"sync/atomic.CompareAndSwapPointer": atomicCAS,
		"(*sync/atomic.Value).Load":         atomicValueLoad,
		"(*sync/atomic.Value).Store":        atomicValueStore,
		"(*sync/atomic.Value).Swap":         atomicValueSwap,
		"(*sync/atomic.Value).CompareAndSwap": func(fr *frame, a []value) value {
			panic(unsupported("atomic.Value.CompareAndSwap"))
		},
		"(*sync/atomic.Pointer).Load":  atomicPtrLoad,
		"(*sync/atomic.Pointer).Store": atomicPtrStore,
		"(*sync/atomic.Pointer).Swap":  atomicPtrSwap,
		"(*sync/atomic.Pointer).CompareAndSwap": atomicPtrCAS,

		"context.WithValue": contextWithValue,
		"errors.Is":         errorsIs,
		"errors.As":         errorsAs,

		"time.Now":   timeNow,
		"time.Since": timeSince,
		"time.Sleep": func(fr *frame, a []value) value { fr.i.sched.yield("time.Sleep"); return nil },
		// the local time zone is UTC (no zone database is read): localLoc stays the zero Location, which time treats as UTC
		"time.initLocal": func(fr *frame, a []value) value { return nil },
		"time.runtimeNano":     func(fr *frame, a []value) value { fr.i.clock += 1000; return int64(1_000_000_000) + fr.i.clock },
		"time.now":             func(fr *frame, a []value) value { fr.i.clock += 1000; return tuple{int64(1_700_000_000), int32(fr.i.clock % 1_000_000_000), int64(1_000_000_000) + fr.i.clock} },
		"time.runtimeNow":      func(fr *frame, a []value) value { fr.i.clock += 1000; return tuple{int64(1_700_000_000), int32(fr.i.clock % 1_000_000_000), int64(1_000_000_000) + fr.i.clock} },
		"time.NewTicker":       timeNewTicker,
		"(*time.Ticker).Stop":  func(fr *frame, a []value) value { tickerOf(fr, a[0]).stop = true; return nil },
		"(*time.Ticker).Reset": func(fr *frame, a []value) value { tickerOf(fr, a[0]).stop = false; return nil },
		"time.After":           func(fr *frame, a []value) value { return fr.i.newTicker(true).c },
		"time.NewTimer": func(fr *frame, a []value) value {
			tm := fr.i.newTicker(true)
			var cell value = structure{tm.c, true}
			p := &cell
			fr.i.side[p] = &tickerSide{tm}
			return p
		},
		"(*time.Timer).Stop":  func(fr *frame, a []value) value { tm := tickerOf(fr, a[0]); was := !tm.stop && tm.fires == 0; tm.stop = true; return was },
		"(*time.Timer).Reset": func(fr *frame, a []value) value { tm := tickerOf(fr, a[0]); was := !tm.stop && tm.fires == 0; tm.stop = false; return was },
	} {
		externals[k] = v
	}
}

func (i *interpreter) syncPoint(what string) {
	if i.sched != nil {
		i.sched.yield(what)
	}
}

func mutexLock(fr *frame, a []value) value {
	m := fr.mutex(a[0])
	s := fr.i.sched
	s.cur.waitOn = m
	s.block(func() bool { return !m.locked && m.readers == 0 }, "Mutex.Lock")
	s.cur.waitOn = nil
	m.locked = true
	m.owner = s.cur.id
	s.cur.vc.join(m.vc)
	s.cur.locks = append(s.cur.locks, a[0].(*value))
	return nil
}

func mutexTryLock(fr *frame, a []value) value {
	m := fr.mutex(a[0])
	if m.locked || m.readers > 0 {
		return false
	}
	mutexLock(fr, a)
	return true
}

func mutexUnlock(fr *frame, a []value) value {
	m := fr.mutex(a[0])
	if !m.locked {
		panic(targetPanic{v: iface{fr.i.runtimeErrorString, "fatal error: sync: unlock of unlocked mutex"}, rt: true})
	}
	s := fr.i.sched
	m.locked = false
	m.vc = s.cur.vc.copy()
	s.cur.vc.tick(s.cur.id)
	s.cur.dropLock(a[0].(*value))
	s.lockHandoff(m)
	s.yield("Mutex.Unlock")
	return nil
}

func (t *task) dropLock(p *value) {
	for k := len(t.locks) - 1; k >= 0; k-- {
		if t.locks[k] == p {
			t.locks = append(t.locks[:k:k], t.locks[k+1:]...)
			return
		}
	}
}

func rwRLock(fr *frame, a []value) value {
	m := fr.mutex(a[0])
	s := fr.i.sched
	s.block(func() bool { return !m.locked }, "RWMutex.RLock")
	m.readers++
	s.cur.vc.join(m.vc)
	return nil
}

func rwRUnlock(fr *frame, a []value) value {
	m := fr.mutex(a[0])
	if m.readers <= 0 {
		panic(targetPanic{v: iface{fr.i.runtimeErrorString, "fatal error: sync: RUnlock of unlocked RWMutex"}, rt: true})
	}
	s := fr.i.sched
	m.readers--
	m.vc.join(s.cur.vc)
	s.cur.vc.tick(s.cur.id)
	s.yield("RWMutex.RUnlock")
	return nil
}

func (fr *frame) wg(recv value) *wgState {
	p := fr.nilCheck(recv.(*value))
	return sideOf(fr.i, p, func() *wgState { return &wgState{vc: vclock{}} })
}

func wgAdd(fr *frame, a []value) value {
	w := fr.wg(a[0])
	d := int(fr.concretizeInt(a[1], -64, 64, "WaitGroup delta"))
	w.n += d
	if w.n < 0 {
		panic(targetPanic{v: iface{fr.i.runtimeErrorString, "sync: negative WaitGroup counter"}, rt: true})
	}
	s := fr.i.sched
	if d < 0 {
		w.vc.join(s.cur.vc)
		s.cur.vc.tick(s.cur.id)
		s.yield("WaitGroup.Done")
	}
	return nil
}

func wgWait(fr *frame, a []value) value {
	w := fr.wg(a[0])
	s := fr.i.sched
	s.block(func() bool { return w.n == 0 }, "WaitGroup.Wait")
	s.cur.vc.join(w.vc)
	return nil
}

func onceDo(fr *frame, a []value) value {
	p := fr.nilCheck(a[0].(*value))
	o := sideOf(fr.i, p, func() *onceState { return &onceState{vc: vclock{}} })
	s := fr.i.sched
	if o.done {
		s.cur.vc.join(o.vc)
		return nil
	}
	o.done = true // Go: a panicking f still counts as done
	call(fr.i, fr, token.NoPos, a[1], nil)
	o.vc = s.cur.vc.copy()
	s.cur.vc.tick(s.cur.id)
	return nil
}

// sync.Pool: Get returns the most recently Put object, else New().
// (The real pool may also drop objects; harnesses that need an arbitrary
// pooled object Put it explicitly.)
func poolGet(fr *frame, a []value) value {
	p := fr.nilCheck(a[0].(*value))
	st := sideOf(fr.i, p, func() *poolState { return &poolState{} })
	if n := len(st.items); n > 0 {
		v := st.items[n-1]
		st.items = st.items[:n-1]
		cur := fr.i.sched.cur
		cur.vc.join(st.vcs[n-1])
		st.vcs = st.vcs[:n-1]
		return v
	}
	// field New is the last field of sync.Pool
	s := (*p).(structure)
	newFn := s[len(s)-1]
	switch f := newFn.(type) {
	case *ssa.Function:
		if f == nil {
			return iface{}
		}
	case *closure:
		if f == nil {
			return iface{}
		}
	}
	return call(fr.i, fr, token.NoPos, newFn, nil)
}

func poolPut(fr *frame, a []value) value {
	p := fr.nilCheck(a[0].(*value))
	st := sideOf(fr.i, p, func() *poolState { return &poolState{} })
	if x := a[1].(iface); x.t != nil {
		st.items = append(st.items, x)
		cur := fr.i.sched.cur
		st.vcs = append(st.vcs, cur.vc.copy())
		cur.vc.tick(cur.id)
	}
	return nil
}

// ---- atomics (tasks never switch inside an intrinsic, so these are atomic)

func (fr *frame) atomicSync(addr *value, write bool) {
	i := fr.i
	if i.race != nil {
		i.race.atomicAccess(fr, addr, write)
	}
	// an atomic operation is a point at which another goroutine may be scheduled (it matters only with a
	// preemption budget): lock-free code is built from exactly these points
	i.syncPoint("atomic")
}

func atomicAdd(fr *frame, a []value) value {
	p := fr.nilCheck(a[0].(*value))
	fr.atomicSync(p, true)
	nv := fr.binop(token.ADD, nil, *p, a[1])
	fr.i.setCell(p, nv)
	return nv
}

func atomicLoad(fr *frame, a []value) value {
	p := fr.nilCheck(a[0].(*value))
	fr.atomicSync(p, false)
	return *p
}

func atomicStore(fr *frame, a []value) value {
	p := fr.nilCheck(a[0].(*value))
	fr.atomicSync(p, true)
	fr.i.setCell(p, a[1])
	return nil
}

func atomicSwap(fr *frame, a []value) value {
	p := fr.nilCheck(a[0].(*value))
	fr.atomicSync(p, true)
	old := *p
	fr.i.setCell(p, a[1])
	return old
}

func atomicCAS(fr *frame, a []value) value {
	p := fr.nilCheck(a[0].(*value))
	fr.atomicSync(p, true)
	if fr.truth(fr.binop(token.EQL, types.Typ[types.Int64], *p, a[1])) {
		fr.i.setCell(p, a[2])
		return true
	}
	return false
}

// atomic.Value: the stored interface lives in side state.
type avState struct{ v value }

func (fr *frame) av(recv value) *avState {
	p := fr.nilCheck(recv.(*value))
	fr.atomicSync(p, false)
	return sideOf(fr.i, p, func() *avState { return &avState{v: iface{}} })
}

func atomicValueLoad(fr *frame, a []value) value { return fr.av(a[0]).v }
func atomicValueStore(fr *frame, a []value) value {
	st := fr.av(a[0])
	if a[1].(iface).t == nil {
		panic(targetPanic{v: iface{fr.i.runtimeErrorString, "sync/atomic: store of nil value into Value"}, rt: true})
	}
	st.v = a[1]
	return nil
}
func atomicValueSwap(fr *frame, a []value) value {
	st := fr.av(a[0])
	old := st.v
	st.v = a[1]
	return old
}

// atomic.Pointer[T]: the pointer is kept in the struct's last field cell.
func (fr *frame) apCell(recv value) *value {
	p := fr.nilCheck(recv.(*value))
	s := (*p).(structure)
	c := &s[len(s)-1]
	if _, ok := (*c).(*value); !ok {
		*c = (*value)(nil)
	}
	return c
}

func atomicPtrLoad(fr *frame, a []value) value { c := fr.apCell(a[0]); fr.atomicSync(c, false); return *c }
func atomicPtrStore(fr *frame, a []value) value {
	c := fr.apCell(a[0])
	fr.atomicSync(c, true)
	fr.i.setCell(c, a[1])
	return nil
}
func atomicPtrSwap(fr *frame, a []value) value {
	c := fr.apCell(a[0])
	fr.atomicSync(c, true)
	old := *c
	fr.i.setCell(c, a[1])
	return old
}
func atomicPtrCAS(fr *frame, a []value) value {
	c := fr.apCell(a[0])
	fr.atomicSync(c, true)
	if (*c).(*value) == a[1].(*value) {
		fr.i.setCell(c, a[2])
		return true
	}
	return false
}

// ---- context.WithValue (its body needs reflectlite)

func contextWithValue(fr *frame, a []value) value {
	i := fr.i
	parent := a[0].(iface)
	if parent.t == nil {
		panic(targetPanic{v: iface{types.Typ[types.String], "cannot create context from nil parent"}})
	}
	key := a[1].(iface)
	if key.t == nil {
		panic(targetPanic{v: iface{types.Typ[types.String], "nil key"}})
	}
	vt := i.pkgType("context", "valueCtx")
	var cell value = structure{parent, key, a[2]}
	return iface{t: types.NewPointer(vt), v: &cell}
}

// ---- errors.Is / errors.As (their bodies need reflectlite)

func (fr *frame) unwrapAll(err iface) []iface {
	i := fr.i
	m := i.findMethod(err.t, "Unwrap")
	if m == nil {
		return nil
	}
	res := m.Signature.Results()
	if res.Len() != 1 {
		return nil
	}
	r := call(i, fr, token.NoPos, m, []value{err.v})
	switch r := r.(type) {
	case iface:
		if r.t == nil {
			return nil
		}
		return []iface{r}
	case []value:
		var out []iface
		for _, e := range r {
			if e.(iface).t != nil {
				out = append(out, e.(iface))
			}
		}
		return out
	}
	return nil
}

func errorsIs(fr *frame, a []value) value {
	err, target := a[0].(iface), a[1].(iface)
	if err.t == nil || target.t == nil {
		return err.t == nil && target.t == nil
	}
	comparable := types.Comparable(target.t)
	var is func(e iface) bool
	is = func(e iface) bool {
		if comparable && sameType(e.t, target.t) && !containsSym(e.v) && equals(e.t, e.v, target.v) {
			return true
		}
		if m := fr.i.findMethod(e.t, "Is"); m != nil && m.Signature.Params().Len() == 1 && m.Signature.Results().Len() == 1 {
			if fr.truth(call(fr.i, fr, token.NoPos, m, []value{e.v, target})) {
				return true
			}
		}
		for _, u := range fr.unwrapAll(e) {
			if is(u) {
				return true
			}
		}
		return false
	}
	return is(err)
}

func errorsAs(fr *frame, a []value) value {
	err, target := a[0].(iface), a[1].(iface)
	if err.t == nil {
		return false
	}
	if target.t == nil {
		panic(targetPanic{v: iface{types.Typ[types.String], "errors: target cannot be nil"}})
	}
	pt, ok := target.t.Underlying().(*types.Pointer)
	if !ok || target.v.(*value) == nil {
		panic(targetPanic{v: iface{types.Typ[types.String], "errors: target must be a non-nil pointer"}})
	}
	want := pt.Elem()
	_, wantIface := want.Underlying().(*types.Interface)
	var as func(e iface) bool
	as = func(e iface) bool {
		if wantIface {
			if types.Implements(e.t, want.Underlying().(*types.Interface)) {
				fr.i.setCell(target.v.(*value), e)
				return true
			}
		} else if types.Identical(e.t, want) {
			fr.i.store(want, target.v.(*value), e.v)
			return true
		}
		if m := fr.i.findMethod(e.t, "As"); m != nil && m.Signature.Params().Len() == 1 {
			if fr.truth(call(fr.i, fr, token.NoPos, m, []value{e.v, target})) {
				return true
			}
		}
		for _, u := range fr.unwrapAll(e) {
			if as(u) {
				return true
			}
		}
		return false
	}
	return as(err)
}

// ---- time: a logical clock that advances on every reading

func timeNow(fr *frame, a []value) value {
	fr.i.clock += 1000
	// time.Time{wall uint64, ext int64, loc *Location}: no monotonic reading, ext = seconds since year 1
	const unixToInternal = (1969*365 + 1969/4 - 1969/100 + 1969/400) * 86400
	sec := int64(1_700_000_000) + unixToInternal
	ns := fr.i.clock
	sec += ns / 1e9
	return structure{uint64(ns % 1e9), sec, (*value)(nil)}
}

func (i *interpreter) timeValue() value {
	i.clock += 1000
	const unixToInternal = (1969*365 + 1969/4 - 1969/100 + 1969/400) * 86400
	ns := i.clock
	return structure{uint64(ns % 1e9), int64(1_700_000_000) + unixToInternal + ns/1e9, (*value)(nil)}
}

type tickerSide struct{ tm *timerObj }

func timeNewTicker(fr *frame, a []value) value {
	tm := fr.i.newTicker(false)
	var cell value = structure{tm.c, true}
	p := &cell
	fr.i.side[p] = &tickerSide{tm}
	return p
}

func tickerOf(fr *frame, recv value) *timerObj {
	p := fr.nilCheck(recv.(*value))
	if st, ok := fr.i.side[p]; ok {
		return st.(*tickerSide).tm
	}
	panic(unsupported("time.Ticker/Timer not created by the engine's model"))
}

func timeSince(fr *frame, a []value) value {
	now := timeNow(fr, nil).(structure)
	t := a[0].(structure)
	d := (now[1].(int64)-t[1].(int64))*1e9 + int64(now[0].(uint64)&(1<<30-1)) - int64(t[0].(uint64)&(1<<30-1))
	return d
}

var _ = fmt.Sprint

// ---- reflect.DeepEqual on interpreter values

func init() {
	externals["reflect.DeepEqual"] = func(fr *frame, a []value) value {
		x, y := a[0].(iface), a[1].(iface)
		if x.t == nil || y.t == nil {
			return x.t == nil && y.t == nil
		}
		if !types.Identical(x.t, y.t) {
			return false
		}
		return deepEqual(x.t, x.v, y.v, map[[2]*value]bool{})
	}
}

func deepEqual(t types.Type, x, y value, seen map[[2]*value]bool) bool {
	if containsSym(x) || containsSym(y) {
		panic(unsupported("reflect.DeepEqual on symbolic values"))
	}
	switch tt := t.Underlying().(type) {
	case *types.Basic:
		return equals(t, x, y)
	case *types.Pointer:
		px, py := x.(*value), y.(*value)
		if px == nil || py == nil {
			return px == py
		}
		if px == py {
			return true
		}
		k := [2]*value{px, py}
		if seen[k] {
			return true
		}
		seen[k] = true
		return deepEqual(tt.Elem(), *px, *py, seen)
	case *types.Struct:
		sx, sy := x.(structure), y.(structure)
		for k := range sx {
			if !deepEqual(tt.Field(k).Type(), sx[k], sy[k], seen) {
				return false
			}
		}
		return true
	case *types.Array:
		ax, ay := x.(array), y.(array)
		for k := range ax {
			if !deepEqual(tt.Elem(), ax[k], ay[k], seen) {
				return false
			}
		}
		return true
	case *types.Slice:
		sx, sy := x.([]value), y.([]value)
		if (sx == nil) != (sy == nil) || len(sx) != len(sy) {
			return false
		}
		for k := range sx {
			if !deepEqual(tt.Elem(), sx[k], sy[k], seen) {
				return false
			}
		}
		return true
	case *types.Interface:
		ix, iy := x.(iface), y.(iface)
		if ix.t == nil || iy.t == nil {
			return ix.t == nil && iy.t == nil
		}
		if !types.Identical(ix.t, iy.t) {
			return false
		}
		return deepEqual(ix.t, ix.v, iy.v, seen)
	case *types.Map:
		mx, my := x.(*hashmap), y.(*hashmap)
		if (mx == nil) != (my == nil) || mx.len() != my.len() {
			return false
		}
		for _, e := range mx.live() {
			v := my.lookup(e.key)
			if v == nil || !deepEqual(tt.Elem(), e.value, v, seen) {
				return false
			}
		}
		return true
	case *types.Signature:
		return isNilFunc(x) && isNilFunc(y)
	case *types.Chan:
		return x.(*channel) == y.(*channel)
	}
	panic(unsupported("reflect.DeepEqual on %s", t))
}

func isNilFunc(v value) bool {
	switch f := v.(type) {
	case *ssa.Function:
		return f == nil
	case *closure:
		return f == nil
	}
	return false
}

// ---- sort.Slice family (bodies need reflectlite.Swapper): stable insertion sort

func init() {
	sortSlice := func(fr *frame, a []value) value {
		s, ok := a[0].(iface).v.([]value)
		if !ok {
			panic(unsupported("sort.Slice of %T", a[0].(iface).v))
		}
		less := a[1]
		i := fr.i
		for x := 1; x < len(s); x++ {
			for y := x; y > 0; y-- {
				if !fr.truth(call(i, fr, token.NoPos, less, []value{y, y - 1})) {
					break
				}
				i.logStore(&s[y])
				i.logStore(&s[y-1])
				s[y], s[y-1] = s[y-1], s[y]
			}
		}
		return nil
	}
	externals["sort.Slice"] = sortSlice
	externals["sort.SliceStable"] = sortSlice
	externals["sort.SliceIsSorted"] = func(fr *frame, a []value) value {
		s := a[0].(iface).v.([]value)
		for x := len(s) - 1; x > 0; x-- {
			if fr.truth(call(fr.i, fr, token.NoPos, a[1], []value{x, x - 1})) {
				return false
			}
		}
		return true
	}
}

func init() {
	// (*errors.joinError).Error builds its result with unsafe.String
	externals["(*errors.joinError).Error"] = func(fr *frame, a []value) value {
		p := fr.nilCheck(a[0].(*value))
		errs, _ := (*p).(structure)[0].([]value)
		var parts []string
		for _, e := range errs {
			parts = append(parts, fr.errorString(e.(iface)))
		}
		return strings.Join(parts, "\n")
	}
}
