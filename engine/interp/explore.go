package interp

// Path exploration by decision-prefix re-execution.

import (
	"fmt"
	"sort"
	"strconv"
	"strings"
	"sync"
	"time"
)

// engineAbort terminates the current path; it is never visible to the
// target program's recover().
//
// kinds: "assume" (assumption false / infeasible), "unsupported",
// "bound" (unwinding or decision bound exceeded), "internal",
// "stop" (path ended early after a recorded violation), "deadlock".
type engineAbort struct {
	kind string
	msg  string
}

func (e engineAbort) Error() string { return e.kind + ": " + e.msg }

func unsupported(format string, args ...any) engineAbort {
	return engineAbort{"unsupported", fmt.Sprintf(format, args...)}
}

// Decision is one entry of a path's decision sequence.
type Decision struct {
	V      int  `json:"v"`
	N      int  `json:"n"`                // number of alternatives (2 for branches)
	Forced bool `json:"forced,omitempty"` // only one alternative feasible
	Kind   string `json:"k,omitempty"`    // "br", "choice", "sched", "idx", ...
	Label  string `json:"l,omitempty"`
}

type symDecl struct {
	Name string // user-visible name (with #k suffix)
	smt  string // |name|
	Kind string // go kind name: bool,int,int64,...,float64
	w    int
}

// Violation is a failed obligation on one path.
type Violation struct {
	Kind      string            `json:"kind"` // assert, panic, deadlock, leak, race, frozen, taskpanic
	Label     string            `json:"label"`
	Site      string            `json:"site,omitempty"`
	Msg       string            `json:"msg,omitempty"`
	Values    map[string]string `json:"values"`
	Choices   map[string]int    `json:"choices"`
	Decisions []Decision        `json:"decisions"`
	Events    []string          `json:"events"`
}

// PathSummary describes one finished path.
type PathSummary struct {
	Decisions []Decision        `json:"decisions"`
	Outcome   string            `json:"outcome"` // ok, violation, assume, bound, unsupported, internal, deadlock
	Msg       string            `json:"msg,omitempty"`
	Events    []string          `json:"events,omitempty"`
	Reach     []string          `json:"reach,omitempty"`
	Values    map[string]string `json:"values,omitempty"`
	Choices   map[string]int    `json:"choices,omitempty"`
	Instrs    int               `json:"instrs"`
	Asserts   int               `json:"asserts"`
}

type Limits struct {
	MaxPaths     int
	MaxDecisions int // per path
	Unwind       int // per decision site per path
	MaxInstrs    int // per path
	TimeoutMs    int // per solver query
	SampleModels int // passing paths for which a model is extracted
	Preempt      int // preemption budget K
	TimeBudgetS  int // wall-clock budget for the whole exploration
}

// Explorer is shared by all workers of one harness run.
type Explorer struct {
	mu        sync.Mutex
	work      [][]Decision
	inflight  int
	cond      *sync.Cond
	Lim       Limits
	Paths     int
	Outcomes  map[string]int
	Viol      []Violation
	Samples   []PathSummary
	Inconcl   []string
	Reach     map[string]int
	Oblig     int
	Disch     int
	Instrs    int64
	Decisions int64
	Funcs     map[string]bool
	Stubs     map[string]bool
	stopped   bool
	passModels int
	okSeen    int
	start     time.Time
}

func NewExplorer(lim Limits) *Explorer {
	ex := &Explorer{Lim: lim, Outcomes: map[string]int{}, Reach: map[string]int{}, Funcs: map[string]bool{}, Stubs: map[string]bool{}}
	ex.cond = sync.NewCond(&ex.mu)
	ex.work = [][]Decision{nil}
	ex.start = time.Now()
	return ex
}

// next returns the next prefix to run, or ok=false when exploration is over.
func (ex *Explorer) next() (prefix []Decision, ok bool) {
	ex.mu.Lock()
	defer ex.mu.Unlock()
	for {
		if ex.stopped {
			return nil, false
		}
		if n := len(ex.work); n > 0 {
			if b := ex.Lim.TimeBudgetS; b > 0 && time.Since(ex.start) > time.Duration(b)*time.Second {
				ex.note("time bound reached: " + strconv.Itoa(b) + " s, " + strconv.Itoa(ex.Paths) + " paths explored, " + strconv.Itoa(n) + " prefixes left unexplored")
				ex.work = nil
				continue
			}
			if ex.Lim.MaxPaths > 0 && ex.Paths+ex.inflight >= ex.Lim.MaxPaths {
				ex.note("path bound reached: " + strconv.Itoa(ex.Lim.MaxPaths) + " paths explored, " + strconv.Itoa(n) + " prefixes left unexplored")
				ex.work = nil
				continue
			}
			prefix = ex.work[n-1]
			ex.work = ex.work[:n-1]
			ex.inflight++
			return prefix, true
		}
		if ex.inflight == 0 {
			ex.cond.Broadcast()
			return nil, false
		}
		ex.cond.Wait()
	}
}

func (ex *Explorer) note(s string) {
	for _, x := range ex.Inconcl {
		if x == s {
			return
		}
	}
	if len(ex.Inconcl) < 50 {
		ex.Inconcl = append(ex.Inconcl, s)
	}
}

func (ex *Explorer) push(prefix []Decision) {
	ex.mu.Lock()
	ex.work = append(ex.work, prefix)
	ex.cond.Signal()
	ex.mu.Unlock()
}

func (ex *Explorer) finish(ps *pathState, outcome, msg string) {
	ex.mu.Lock()
	defer ex.mu.Unlock()
	ex.inflight--
	ex.Paths++
	ex.Outcomes[outcome]++
	ex.Oblig += ps.oblig
	ex.Disch += ps.disch
	ex.Instrs += int64(ps.instrs)
	ex.Decisions += int64(len(ps.taken))
	for l := range ps.reach {
		ex.Reach[l]++
	}
	for f := range ps.funcs {
		ex.Funcs[f] = true
	}
	for f := range ps.stubs {
		ex.Stubs[f] = true
	}
	for _, s := range ps.inconcl {
		ex.note(s)
	}
	ex.Viol = append(ex.Viol, ps.viol...)
	switch outcome {
	case "ok", "violation", "assume":
	default:
		ex.note(outcome + ": " + msg)
	}
	if ps.summary != nil {
		ps.summary.Outcome = outcome
		ps.summary.Msg = msg
		ex.Samples = append(ex.Samples, *ps.summary)
	}
	ex.cond.Broadcast()
}

// pathState is the per-path state of one worker.
type pathState struct {
	ex      *Explorer
	sol     *Solver
	prefix  []Decision
	pos     int
	taken   []Decision
	pending []string
	decls   []symDecl
	names   map[string]int
	choices map[string]int
	events  []string
	reach   map[string]bool
	funcs   map[string]bool
	stubs   map[string]bool
	oblig   int
	disch   int
	instrs  int
	siteCnt map[string]int
	viol    []Violation
	inconcl []string
	summary *PathSummary
	nfresh  int
	floatToks []floatTok
}

func newPathState(ex *Explorer, sol *Solver, prefix []Decision) *pathState {
	return &pathState{ex: ex, sol: sol, prefix: prefix, names: map[string]int{}, choices: map[string]int{},
		reach: map[string]bool{}, funcs: map[string]bool{}, stubs: map[string]bool{}, siteCnt: map[string]int{}}
}

func (ps *pathState) emit(cmd string) { ps.pending = append(ps.pending, cmd) }

func (ps *pathState) flush() {
	for _, c := range ps.pending {
		ps.sol.Send(c)
	}
	ps.pending = ps.pending[:0]
}

func (ps *pathState) assertTerm(t Term) {
	if t.s == "true" {
		return
	}
	ps.emit("(assert " + t.s + ")")
}

// uniqueName appends #k to repeated names.
func (ps *pathState) uniqueName(name string) string {
	n := ps.names[name]
	ps.names[name] = n + 1
	if n == 0 {
		return name
	}
	return name + "#" + strconv.Itoa(n)
}

func smtQuote(name string) string {
	return "|" + strings.NewReplacer("|", "_", "\\", "_").Replace(name) + "|"
}

// fresh declares a new symbolic constant and returns its term.
func (ps *pathState) fresh(name string, kindName string, w int) Term {
	name = ps.uniqueName(name)
	q := smtQuote(name)
	if w < 0 {
		// floats are declared through their bit pattern so that models are bit-exact
		bw := -w
		ps.emit(fmt.Sprintf("(declare-const %s (_ BitVec %d))", q, bw))
		ps.decls = append(ps.decls, symDecl{Name: name, smt: q, Kind: kindName, w: bw})
		eb, sb := 11, 53
		if bw == 32 {
			eb, sb = 8, 24
		}
		return Term{fmt.Sprintf("((_ to_fp %d %d) %s)", eb, sb, q), w}
	}
	ps.emit(fmt.Sprintf("(declare-const %s %s)", q, sortString(w)))
	ps.decls = append(ps.decls, symDecl{Name: name, smt: q, Kind: kindName, w: w})
	return Term{q, w}
}

// define names a large term to keep the text sent to the solver small.
func (ps *pathState) define(t Term) Term {
	if len(t.s) < 256 {
		return t
	}
	ps.nfresh++
	n := fmt.Sprintf("|$t%d|", ps.nfresh)
	ps.emit(fmt.Sprintf("(define-fun %s () %s %s)", n, sortString(t.w), t.s))
	return Term{n, t.w}
}

func (ps *pathState) checkWith(t Term) string {
	ps.flush()
	ps.sol.Push()
	ps.sol.Send("(assert " + t.s + ")")
	r := ps.sol.Check()
	ps.sol.Pop()
	return r
}

func (ps *pathState) record(d Decision) {
	ps.taken = append(ps.taken, d)
	if ps.ex.Lim.MaxDecisions > 0 && len(ps.taken) > ps.ex.Lim.MaxDecisions {
		panic(engineAbort{"bound", fmt.Sprintf("more than %d decisions on one path", ps.ex.Lim.MaxDecisions)})
	}
}

func (ps *pathState) siteBound(site string) {
	if site == "" {
		return
	}
	ps.siteCnt[site]++
	if u := ps.ex.Lim.Unwind; u > 0 && ps.siteCnt[site] > u {
		panic(engineAbort{"bound", fmt.Sprintf("unwinding assertion: site %s decided more than %d times on one path", site, u)})
	}
}

// branch decides a symbolic condition.
func (ps *pathState) branch(c Term, site string) bool {
	if c.w != 0 {
		panic(engineAbort{"internal", "branch on non-bool term " + c.s})
	}
	switch c.s {
	case "true":
		return true
	case "false":
		return false
	}
	if ps.pos < len(ps.prefix) {
		d := ps.prefix[ps.pos]
		ps.pos++
		ps.record(d)
		if !d.Forced {
			if d.V == 1 {
				ps.assertTerm(c)
			} else {
				ps.assertTerm(tNot(c))
			}
		}
		return d.V == 1
	}
	ps.siteBound(site)
	c = ps.define(c)
	rt := ps.checkWith(c)
	rf := ps.checkWith(tNot(c))
	if rt == "unknown" || rf == "unknown" {
		ps.inconcl = append(ps.inconcl, "solver answered unknown for a branch feasibility query at "+site+" (both sides kept)")
	}
	tf, ff := rt != "unsat", rf != "unsat"
	switch {
	case tf && ff:
		alt := append(append([]Decision{}, ps.taken...), Decision{V: 0, N: 2, Kind: "br", Label: site})
		ps.ex.push(alt)
		ps.record(Decision{V: 1, N: 2, Kind: "br", Label: site})
		ps.pos++
		ps.assertTerm(c)
		return true
	case tf:
		ps.record(Decision{V: 1, N: 2, Forced: true, Kind: "br", Label: site})
		ps.pos++
		return true
	case ff:
		ps.record(Decision{V: 0, N: 2, Forced: true, Kind: "br", Label: site})
		ps.pos++
		return false
	}
	panic(engineAbort{"assume", "path condition became infeasible at " + site})
}

// choose makes an n-way concrete decision (no solver involved).
func (ps *pathState) choose(n int, kind, label string) int {
	if n <= 1 {
		return 0
	}
	if ps.pos < len(ps.prefix) {
		d := ps.prefix[ps.pos]
		ps.pos++
		if d.N != n {
			panic(engineAbort{"internal", fmt.Sprintf("replay divergence at decision %d (%s %s): recorded %d alternatives (%s %s), now %d", ps.pos-1, kind, label, d.N, d.Kind, d.Label, n)})
		}
		ps.record(d)
		return d.V
	}
	ps.siteBound(kind + ":" + label)
	for v := n - 1; v >= 1; v-- {
		alt := append(append([]Decision{}, ps.taken...), Decision{V: v, N: n, Kind: kind, Label: label})
		ps.ex.push(alt)
	}
	ps.record(Decision{V: 0, N: n, Kind: kind, Label: label})
	ps.pos++
	return 0
}

// model extracts values of all declared symbols under the current path
// condition plus extra; ok=false if not sat.
func (ps *pathState) model(extra *Term) (map[string]string, string) {
	ps.flush()
	ps.sol.Push()
	defer ps.sol.Pop()
	if extra != nil {
		ps.sol.Send("(assert " + extra.s + ")")
	}
	r := ps.sol.Check()
	if r != "sat" {
		return nil, r
	}
	names := make([]string, len(ps.decls))
	for i, d := range ps.decls {
		names[i] = d.smt
	}
	raw := ps.sol.GetValues(names)
	vals := map[string]string{}
	for _, d := range ps.decls {
		v, ok := raw[d.smt]
		if !ok {
			continue
		}
		vals[d.Name] = smtValueToDecimal(v)
	}
	return vals, r
}

// smtValueToDecimal turns #x.., #b.., (_ bvN w), true/false into a decimal string.
func smtValueToDecimal(v string) string {
	v = strings.TrimSpace(v)
	switch {
	case v == "true":
		return "1"
	case v == "false":
		return "0"
	case strings.HasPrefix(v, "#x"):
		n, _ := strconv.ParseUint(v[2:], 16, 64)
		return strconv.FormatUint(n, 10)
	case strings.HasPrefix(v, "#b"):
		n, _ := strconv.ParseUint(v[2:], 2, 64)
		return strconv.FormatUint(n, 10)
	case strings.HasPrefix(v, "( _ bv") || strings.HasPrefix(v, "(_ bv"):
		f := strings.Fields(strings.Trim(v, "() "))
		for _, x := range f {
			if strings.HasPrefix(x, "bv") {
				return x[2:]
			}
		}
	}
	return v
}

func (ps *pathState) choicesCopy() map[string]int {
	m := map[string]int{}
	for k, v := range ps.choices {
		m[k] = v
	}
	return m
}

func (ps *pathState) violation(kind, label, site, msg string, cond *Term) {
	vals, r := ps.model(cond)
	if r != "sat" && r != "" {
		if r == "unsat" {
			return // not reachable after all
		}
		ps.inconcl = append(ps.inconcl, "solver answered "+r+" when asked for a model of violation "+label)
		vals = map[string]string{}
	}
	ps.viol = append(ps.viol, Violation{Kind: kind, Label: label, Site: site, Msg: msg, Values: vals,
		Choices: ps.choicesCopy(), Decisions: append([]Decision{}, ps.taken...), Events: append([]string{}, ps.events...)})
}

// assert discharges an obligation: PC ∧ ¬c must be unsat.
func (ps *pathState) assert(c Term, label, site string) {
	ps.oblig++
	switch c.s {
	case "true":
		ps.disch++
		return
	case "false":
		t := boolLit(true)
		ps.violation("assert", label, site, "", &t)
		panic(engineAbort{"stop", "assertion failed: " + label})
	}
	c = ps.define(c)
	neg := tNot(c)
	r := ps.checkWith(neg)
	switch r {
	case "unsat":
		ps.disch++
	case "sat":
		ps.violation("assert", label, site, "", &neg)
		panic(engineAbort{"stop", "assertion failed: " + label})
	default:
		ps.inconcl = append(ps.inconcl, "solver answered unknown for assertion "+label)
		ps.assertTerm(c)
	}
}

func (ps *pathState) assume(c Term, site string) {
	switch c.s {
	case "true":
		return
	case "false":
		panic(engineAbort{"assume", "assumption false at " + site})
	}
	ps.assertTerm(c)
	ps.flush()
	if r := ps.sol.Check(); r == "unsat" {
		panic(engineAbort{"assume", "assumption unsatisfiable at " + site})
	}
}

func sortedKeys[M ~map[string]V, V any](m M) []string {
	ks := make([]string, 0, len(m))
	for k := range m {
		ks = append(ks, k)
	}
	sort.Strings(ks)
	return ks
}
