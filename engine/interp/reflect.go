// Copyright 2013 The Go Authors. All rights reserved.
// Use of this source code is governed by a BSD-style
// license that can be found in the LICENSE file.

package interp

// Emulated "reflect" package.
//
// We completely replace the built-in "reflect" package.
// The only thing clients can depend upon are that reflect.Type is an
// interface and reflect.Value is an (opaque) struct.

import (
	"fmt"
	"go/token"
	"go/types"
	"reflect"
	"sync"
	"unsafe"

	"golang.org/x/tools/go/ssa"
)

type opaqueType struct {
	types.Type
	name string
}

func (t *opaqueType) String() string { return t.name }

// A bogus "reflect" type-checker package.  Shared across interpreters.
var reflectTypesPackage = types.NewPackage("reflect", "reflect")

// rtype is the concrete type the interpreter uses to implement the
// reflect.Type interface.
//
// type rtype <opaque>
var rtypeType = makeNamedType("rtype", &opaqueType{nil, "rtype"})

// error is an (interpreted) named type whose underlying type is string.
// The interpreter uses it for all implementations of the built-in error
// interface that it creates.
// We put it in the "reflect" package for expedience.
//
// type error string
var errorType = makeNamedType("error", &opaqueType{nil, "error"})

func makeNamedType(name string, underlying types.Type) *types.Named {
	obj := types.NewTypeName(token.NoPos, reflectTypesPackage, name, nil)
	return types.NewNamed(obj, underlying, nil)
}

func makeReflectValue(t types.Type, v value) value {
	return structure{rtype{t}, v}
}

// Given a reflect.Value, returns its rtype.
func rV2T(v value) rtype {
	return v.(structure)[0].(rtype)
}

// Given a reflect.Value, returns the underlying interpreter value.
func rV2V(v value) value {
	return v.(structure)[1]
}

// makeReflectType boxes up an rtype in a reflect.Type interface.
func makeReflectType(rt rtype) value {
	return iface{rtypeType, rt}
}

func ext۰reflect۰rtype۰Bits(fr *frame, args []value) value {
	// Signature: func (t reflect.rtype) int
	rt := args[0].(rtype).t
	basic, ok := rt.Underlying().(*types.Basic)
	if !ok {
		panic(fmt.Sprintf("reflect.Type.Bits(%T): non-basic type", rt))
	}
	return int(fr.i.sizes.Sizeof(basic)) * 8
}

func ext۰reflect۰rtype۰Elem(fr *frame, args []value) value {
	// Signature: func (t reflect.rtype) reflect.Type
	return makeReflectType(rtype{args[0].(rtype).t.Underlying().(interface {
		Elem() types.Type
	}).Elem()})
}

func ext۰reflect۰rtype۰Field(fr *frame, args []value) value {
	// Signature: func (t reflect.rtype, i int) reflect.StructField
	st := args[0].(rtype).t.Underlying().(*types.Struct)
	i := args[1].(int)
	f := st.Field(i)
	return structure{
		f.Name(),
		f.Pkg().Path(),
		makeReflectType(rtype{f.Type()}),
		st.Tag(i),
		0,         // TODO(adonovan): offset
		[]value{}, // TODO(adonovan): indices
		f.Anonymous(),
	}
}

func ext۰reflect۰rtype۰In(fr *frame, args []value) value {
	// Signature: func (t reflect.rtype, i int) int
	i := args[1].(int)
	return makeReflectType(rtype{args[0].(rtype).t.(*types.Signature).Params().At(i).Type()})
}

func ext۰reflect۰rtype۰Kind(fr *frame, args []value) value {
	// Signature: func (t reflect.rtype) uint
	return uint(reflectKind(args[0].(rtype).t))
}

func ext۰reflect۰rtype۰NumField(fr *frame, args []value) value {
	// Signature: func (t reflect.rtype) int
	return args[0].(rtype).t.Underlying().(*types.Struct).NumFields()
}

func ext۰reflect۰rtype۰NumIn(fr *frame, args []value) value {
	// Signature: func (t reflect.rtype) int
	return args[0].(rtype).t.Underlying().(*types.Signature).Params().Len()
}

func ext۰reflect۰rtype۰NumMethod(fr *frame, args []value) value {
	// Signature: func (t reflect.rtype) int
	return fr.i.prog.MethodSets.MethodSet(args[0].(rtype).t).Len()
}

func ext۰reflect۰rtype۰NumOut(fr *frame, args []value) value {
	// Signature: func (t reflect.rtype) int
	return args[0].(rtype).t.Underlying().(*types.Signature).Results().Len()
}

func ext۰reflect۰rtype۰Out(fr *frame, args []value) value {
	// Signature: func (t reflect.rtype, i int) int
	i := args[1].(int)
	return makeReflectType(rtype{args[0].(rtype).t.Underlying().(*types.Signature).Results().At(i).Type()})
}

func ext۰reflect۰rtype۰Size(fr *frame, args []value) value {
	// Signature: func (t reflect.rtype) uintptr
	return uintptr(fr.i.sizes.Sizeof(args[0].(rtype).t))
}

func ext۰reflect۰rtype۰String(fr *frame, args []value) value {
	// Signature: func (t reflect.rtype) string
	return args[0].(rtype).t.String()
}

func ext۰reflect۰New(fr *frame, args []value) value {
	// Signature: func (t reflect.Type) reflect.Value
	t := args[0].(iface).v.(rtype).t
	alloc := zero(t)
	return makeReflectValue(types.NewPointer(t), &alloc)
}

func ext۰reflect۰SliceOf(fr *frame, args []value) value {
	// Signature: func (t reflect.rtype) Type
	return makeReflectType(rtype{types.NewSlice(args[0].(iface).v.(rtype).t)})
}

func ext۰reflect۰TypeOf(fr *frame, args []value) value {
	// Signature: func (t reflect.rtype) Type
	return makeReflectType(rtype{args[0].(iface).t})
}

func ext۰reflect۰ValueOf(fr *frame, args []value) value {
	// Signature: func (interface{}) reflect.Value
	itf := args[0].(iface)
	return makeReflectValue(itf.t, itf.v)
}

func ext۰reflect۰Zero(fr *frame, args []value) value {
	// Signature: func (t reflect.Type) reflect.Value
	t := args[0].(iface).v.(rtype).t
	return makeReflectValue(t, zero(t))
}

func reflectKind(t types.Type) reflect.Kind {
	switch t := t.(type) {
	case *types.Named, *types.Alias:
		return reflectKind(t.Underlying())
	case *types.Basic:
		switch t.Kind() {
		case types.Bool:
			return reflect.Bool
		case types.Int:
			return reflect.Int
		case types.Int8:
			return reflect.Int8
		case types.Int16:
			return reflect.Int16
		case types.Int32:
			return reflect.Int32
		case types.Int64:
			return reflect.Int64
		case types.Uint:
			return reflect.Uint
		case types.Uint8:
			return reflect.Uint8
		case types.Uint16:
			return reflect.Uint16
		case types.Uint32:
			return reflect.Uint32
		case types.Uint64:
			return reflect.Uint64
		case types.Uintptr:
			return reflect.Uintptr
		case types.Float32:
			return reflect.Float32
		case types.Float64:
			return reflect.Float64
		case types.Complex64:
			return reflect.Complex64
		case types.Complex128:
			return reflect.Complex128
		case types.String:
			return reflect.String
		case types.UnsafePointer:
			return reflect.UnsafePointer
		}
	case *types.Array:
		return reflect.Array
	case *types.Chan:
		return reflect.Chan
	case *types.Signature:
		return reflect.Func
	case *types.Interface:
		return reflect.Interface
	case *types.Map:
		return reflect.Map
	case *types.Pointer:
		return reflect.Pointer
	case *types.Slice:
		return reflect.Slice
	case *types.Struct:
		return reflect.Struct
	}
	panic(fmt.Sprint("unexpected type: ", t))
}

func ext۰reflect۰Value۰Kind(fr *frame, args []value) value {
	// Signature: func (reflect.Value) uint
	return uint(reflectKind(rV2T(args[0]).t))
}

func ext۰reflect۰Value۰String(fr *frame, args []value) value {
	// Signature: func (reflect.Value) string
	return toString(rV2V(args[0]))
}

func ext۰reflect۰Value۰Type(fr *frame, args []value) value {
	// Signature: func (reflect.Value) reflect.Type
	return makeReflectType(rV2T(args[0]))
}

func ext۰reflect۰Value۰Uint(fr *frame, args []value) value {
	// Signature: func (reflect.Value) uint64
	switch v := rV2V(args[0]).(type) {
	case uint:
		return uint64(v)
	case uint8:
		return uint64(v)
	case uint16:
		return uint64(v)
	case uint32:
		return uint64(v)
	case uint64:
		return uint64(v)
	case uintptr:
		return uint64(v)
	}
	panic("reflect.Value.Uint")
}

func ext۰reflect۰Value۰Len(fr *frame, args []value) value {
	// Signature: func (reflect.Value) int
	switch v := rV2V(args[0]).(type) {
	case string:
		return len(v)
	case array:
		return len(v)
	case *channel:
		return len(v.buf)
	case []value:
		return len(v)
	case *hashmap:
		return v.len()
	case *symStr:
		return len(v.b)
	default:
		panic(fmt.Sprintf("reflect.(Value).Len(%v)", v))
	}
}

func ext۰reflect۰Value۰MapIndex(fr *frame, args []value) value {
	// Signature: func (reflect.Value) Value
	tValue := rV2T(args[0]).t.Underlying().(*types.Map).Elem()
	k := rV2V(args[1])
	switch m := rV2V(args[0]).(type) {
	case *hashmap:
		if v := m.lookup(k); v != nil {
			return makeReflectValue(tValue, v)
		}

	default:
		panic(fmt.Sprintf("(reflect.Value).MapIndex(%T, %T)", m, k))
	}
	return makeReflectValue(nil, nil)
}

func ext۰reflect۰Value۰MapKeys(fr *frame, args []value) value {
	// Signature: func (reflect.Value) []Value
	var keys []value
	tKey := rV2T(args[0]).t.Underlying().(*types.Map).Key()
	switch v := rV2V(args[0]).(type) {
	case *hashmap:
		for _, e := range v.live() {
			keys = append(keys, makeReflectValue(tKey, e.key))
		}

	default:
		panic(fmt.Sprintf("(reflect.Value).MapKeys(%T)", v))
	}
	return keys
}

func ext۰reflect۰Value۰NumField(fr *frame, args []value) value {
	// Signature: func (reflect.Value) int
	return len(rV2V(args[0]).(structure))
}

func ext۰reflect۰Value۰NumMethod(fr *frame, args []value) value {
	// Signature: func (reflect.Value) int
	return fr.i.prog.MethodSets.MethodSet(rV2T(args[0]).t).Len()
}

func ext۰reflect۰Value۰Pointer(fr *frame, args []value) value {
	// Signature: func (v reflect.Value) uintptr
	switch v := rV2V(args[0]).(type) {
	case *value:
		return uintptr(unsafe.Pointer(v))
	case *channel:
		return uintptr(unsafe.Pointer(v))
	case []value:
		return reflect.ValueOf(v).Pointer()
	case *hashmap:
		return uintptr(unsafe.Pointer(v))
	case *ssa.Function:
		return uintptr(unsafe.Pointer(v))
	case *closure:
		return uintptr(unsafe.Pointer(v))
	default:
		panic(fmt.Sprintf("reflect.(Value).Pointer(%T)", v))
	}
}

func ext۰reflect۰Value۰Index(fr *frame, args []value) value {
	// Signature: func (v reflect.Value, i int) Value
	i := args[1].(int)
	t := rV2T(args[0]).t.Underlying()
	switch v := rV2V(args[0]).(type) {
	case array:
		return makeReflectValue(t.(*types.Array).Elem(), v[i])
	case []value:
		return makeReflectValue(t.(*types.Slice).Elem(), v[i])
	default:
		panic(fmt.Sprintf("reflect.(Value).Index(%T)", v))
	}
}

func ext۰reflect۰Value۰Bool(fr *frame, args []value) value {
	// Signature: func (reflect.Value) bool
	return rV2V(args[0]).(bool)
}

func ext۰reflect۰Value۰CanAddr(fr *frame, args []value) value {
	// Signature: func (v reflect.Value) bool
	// Always false for our representation.
	return false
}

func ext۰reflect۰Value۰CanInterface(fr *frame, args []value) value {
	// Signature: func (v reflect.Value) bool
	// Always true for our representation.
	return true
}

func ext۰reflect۰Value۰Elem(fr *frame, args []value) value {
	// Signature: func (v reflect.Value) reflect.Value
	switch x := rV2V(args[0]).(type) {
	case iface:
		return makeReflectValue(x.t, x.v)
	case *value:
		var v value
		if x != nil {
			v = *x
		}
		return makeReflectValue(rV2T(args[0]).t.Underlying().(*types.Pointer).Elem(), v)
	default:
		panic(fmt.Sprintf("reflect.(Value).Elem(%T)", x))
	}
}

func ext۰reflect۰Value۰Field(fr *frame, args []value) value {
	// Signature: func (v reflect.Value, i int) reflect.Value
	v := args[0]
	i := args[1].(int)
	return makeReflectValue(rV2T(v).t.Underlying().(*types.Struct).Field(i).Type(), rV2V(v).(structure)[i])
}

func ext۰reflect۰Value۰Float(fr *frame, args []value) value {
	// Signature: func (reflect.Value) float64
	switch v := rV2V(args[0]).(type) {
	case float32:
		return float64(v)
	case float64:
		return float64(v)
	}
	panic("reflect.Value.Float")
}

func ext۰reflect۰Value۰Interface(fr *frame, args []value) value {
	// Signature: func (v reflect.Value) interface{}
	return ext۰reflect۰valueInterface(fr, args)
}

func ext۰reflect۰Value۰Int(fr *frame, args []value) value {
	// Signature: func (reflect.Value) int64
	switch x := rV2V(args[0]).(type) {
	case int:
		return int64(x)
	case int8:
		return int64(x)
	case int16:
		return int64(x)
	case int32:
		return int64(x)
	case int64:
		return x
	default:
		panic(fmt.Sprintf("reflect.(Value).Int(%T)", x))
	}
}

func ext۰reflect۰Value۰IsNil(fr *frame, args []value) value {
	// Signature: func (reflect.Value) bool
	switch x := rV2V(args[0]).(type) {
	case *value:
		return x == nil
	case *channel:
		return x == nil
	case *hashmap:
		return x == nil
	case iface:
		return x.t == nil
	case []value:
		return x == nil
	case *ssa.Function:
		return x == nil
	case *ssa.Builtin:
		return x == nil
	case *closure:
		return x == nil
	default:
		panic(fmt.Sprintf("reflect.(Value).IsNil(%T)", x))
	}
}

func ext۰reflect۰Value۰IsValid(fr *frame, args []value) value {
	// Signature: func (reflect.Value) bool
	return rV2V(args[0]) != nil
}

func ext۰reflect۰Value۰Set(fr *frame, args []value) value {
	// TODO(adonovan): implement.
	return nil
}

func ext۰reflect۰valueInterface(fr *frame, args []value) value {
	// Signature: func (v reflect.Value, safe bool) interface{}
	v := args[0].(structure)
	return iface{rV2T(v).t, rV2V(v)}
}

func ext۰reflect۰error۰Error(fr *frame, args []value) value {
	return args[0]
}

// newMethod creates a new method of the specified name, package and receiver type.
func newMethod(pkg *ssa.Package, recvType types.Type, name string) *ssa.Function {
	// TODO(adonovan): fix: hack: currently the only part of Signature
	// that is needed is the "pointerness" of Recv.Type, and for
	// now, we'll set it to always be false since we're only
	// concerned with rtype.  Encapsulate this better.
	sig := types.NewSignatureType(types.NewParam(token.NoPos, nil, "recv", recvType), nil, nil, nil, nil, false)
	fn := pkg.Prog.NewFunction(name, sig, "fake reflect method")
	fn.Pkg = pkg
	return fn
}

type reflectShared struct {
	pkg          *ssa.Package
	rtypeMethods methodSet
	errorMethods methodSet
}

var (
	reflectMu     sync.Mutex
	reflectByProg = map[*ssa.Program]*reflectShared{}
)

func initReflect(i *interpreter) {
	reflectMu.Lock()
	defer reflectMu.Unlock()
	if sh := reflectByProg[i.prog]; sh != nil {
		i.reflectPackage, i.rtypeMethods, i.errorMethods = sh.pkg, sh.rtypeMethods, sh.errorMethods
		return
	}
	defer func() {
		reflectByProg[i.prog] = &reflectShared{i.reflectPackage, i.rtypeMethods, i.errorMethods}
	}()
	i.reflectPackage = &ssa.Package{
		Prog:    i.prog,
		Pkg:     reflectTypesPackage,
		Members: make(map[string]ssa.Member),
	}

	// Clobber the type-checker's notion of reflect.Value's
	// underlying type so that it more closely matches the fake one
	// (at least in the number of fields---we lie about the type of
	// the rtype field).
	//
	// We must ensure that calls to (ssa.Value).Type() return the
	// fake type so that correct "shape" is used when allocating
	// variables, making zero values, loading, and storing.
	//
	// TODO(adonovan): obviously this is a hack.  We need a cleaner
	// way to fake the reflect package (almost---DeepEqual is fine).
	// One approach would be not to even load its source code, but
	// provide fake source files.  This would guarantee that no bad
	// information leaks into other packages.
	if r := i.prog.ImportedPackage("reflect"); r != nil {
		rV := r.Pkg.Scope().Lookup("Value").Type().(*types.Named)

		// delete bodies of the old methods
		mset := i.prog.MethodSets.MethodSet(rV)
		for j := 0; j < mset.Len(); j++ {
			i.prog.MethodValue(mset.At(j)).Blocks = nil
		}

		tEface := types.NewInterface(nil, nil).Complete()
		rV.SetUnderlying(types.NewStruct([]*types.Var{
			types.NewField(token.NoPos, r.Pkg, "t", tEface, false), // a lie
			types.NewField(token.NoPos, r.Pkg, "v", tEface, false),
		}, nil))
	}

	i.rtypeMethods = methodSet{
		"Bits":      newMethod(i.reflectPackage, rtypeType, "Bits"),
		"Elem":      newMethod(i.reflectPackage, rtypeType, "Elem"),
		"Field":     newMethod(i.reflectPackage, rtypeType, "Field"),
		"In":        newMethod(i.reflectPackage, rtypeType, "In"),
		"Kind":      newMethod(i.reflectPackage, rtypeType, "Kind"),
		"NumField":  newMethod(i.reflectPackage, rtypeType, "NumField"),
		"NumIn":     newMethod(i.reflectPackage, rtypeType, "NumIn"),
		"NumMethod": newMethod(i.reflectPackage, rtypeType, "NumMethod"),
		"NumOut":    newMethod(i.reflectPackage, rtypeType, "NumOut"),
		"Out":       newMethod(i.reflectPackage, rtypeType, "Out"),
		"Size":      newMethod(i.reflectPackage, rtypeType, "Size"),
		"String":    newMethod(i.reflectPackage, rtypeType, "String"),
	}
	i.errorMethods = methodSet{
		"Error": newMethod(i.reflectPackage, errorType, "Error"),
	}
}

func ext۰reflect۰Value۰Bytes(fr *frame, args []value) value {
	// Signature: func (reflect.Value) []byte
	switch v := rV2V(args[0]).(type) {
	case []value:
		return v
	case array:
		return []value(v)
	default:
		panic(fmt.Sprintf("reflect.(Value).Bytes(%T)", v))
	}
}

func init() {
	externals["(reflect.Value).Bytes"] = ext۰reflect۰Value۰Bytes
}

func ext۰reflect۰Value۰SetMapIndex(fr *frame, args []value) value {
	// Signature: func (v reflect.Value, key, elem reflect.Value)
	m, ok := rV2V(args[0]).(*hashmap)
	if !ok || m == nil {
		panic(fr.i.rtPanic("assignment to entry in nil map"))
	}
	k := fr.mapKey(rV2V(args[1]))
	if es, isStruct := args[2].(structure); isStruct && es[0].(rtype).t == nil {
		// the zero Value deletes the key
		fr.i.mapDelete(m, k)
		return nil
	}
	fr.i.mapInsert(m, k, reflectStore(rV2T(args[0]).t.Underlying().(*types.Map).Elem(), args[2]))
	return nil
}

// reflectStore is the interpreter value to store for reflect.Value v into a
// location of static type t (interface locations hold iface values).
func reflectStore(t types.Type, v value) value {
	raw := rV2V(v)
	if types.IsInterface(t) {
		if itf, already := raw.(iface); already {
			return itf
		}
		return iface{t: rV2T(v).t, v: raw}
	}
	return raw
}

func ext۰reflect۰MakeSlice(fr *frame, args []value) value {
	// Signature: func (typ reflect.Type, len, cap int) reflect.Value
	t := args[0].(iface).v.(rtype).t
	n, c := args[1].(int), args[2].(int)
	s := make([]value, n, c)
	for k := range s {
		s[k] = zero(t.Underlying().(*types.Slice).Elem())
	}
	return makeReflectValue(t, s)
}

func ext۰reflect۰Append(fr *frame, args []value) value {
	// Signature: func (s reflect.Value, x ...reflect.Value) reflect.Value
	t := rV2T(args[0]).t
	elem := t.Underlying().(*types.Slice).Elem()
	old, _ := rV2V(args[0]).([]value)
	r := make([]value, len(old), len(old)+len(args[1].([]value)))
	copy(r, old)
	for _, x := range args[1].([]value) {
		r = append(r, reflectStore(elem, x))
	}
	return makeReflectValue(t, r)
}

func init() {
	externals["(reflect.Value).SetMapIndex"] = ext۰reflect۰Value۰SetMapIndex
	externals["reflect.MakeSlice"] = ext۰reflect۰MakeSlice
	externals["reflect.Append"] = ext۰reflect۰Append
}
