package interp

// Symbolic versions of the scalar operators.

import (
	"fmt"
	"go/token"
	"go/types"
)

func isSym(x value) bool {
	_, ok := x.(*SymVal)
	return ok
}

// symKind returns the basic kind shared by x and y (one may be concrete).
func symKindOf(x value) types.BasicKind {
	if s, ok := x.(*SymVal); ok {
		return s.k
	}
	if k, ok := kindOfValue(x); ok {
		return k
	}
	panic(unsupported("symKindOf %T", x))
}

var bvOps = map[token.Token]string{
	token.ADD: "bvadd", token.SUB: "bvsub", token.MUL: "bvmul",
	token.AND: "bvand", token.OR: "bvor", token.XOR: "bvxor",
}

var fpOps = map[token.Token]string{
	token.ADD: "fp.add RNE", token.SUB: "fp.sub RNE", token.MUL: "fp.mul RNE", token.QUO: "fp.div RNE",
}

// symBinop implements binary operators when at least one operand is a *SymVal.
func (fr *frame) symBinop(op token.Token, x, y value) value {
	ps := fr.i.ps
	k := symKindOf(x)
	w := kindWidth(k)
	signed := kindSigned(k)
	a := lift(x)

	// shifts: y has its own type
	if op == token.SHL || op == token.SHR {
		yk := symKindOf(y)
		b := lift(y)
		if kindSigned(yk) {
			// negative shift count panics
			if ys, ok := y.(*SymVal); ok {
				neg := app(0, "bvslt", ys.t, bvLit(0, ys.t.w))
				if ps.branch(neg, fr.site()) {
					panic(fr.i.rtPanic("negative shift amount"))
				}
			}
		}
		// bring count to width w without losing "too large"
		var cnt Term
		switch {
		case b.w == w:
			cnt = b
		case b.w < w:
			cnt = resize(b, false, w)
		default:
			big := app(0, "bvuge", b, bvLit(uint64(w), b.w))
			cnt = tIte(big, bvLit(uint64(w), w), resize(b, false, w))
		}
		if w <= 0 {
			panic(unsupported("shift of non-integer"))
		}
		var r Term
		if op == token.SHL {
			r = app(w, "bvshl", a, cnt)
		} else if signed {
			r = app(w, "bvashr", a, cnt)
		} else {
			r = app(w, "bvlshr", a, cnt)
		}
		return mkSym(k, ps.define(r))
	}

	b := lift(y)
	if a.w != b.w {
		panic(engineAbort{"internal", fmt.Sprintf("symBinop %s: width mismatch %d vs %d", op, a.w, b.w)})
	}

	if w == 0 { // bools
		switch op {
		case token.EQL:
			return mkSym(types.Bool, tEq(a, b))
		case token.NEQ:
			return mkSym(types.Bool, tNot(tEq(a, b)))
		}
		panic(unsupported("bool op %s", op))
	}

	if w < 0 { // floats
		switch op {
		case token.ADD, token.SUB, token.MUL, token.QUO:
			return mkSym(k, ps.define(app(w, fpOps[op], a, b)))
		case token.EQL:
			return mkSym(types.Bool, app(0, "fp.eq", a, b))
		case token.NEQ:
			return mkSym(types.Bool, tNot(app(0, "fp.eq", a, b)))
		case token.LSS:
			return mkSym(types.Bool, app(0, "fp.lt", a, b))
		case token.LEQ:
			return mkSym(types.Bool, app(0, "fp.leq", a, b))
		case token.GTR:
			return mkSym(types.Bool, app(0, "fp.gt", a, b))
		case token.GEQ:
			return mkSym(types.Bool, app(0, "fp.geq", a, b))
		}
		panic(unsupported("float op %s", op))
	}

	switch op {
	case token.ADD, token.SUB, token.MUL, token.AND, token.OR, token.XOR:
		return mkSym(k, ps.define(app(w, bvOps[op], a, b)))
	case token.AND_NOT:
		return mkSym(k, ps.define(app(w, "bvand", a, app(w, "bvnot", b))))
	case token.QUO, token.REM:
		if _, ok := y.(*SymVal); ok {
			if ps.branch(tEq(b, bvLit(0, w)), fr.site()) {
				panic(fr.i.rtPanic("integer divide by zero"))
			}
		} else if asInt64(y) == 0 {
			panic(fr.i.rtPanic("integer divide by zero"))
		}
		var o string
		switch {
		case op == token.QUO && signed:
			o = "bvsdiv"
		case op == token.QUO:
			o = "bvudiv"
		case signed:
			o = "bvsrem"
		default:
			o = "bvurem"
		}
		return mkSym(k, ps.define(app(w, o, a, b)))
	case token.EQL:
		return mkSym(types.Bool, tEq(a, b))
	case token.NEQ:
		return mkSym(types.Bool, tNot(tEq(a, b)))
	case token.LSS, token.LEQ, token.GTR, token.GEQ:
		var o string
		switch op {
		case token.LSS:
			o = "lt"
		case token.LEQ:
			o = "le"
		case token.GTR:
			o = "gt"
		case token.GEQ:
			o = "ge"
		}
		if signed {
			o = "bvs" + o
		} else {
			o = "bvu" + o
		}
		return mkSym(types.Bool, app(0, o, a, b))
	}
	panic(unsupported("symbolic binop %s", op))
}

func (fr *frame) symUnop(op token.Token, x *SymVal) value {
	w := x.t.w
	switch op {
	case token.NOT:
		return mkSym(types.Bool, tNot(x.t))
	case token.SUB:
		if w < 0 {
			return mkSym(x.k, app(w, "fp.neg", x.t))
		}
		return mkSym(x.k, app(w, "bvneg", x.t))
	case token.XOR:
		return mkSym(x.k, app(w, "bvnot", x.t))
	}
	panic(unsupported("symbolic unop %s", op))
}

func fpParams(w int) (int, int) {
	if w == -32 {
		return 8, 24
	}
	return 11, 53
}

// symConv converts symbolic scalar x to basic type dst.
func (fr *frame) symConv(tdst types.Type, x *SymVal) value {
	ps := fr.i.ps
	db, ok := tdst.Underlying().(*types.Basic)
	if !ok {
		panic(unsupported("conversion of symbolic %v to %v", x.k, tdst))
	}
	dk := db.Kind()
	if dk == types.String {
		panic(unsupported("conversion of symbolic integer to string"))
	}
	dw := kindWidth(dk)
	sw := x.t.w
	switch {
	case sw > 0 && dw > 0:
		return mkSym(dk, resize(x.t, kindSigned(x.k), dw))
	case sw > 0 && dw < 0:
		eb, sb := fpParams(dw)
		if kindSigned(x.k) {
			return mkSym(dk, ps.define(Term{fmt.Sprintf("((_ to_fp %d %d) RNE %s)", eb, sb, x.t.s), dw}))
		}
		return mkSym(dk, ps.define(Term{fmt.Sprintf("((_ to_fp_unsigned %d %d) RNE %s)", eb, sb, x.t.s), dw}))
	case sw < 0 && dw > 0:
		// Go: out-of-range float→int is implementation-defined; SMT leaves it unspecified too.
		if kindSigned(dk) {
			return mkSym(dk, ps.define(Term{fmt.Sprintf("((_ fp.to_sbv %d) RTZ %s)", dw, x.t.s), dw}))
		}
		return mkSym(dk, ps.define(Term{fmt.Sprintf("((_ fp.to_ubv %d) RTZ %s)", dw, x.t.s), dw}))
	case sw < 0 && dw < 0:
		if sw == dw {
			return mkSym(dk, x.t)
		}
		eb, sb := fpParams(dw)
		return mkSym(dk, ps.define(Term{fmt.Sprintf("((_ to_fp %d %d) RNE %s)", eb, sb, x.t.s), dw}))
	case sw == 0 && dw == 0:
		return x
	}
	panic(unsupported("symbolic conversion %v -> %v", x.k, dk))
}

// truth turns a bool-valued value into a Go bool, deciding symbolic ones.
func (fr *frame) truth(v value) bool {
	switch v := v.(type) {
	case bool:
		return v
	case *SymVal:
		return fr.i.ps.branch(v.t, fr.site())
	}
	panic(engineAbort{"internal", fmt.Sprintf("truth of %T", v)})
}

// concretizeIndex returns a concrete index in [0,n) for idx, forking over
// the feasible values; an infeasible-in-range index panics like Go.
func (fr *frame) concretizeIndex(idx value, n int, what string) int {
	s, ok := idx.(*SymVal)
	if !ok {
		i := asInt64(idx)
		if i < 0 || i >= int64(n) {
			panic(fr.i.rtPanic(fmt.Sprintf("index out of range [%d] with length %d", i, n)))
		}
		return int(i)
	}
	ps := fr.i.ps
	for k := 0; k < n; k++ {
		if ps.branch(tEq(s.t, bvLit(uint64(k), s.t.w)), fr.site()+"#"+what) {
			return k
		}
	}
	panic(fr.i.rtPanic(fmt.Sprintf("index out of range [symbolic] with length %d", n)))
}

// concretizeInt forks a symbolic integer over [lo,hi]; values outside
// the range abort the path as unsupported (stated bound).
func (fr *frame) concretizeInt(v value, lo, hi int64, what string) int64 {
	s, ok := v.(*SymVal)
	if !ok {
		return asInt64(v)
	}
	ps := fr.i.ps
	for k := lo; k <= hi; k++ {
		if ps.branch(tEq(s.t, bvLit(uint64(k), s.t.w)), fr.site()+"#"+what) {
			return k
		}
	}
	panic(unsupported("symbolic %s outside [%d,%d]", what, lo, hi))
}

// symEquals is equals() returning a possibly symbolic bool.
func (fr *frame) symEquals(t types.Type, x, y value) value {
	if !containsSym(x) && !containsSym(y) {
		return equals(t, x, y)
	}
	term := fr.eqTerm(t, x, y)
	switch term.s {
	case "true":
		return true
	case "false":
		return false
	}
	return mkSym(types.Bool, term)
}

func (fr *frame) eqTerm(t types.Type, x, y value) Term {
	switch x := x.(type) {
	case *SymVal:
		return tEq(x.t, lift(y))
	case *symStr:
		return symStrEq(x, y)
	case string:
		if ys, ok := y.(*symStr); ok {
			return symStrEq(ys, x)
		}
		return boolLit(x == y.(string))
	case structure:
		ys := y.(structure)
		st := t.Underlying().(*types.Struct)
		r := boolLit(true)
		for i := range x {
			if st.Field(i).Name() == "_" {
				continue
			}
			r = tAnd(r, fr.eqTerm(st.Field(i).Type(), x[i], ys[i]))
		}
		return r
	case array:
		ya := y.(array)
		et := t.Underlying().(*types.Array).Elem()
		r := boolLit(true)
		for i := range x {
			r = tAnd(r, fr.eqTerm(et, x[i], ya[i]))
		}
		return r
	case iface:
		yi := y.(iface)
		if !sameType(x.t, yi.t) {
			return boolLit(false)
		}
		if x.t == nil {
			return boolLit(true)
		}
		return fr.eqTerm(x.t, x.v, yi.v)
	}
	if _, ok := y.(*SymVal); ok {
		return tEq(lift(x), lift(y))
	}
	return boolLit(equals(t, x, y))
}

// containsSym reports whether a comparable value has a symbolic part (shallow through aggregates).
func containsSym(x value) bool {
	switch x := x.(type) {
	case *SymVal, *symStr:
		return true
	case structure:
		for _, e := range x {
			if containsSym(e) {
				return true
			}
		}
	case array:
		for _, e := range x {
			if containsSym(e) {
				return true
			}
		}
	case iface:
		return containsSym(x.v)
	}
	return false
}
