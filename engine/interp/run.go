package interp

// Loading, per-worker interpreter set-up and the exploration loop.

import (
	"encoding/json"
	"fmt"
	"go/ast"
	"go/token"
	"go/types"
	"os"
	"path/filepath"
	"runtime"
	"sort"
	"strings"
	"sync"
	"time"

	"golang.org/x/tools/go/packages"
	"golang.org/x/tools/go/ssa"
	"golang.org/x/tools/go/ssa/ssautil"
)

type Config struct {
	Dir        string            `json:"dir"`
	Patterns   []string          `json:"patterns"`
	Overlay    map[string]string `json:"overlay"` // virtual path -> real file
	HarnessPkg string            `json:"harness_pkg"`
	Harness    string            `json:"harness"`
	Setup      string            `json:"setup"`
	UnderTest  []string          `json:"under_test"`
	Solver     string            `json:"solver"`
	Workers    int               `json:"workers"`
	Race       bool              `json:"race"`
	MapPermute int               `json:"map_permute"`
	SolverLog  string            `json:"solver_log"`
	Trace      bool              `json:"trace"`
	EmbedDirs  map[string]string `json:"embed_dirs"` // package path -> directory whose files serve embed.FS reads
	Params     map[string]int    `json:"params"`     // harness parameters (zzsym.Param)
	Modfile    string            `json:"modfile"`    // alternative go.mod (a scratch copy), so that loading never rewrites the tree's go.mod

	MaxPaths     int `json:"max_paths"`
	MaxDecisions int `json:"max_decisions"`
	Unwind       int `json:"unwind"`
	MaxInstrs    int `json:"max_instrs"`
	TimeoutMs    int `json:"timeout_ms"`
	SampleModels int `json:"sample_models"`
	Preempt      int `json:"preempt"`
	TimeBudgetS  int `json:"time_budget_s"`
	SampleEvery  int `json:"sample_every"`
	Sched        string `json:"sched"` // "" = every order at blocking points is explored; "first" = lowest task id (one canonical schedule)
}

func (c *Config) isUnderTest(path string) bool {
	for _, p := range c.UnderTest {
		if strings.HasPrefix(path, p) && !strings.HasSuffix(path, "/zzsym") {
			return true
		}
	}
	return false
}

// Result is what one harness run reports.
type Result struct {
	Harness      string         `json:"harness"`
	Paths        int            `json:"paths"`
	Outcomes     map[string]int `json:"outcomes"`
	Obligations  int            `json:"obligations"`
	Discharged   int            `json:"discharged"`
	Instrs       int64          `json:"instrs"`
	Decisions    int64          `json:"decisions"`
	Queries      int            `json:"queries"`
	SolverS      float64        `json:"solver_s"`
	WallS        float64        `json:"wall_s"`
	LoadS        float64        `json:"load_s"`
	Violations   []Violation    `json:"violations"`
	Samples      []PathSummary  `json:"samples"`
	Inconclusive []string       `json:"inconclusive"`
	Reach        map[string]int `json:"reach"`
	Funcs        []string       `json:"functions_encoded"`
	Stubs        []string       `json:"stubs_used"`
	SolverErrors []string       `json:"solver_errors"`
	Bounds       map[string]int `json:"bounds"`
	Fatal        string         `json:"fatal,omitempty"`
}

var theRuntimeErrorString types.Type

// Program is a loaded and built SSA program.
type Program struct {
	prog   *ssa.Program
	pkgs   []*packages.Package
	all    map[string]*packages.Package
	embeds map[*ssa.Global]embedInfo
}

type embedInfo struct {
	file string // absolute path of file content
}

// Load loads the packages of cfg from the current source tree (with overlays).
func Load(cfg *Config) (*Program, error) {
	overlay := map[string][]byte{}
	for virt, real := range cfg.Overlay {
		b, err := os.ReadFile(real)
		if err != nil {
			return nil, err
		}
		overlay[virt] = b
	}
	pcfg := &packages.Config{
		Mode:    packages.LoadAllSyntax | packages.NeedEmbedFiles | packages.NeedEmbedPatterns,
		Dir:     cfg.Dir,
		Overlay: overlay,
		Env:     append(os.Environ(), "GOFLAGS=-mod=mod", "GOPROXY=off", "CGO_ENABLED=0"),
	}
	if cfg.Modfile != "" {
		pcfg.BuildFlags = []string{"-modfile=" + cfg.Modfile}
	}
	pkgs, err := packages.Load(pcfg, cfg.Patterns...)
	if err != nil {
		return nil, err
	}
	var errs []string
	packages.Visit(pkgs, nil, func(p *packages.Package) {
		for _, e := range p.Errors {
			errs = append(errs, e.Error())
		}
	})
	if len(errs) > 0 {
		if len(errs) > 10 {
			errs = errs[:10]
		}
		return nil, fmt.Errorf("package load errors:\n%s", strings.Join(errs, "\n"))
	}
	prog, _ := ssautil.AllPackages(pkgs, ssa.InstantiateGenerics)
	prog.Build()
	p := &Program{prog: prog, pkgs: pkgs, all: map[string]*packages.Package{}, embeds: map[*ssa.Global]embedInfo{}}
	packages.Visit(pkgs, nil, func(pp *packages.Package) { p.all[pp.PkgPath] = pp })
	rt := prog.ImportedPackage("runtime")
	if rt == nil {
		return nil, fmt.Errorf("program does not include package runtime")
	}
	theRuntimeErrorString = rt.Type("errorString").Object().Type()
	p.findEmbeds()
	return p, nil
}

// findEmbeds locates //go:embed variables of type string / []byte.
func (p *Program) findEmbeds() {
	for _, pp := range p.all {
		if len(pp.EmbedPatterns) == 0 && len(pp.EmbedFiles) == 0 {
			continue
		}
		sp := p.prog.Package(pp.Types)
		if sp == nil {
			continue
		}
		for _, f := range pp.Syntax {
			dir := filepath.Dir(pp.Fset.Position(f.Pos()).Filename)
			for _, d := range f.Decls {
				gd, ok := d.(*ast.GenDecl)
				if !ok || gd.Tok != token.VAR {
					continue
				}
				for _, spec := range gd.Specs {
					vs := spec.(*ast.ValueSpec)
					doc := vs.Doc
					if doc == nil {
						doc = gd.Doc
					}
					if doc == nil {
						continue
					}
					for _, c := range doc.List {
						if strings.HasPrefix(c.Text, "//go:embed ") {
							pat := strings.Trim(strings.TrimSpace(strings.TrimPrefix(c.Text, "//go:embed ")), "\"`")
							for _, n := range vs.Names {
								if g, ok := sp.Members[n.Name].(*ssa.Global); ok {
									p.embeds[g] = embedInfo{file: filepath.Join(dir, pat)}
								}
							}
						}
					}
				}
			}
		}
	}
}

func newInterpreter(p *Program, cfg *Config, ex *Explorer) *interpreter {
	i := &interpreter{
		prog:    p.prog,
		globals: make(map[*ssa.Global]*value),
		sizes:   &types.StdSizes{WordSize: 8, MaxAlign: 8},
		ex:      ex,
		cfg:     cfg,
		inited:  map[*ssa.Package]bool{},
		initing: map[*ssa.Package]bool{},
		side:    map[any]any{},
		stubs:   map[string]value{},
	}
	if cfg.Trace {
		i.mode |= EnableTracing
	}
	i.runtimeErrorString = theRuntimeErrorString
	initReflect(i)
	for _, pkg := range i.prog.AllPackages() {
		for _, m := range pkg.Members {
			if v, ok := m.(*ssa.Global); ok {
				cell := zero(mustDeref(v.Type()))
				i.globals[v] = &cell
			}
		}
	}
	return i
}

// setEmbeds fills string / []byte go:embed variables.
func (i *interpreter) setEmbeds(p *Program) error {
	for g, info := range p.embeds {
		t := mustDeref(g.Type()).Underlying()
		b, err := os.ReadFile(info.file)
		if err != nil {
			if _, isStruct := t.(*types.Struct); isStruct {
				continue // embed.FS: served by the embed intrinsics
			}
			return fmt.Errorf("go:embed %s: %v", info.file, err)
		}
		switch t := t.(type) {
		case *types.Basic:
			if t.Kind() == types.String {
				*i.globals[g] = string(b)
			}
		case *types.Slice:
			vs := make([]value, len(b))
			for k, c := range b {
				vs[k] = c
			}
			*i.globals[g] = vs
		}
	}
	return nil
}

// runProtected runs f and classifies how it ended.
func (i *interpreter) runProtected(f func()) (outcome, msg string, tp *targetPanic) {
	defer func() {
		r := recover()
		if r == nil {
			return
		}
		switch r := r.(type) {
		case engineAbort:
			switch r.kind {
			case "stop":
				outcome = "violation"
			default:
				outcome = r.kind
			}
			msg = r.msg
		case targetPanic:
			outcome, msg = "panic", i.panicString(r)
			tp = &r
		default:
			buf := make([]byte, 8192)
			buf = buf[:runtime.Stack(buf, false)]
			outcome, msg = "internal", fmt.Sprintf("host panic: %v\n%s", r, buf)
		}
	}()
	f()
	return "ok", "", nil
}

// Run explores one harness and returns the result.
func Run(cfg *Config) *Result {
	t0 := time.Now()
	res := &Result{Harness: cfg.Harness, Outcomes: map[string]int{}, Reach: map[string]int{}}
	p, err := Load(cfg)
	if err != nil {
		res.Fatal = "load: " + err.Error()
		return res
	}
	res.LoadS = time.Since(t0).Seconds()
	hp := p.prog.ImportedPackage(cfg.HarnessPkg)
	if hp == nil {
		res.Fatal = "harness package not found: " + cfg.HarnessPkg
		return res
	}
	hfn := hp.Func(cfg.Harness)
	if hfn == nil {
		res.Fatal = "harness function not found: " + cfg.Harness
		return res
	}
	lim := Limits{MaxPaths: cfg.MaxPaths, MaxDecisions: cfg.MaxDecisions, Unwind: cfg.Unwind, MaxInstrs: cfg.MaxInstrs,
		TimeoutMs: cfg.TimeoutMs, SampleModels: cfg.SampleModels, Preempt: cfg.Preempt, TimeBudgetS: cfg.TimeBudgetS}
	if lim.TimeoutMs == 0 {
		lim.TimeoutMs = 10000
	}
	if lim.MaxInstrs == 0 {
		lim.MaxInstrs = 20_000_000
	}
	if lim.MaxDecisions == 0 {
		lim.MaxDecisions = 2000
	}
	if lim.Unwind == 0 {
		lim.Unwind = 64
	}
	ex := NewExplorer(lim)
	workers := cfg.Workers
	if workers <= 0 {
		workers = 1
	}
	var wg sync.WaitGroup
	var mu sync.Mutex
	var fatal string
	for w := 0; w < workers; w++ {
		wg.Add(1)
		go func(w int) {
			defer wg.Done()
			q, st, errs, err := worker(p, cfg, ex, hp, hfn, w)
			mu.Lock()
			res.Queries += q
			res.SolverS += st
			res.SolverErrors = append(res.SolverErrors, errs...)
			if err != nil && fatal == "" {
				fatal = err.Error()
			}
			mu.Unlock()
			if err != nil {
				ex.mu.Lock()
				ex.stopped = true
				ex.cond.Broadcast()
				ex.mu.Unlock()
			}
		}(w)
	}
	wg.Wait()
	res.Fatal = fatal
	res.Paths = ex.Paths
	res.Outcomes = ex.Outcomes
	res.Obligations = ex.Oblig
	res.Discharged = ex.Disch
	res.Instrs = ex.Instrs
	res.Decisions = ex.Decisions
	res.Violations = ex.Viol
	res.Samples = ex.Samples
	res.Inconclusive = ex.Inconcl
	res.Reach = ex.Reach
	res.Funcs = sortedKeys(ex.Funcs)
	res.Stubs = sortedKeys(ex.Stubs)
	if len(res.SolverErrors) > 20 {
		res.SolverErrors = res.SolverErrors[:20]
	}
	res.Bounds = map[string]int{"max_paths": lim.MaxPaths, "max_decisions_per_path": lim.MaxDecisions, "unwind_per_site": lim.Unwind,
		"max_instrs_per_path": lim.MaxInstrs, "solver_timeout_ms": lim.TimeoutMs, "preemptions": lim.Preempt, "map_permute": cfg.MapPermute, "time_budget_s": lim.TimeBudgetS}
	res.WallS = time.Since(t0).Seconds()
	sort.Slice(res.Violations, func(a, b int) bool { return res.Violations[a].Label < res.Violations[b].Label })
	return res
}

func worker(p *Program, cfg *Config, ex *Explorer, hp *ssa.Package, hfn *ssa.Function, w int) (queries int, solverS float64, solverErrs []string, err error) {
	logPath := ""
	if cfg.SolverLog != "" {
		logPath = fmt.Sprintf("%s.%d", cfg.SolverLog, w)
	}
	sol, e := NewSolver(cfg.Solver, ex.Lim.TimeoutMs, logPath)
	if e != nil {
		return 0, 0, nil, e
	}
	defer sol.Close()
	i := newInterpreter(p, cfg, ex)
	// a path state for initialisation (no decisions allowed there)
	i.ps = newPathState(ex, sol, nil)
	i.sched = newScheduler(i)
	// stubs declared by the harness package: functions named Stub_<...> with a //sym:stub directive
	i.findStubs(p, hp)
	outcome, msg, _ := i.runProtected(func() {
		if e := i.setEmbeds(p); e != nil {
			panic(engineAbort{"internal", e.Error()})
		}
		call(i, nil, token.NoPos, hp.Func("init"), nil)
		if e := i.setEmbeds(p); e != nil { // embed vars are set by the linker, i.e. survive init
			panic(engineAbort{"internal", e.Error()})
		}
		if cfg.Setup != "" {
			sfn := hp.Func(cfg.Setup)
			if sfn == nil {
				panic(engineAbort{"internal", "setup function not found: " + cfg.Setup})
			}
			call(i, nil, token.NoPos, sfn, nil)
		}
	})
	if outcome != "ok" {
		return sol.Queries, sol.Time.Seconds(), sol.Errors, fmt.Errorf("initialisation/setup failed: %s: %s", outcome, msg)
	}
	if len(i.ps.taken) > 0 {
		return sol.Queries, sol.Time.Seconds(), sol.Errors, fmt.Errorf("Setup made decisions; it must be concrete")
	}
	i.sched.shutdown()
	sol.PopAll()

	for {
		prefix, ok := ex.next()
		if !ok {
			break
		}
		ps := newPathState(ex, sol, prefix)
		i.ps = ps
		i.sched = newScheduler(i)
		i.side = map[any]any{}
		i.nchan = 0
		i.clock = 0
		i.depth = 0
		i.logging = true
		i.race = nil
		if cfg.Race {
			i.race = newRaceState(i)
		}
		sol.Push()
		outcome, msg, tp := i.runProtected(func() {
			call(i, nil, token.NoPos, hfn, nil)
		})
		switch outcome {
		case "panic":
			site := ""
			_ = tp
			ps.violation("panic", "unrecovered panic left the harness", site, msg, nil)
			outcome = "violation"
		case "deadlock":
			ps.violation("deadlock", "deadlock: every task is blocked", "", msg, nil)
			outcome = "violation"
		case "ok":
			ex.mu.Lock()
			ex.okSeen++
			every := cfg.SampleEvery
			if every <= 0 {
				every = 1
			}
			want := ex.passModels < ex.Lim.SampleModels && (ex.okSeen-1)%every == 0
			if want {
				ex.passModels++
			}
			ex.mu.Unlock()
			if want {
				vals, r := ps.model(nil)
				if r == "sat" {
					ps.summary = &PathSummary{Decisions: ps.taken, Events: ps.events, Reach: sortedKeys(ps.reach), Values: vals, Choices: ps.choicesCopy(), Instrs: ps.instrs, Asserts: ps.oblig}
				}
			}
		}
		i.sched.shutdown()
		i.logging = false
		i.rollback()
		sol.PopAll()
		ex.finish(ps, outcome, msg)
	}
	return sol.Queries, sol.Time.Seconds(), sol.Errors, nil
}

// findStubs registers name-intercepted stubs: in the harness package, a
// function whose doc comment contains "//sym:stub <qualified name>"
// replaces that function while the engine runs.
func (i *interpreter) findStubs(p *Program, hp *ssa.Package) {
	pp := p.all[hp.Pkg.Path()]
	if pp == nil {
		return
	}
	for _, f := range pp.Syntax {
		for _, d := range f.Decls {
			fd, ok := d.(*ast.FuncDecl)
			if !ok || fd.Doc == nil || fd.Recv != nil {
				continue
			}
			for _, c := range fd.Doc.List {
				if strings.HasPrefix(c.Text, "//sym:stub ") {
					target := strings.TrimSpace(strings.TrimPrefix(c.Text, "//sym:stub "))
					if fn := hp.Func(fd.Name.Name); fn != nil {
						i.stubs[target] = fn
					}
				}
			}
		}
	}
}

func (r *Result) JSON() []byte {
	b, _ := json.MarshalIndent(r, "", " ")
	return b
}

// raceAccess is the hook of the happens-before race check (race.go).
func (i *interpreter) raceAccess(fr *frame, addr *value, write bool) {
	if i.race != nil {
		i.race.access(fr, addr, write)
	}
}
