package interp

import "crypto/sha256"

func sha256Sum(b []byte) [32]byte { return sha256.Sum256(b) }
