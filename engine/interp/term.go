package interp

// SMT terms and symbolic scalar values.
//
// A symbolic scalar is a *SymVal: a Go basic kind plus an SMT-LIB2 term.
// Integers are bit-vectors of the Go width (wrap-around is the Go
// semantics), bools are Bool, floats are FloatingPoint.

import (
	"fmt"
	"go/types"
	"math"
	"strings"
)

// Term is an SMT-LIB2 term with its sort.
// w > 0: (_ BitVec w); w == 0: Bool; w == -64 / -32: Float64 / Float32.
type Term struct {
	s string
	w int
}

func (t Term) String() string { return t.s }

// SymVal is a symbolic value of a Go basic type.
type SymVal struct {
	k types.BasicKind
	t Term
}

func (s *SymVal) String() string { return fmt.Sprintf("sym<%s>", s.t.s) }

func kindWidth(k types.BasicKind) int {
	switch k {
	case types.Bool, types.UntypedBool:
		return 0
	case types.Int8, types.Uint8:
		return 8
	case types.Int16, types.Uint16:
		return 16
	case types.Int32, types.Uint32, types.UntypedRune:
		return 32
	case types.Int, types.Int64, types.Uint, types.Uint64, types.Uintptr, types.UntypedInt:
		return 64
	case types.Float64, types.UntypedFloat:
		return -64
	case types.Float32:
		return -32
	}
	panic(engineAbort{"unsupported", fmt.Sprintf("kindWidth: kind %v", k)})
}

func kindSigned(k types.BasicKind) bool {
	switch k {
	case types.Int, types.Int8, types.Int16, types.Int32, types.Int64, types.UntypedInt, types.UntypedRune:
		return true
	}
	return false
}

func kindIsFloat(k types.BasicKind) bool {
	return k == types.Float64 || k == types.Float32 || k == types.UntypedFloat
}

func basicKindOf(t types.Type) types.BasicKind {
	if b, ok := t.Underlying().(*types.Basic); ok {
		return b.Kind()
	}
	panic(engineAbort{"unsupported", fmt.Sprintf("basicKindOf: %v", t)})
}

// kindOfValue returns the basic kind of a concrete scalar value.
func kindOfValue(x value) (types.BasicKind, bool) {
	switch x.(type) {
	case bool:
		return types.Bool, true
	case int:
		return types.Int, true
	case int8:
		return types.Int8, true
	case int16:
		return types.Int16, true
	case int32:
		return types.Int32, true
	case int64:
		return types.Int64, true
	case uint:
		return types.Uint, true
	case uint8:
		return types.Uint8, true
	case uint16:
		return types.Uint16, true
	case uint32:
		return types.Uint32, true
	case uint64:
		return types.Uint64, true
	case uintptr:
		return types.Uintptr, true
	case float32:
		return types.Float32, true
	case float64:
		return types.Float64, true
	}
	return 0, false
}

func sortString(w int) string {
	switch {
	case w == 0:
		return "Bool"
	case w > 0:
		return fmt.Sprintf("(_ BitVec %d)", w)
	case w == -64:
		return "(_ FloatingPoint 11 53)"
	case w == -32:
		return "(_ FloatingPoint 8 24)"
	}
	panic("bad sort")
}

func bvLit(v uint64, w int) Term {
	if w < 64 {
		v &= (uint64(1) << uint(w)) - 1
	}
	if w%4 == 0 {
		return Term{fmt.Sprintf("#x%0*x", w/4, v), w}
	}
	return Term{fmt.Sprintf("(_ bv%d %d)", v, w), w}
}

func boolLit(b bool) Term {
	if b {
		return Term{"true", 0}
	}
	return Term{"false", 0}
}

func fpLit64(f float64) Term {
	b := math.Float64bits(f)
	return Term{fmt.Sprintf("(fp #b%d #b%011b #x%013x)", b>>63, (b>>52)&0x7ff, b&((1<<52)-1)), -64}
}

func fpLit32(f float32) Term {
	b := math.Float32bits(f)
	return Term{fmt.Sprintf("(fp #b%d #x%02x #b%023b)", b>>31, (b>>23)&0xff, b&((1<<23)-1)), -32}
}

// lift returns the term for a concrete scalar.
func lift(x value) Term {
	switch x := x.(type) {
	case *SymVal:
		return x.t
	case bool:
		return boolLit(x)
	case int:
		return bvLit(uint64(x), 64)
	case int8:
		return bvLit(uint64(x), 8)
	case int16:
		return bvLit(uint64(x), 16)
	case int32:
		return bvLit(uint64(x), 32)
	case int64:
		return bvLit(uint64(x), 64)
	case uint:
		return bvLit(uint64(x), 64)
	case uint8:
		return bvLit(uint64(x), 8)
	case uint16:
		return bvLit(uint64(x), 16)
	case uint32:
		return bvLit(uint64(x), 32)
	case uint64:
		return bvLit(x, 64)
	case uintptr:
		return bvLit(uint64(x), 64)
	case float64:
		return fpLit64(x)
	case float32:
		return fpLit32(x)
	}
	panic(engineAbort{"unsupported", fmt.Sprintf("lift: %T", x)})
}

func app(w int, op string, args ...Term) Term {
	var sb strings.Builder
	sb.WriteByte('(')
	sb.WriteString(op)
	for _, a := range args {
		sb.WriteByte(' ')
		sb.WriteString(a.s)
	}
	sb.WriteByte(')')
	return Term{sb.String(), w}
}

func tNot(a Term) Term {
	switch a.s {
	case "true":
		return boolLit(false)
	case "false":
		return boolLit(true)
	}
	if strings.HasPrefix(a.s, "(not ") {
		return Term{a.s[5 : len(a.s)-1], 0}
	}
	return app(0, "not", a)
}

func tAnd(a, b Term) Term {
	if a.s == "true" {
		return b
	}
	if b.s == "true" {
		return a
	}
	if a.s == "false" || b.s == "false" {
		return boolLit(false)
	}
	return app(0, "and", a, b)
}

func tOr(a, b Term) Term {
	if a.s == "false" {
		return b
	}
	if b.s == "false" {
		return a
	}
	if a.s == "true" || b.s == "true" {
		return boolLit(true)
	}
	return app(0, "or", a, b)
}

func tIte(c, a, b Term) Term {
	if c.s == "true" {
		return a
	}
	if c.s == "false" {
		return b
	}
	if a.s == b.s {
		return a
	}
	return app(a.w, "ite", c, a, b)
}

func tEq(a, b Term) Term {
	if a.s == b.s {
		return boolLit(true)
	}
	if a.w < 0 {
		return app(0, "fp.eq", a, b)
	}
	return app(0, "=", a, b)
}

// mkSym wraps a term as a value of kind k; literal terms stay symbolic
// (callers fold concretes before building terms).
func mkSym(k types.BasicKind, t Term) *SymVal {
	if kindWidth(k) != t.w {
		panic(engineAbort{"internal", fmt.Sprintf("mkSym: kind %v width %d term width %d (%s)", k, kindWidth(k), t.w, t.s)})
	}
	return &SymVal{k: normKind(k), t: t}
}

func normKind(k types.BasicKind) types.BasicKind {
	switch k {
	case types.UntypedBool:
		return types.Bool
	case types.UntypedInt:
		return types.Int
	case types.UntypedRune:
		return types.Int32
	case types.UntypedFloat:
		return types.Float64
	}
	return k
}

// concreteOfKind converts a uint64 bit pattern to the concrete Go value of kind k.
func concreteOfKind(k types.BasicKind, bits uint64) value {
	switch normKind(k) {
	case types.Bool:
		return bits != 0
	case types.Int:
		return int(bits)
	case types.Int8:
		return int8(bits)
	case types.Int16:
		return int16(bits)
	case types.Int32:
		return int32(bits)
	case types.Int64:
		return int64(bits)
	case types.Uint:
		return uint(bits)
	case types.Uint8:
		return uint8(bits)
	case types.Uint16:
		return uint16(bits)
	case types.Uint32:
		return uint32(bits)
	case types.Uint64:
		return bits
	case types.Uintptr:
		return uintptr(bits)
	case types.Float64:
		return math.Float64frombits(bits)
	case types.Float32:
		return math.Float32frombits(uint32(bits))
	}
	panic(engineAbort{"internal", "concreteOfKind"})
}

// resize converts a bit-vector term to width w, extending per signedness.
func resize(t Term, signed bool, w int) Term {
	switch {
	case t.w == w:
		return t
	case t.w > w:
		return app(w, fmt.Sprintf("(_ extract %d 0)", w-1), t)
	case signed:
		return app(w, fmt.Sprintf("(_ sign_extend %d)", w-t.w), t)
	default:
		return app(w, fmt.Sprintf("(_ zero_extend %d)", w-t.w), t)
	}
}
