// Copyright 2013 The Go Authors. All rights reserved.
// Use of this source code is governed by a BSD-style
// license that can be found in the LICENSE file.

package interp

// Deterministic (insertion-ordered) hashtable used for every interpreted
// map, so that re-execution of a decision prefix sees the same iteration
// order. (Adapted: the original used host maps for basic key types.)

import (
	"go/types"
)

type entry struct {
	key     value
	value   value
	deleted bool
}

type hashmap struct {
	keyType types.Type
	table   map[int][]*entry
	order   []*entry
	length  int
}

// makeMap returns an empty initialized map of key type kt.
func makeMap(kt types.Type, reserve int64) value {
	return &hashmap{keyType: kt, table: make(map[int][]*entry)}
}

func (m *hashmap) find(k value) (*entry, int) {
	h := hash(m.keyType, m.keyType, k)
	for _, e := range m.table[h] {
		if !e.deleted && equals(m.keyType, k, e.key) {
			return e, h
		}
	}
	return nil, h
}

// delete removes the association for key k, if any; it returns the removed entry.
func (m *hashmap) delete(k value) *entry {
	if m == nil {
		return nil
	}
	e, h := m.find(k)
	if e == nil {
		return nil
	}
	e.deleted = true
	b := m.table[h]
	for i := range b {
		if b[i] == e {
			m.table[h] = append(append([]*entry{}, b[:i]...), b[i+1:]...)
			break
		}
	}
	m.length--
	return e
}

// undelete restores an entry removed by delete (undo log).
func (m *hashmap) undelete(e *entry) {
	h := hash(m.keyType, m.keyType, e.key)
	e.deleted = false
	m.table[h] = append(m.table[h], e)
	m.length++
}

// lookup returns the value associated with key k, if present, or
// value(nil) otherwise.
func (m *hashmap) lookup(k value) value {
	if m != nil {
		if e, _ := m.find(k); e != nil {
			return e.value
		}
	}
	return nil
}

// insert updates the map to associate key k with value v. It returns the
// entry and whether it was newly created, and the previous value.
func (m *hashmap) insert(k value, v value) (e *entry, created bool, old value) {
	e, h := m.find(k)
	if e != nil {
		old = e.value
		e.value = v
		return e, false, old
	}
	e = &entry{key: k, value: v}
	m.table[h] = append(m.table[h], e)
	m.order = append(m.order, e)
	m.length++
	return e, true, nil
}

// removeNew undoes the creation of entry e (which must be the last created).
func (m *hashmap) removeNew(e *entry) {
	h := hash(m.keyType, m.keyType, e.key)
	b := m.table[h]
	for i := range b {
		if b[i] == e {
			m.table[h] = append(append([]*entry{}, b[:i]...), b[i+1:]...)
			break
		}
	}
	for i := len(m.order) - 1; i >= 0; i-- {
		if m.order[i] == e {
			m.order = append(m.order[:i:i], m.order[i+1:]...)
			break
		}
	}
	e.deleted = true
	m.length--
}

// len returns the number of key/value associations in the map.
func (m *hashmap) len() int {
	if m != nil {
		return m.length
	}
	return 0
}

// live returns the live entries in insertion order.
func (m *hashmap) live() []*entry {
	if m == nil {
		return nil
	}
	r := make([]*entry, 0, m.length)
	for _, e := range m.order {
		if !e.deleted {
			r = append(r, e)
		}
	}
	// compact tombstones occasionally
	if len(m.order) > 2*len(r)+8 {
		m.order = append([]*entry{}, r...)
	}
	return r
}

type hashmapIter struct {
	es []*entry
	i  int
}

func (it *hashmapIter) next() tuple {
	for it.i < len(it.es) {
		e := it.es[it.i]
		it.i++
		if e.deleted {
			continue // deleted during iteration
		}
		return tuple{true, e.key, e.value}
	}
	return tuple{false, nil, nil}
}
