package interp

// Happens-before race check over the explored schedules (vector clocks).

import "fmt"

type accessRec struct {
	task, clk int
	site     string
}

type cellHist struct {
	w      *accessRec
	reads  map[int]accessRec
	avc    vclock // release clock of atomic operations on this cell
	atomic bool
}

type raceState struct {
	i     *interpreter
	cells map[any]*cellHist
}

func newRaceState(i *interpreter) *raceState {
	return &raceState{i: i, cells: map[any]*cellHist{}}
}

func (r *raceState) hist(key any) *cellHist {
	h := r.cells[key]
	if h == nil {
		h = &cellHist{reads: map[int]accessRec{}}
		r.cells[key] = h
	}
	return h
}

func (r *raceState) report(fr *frame, kind string, prev accessRec, write bool) {
	cur := r.i.sched.cur
	what := "read"
	if write {
		what = "write"
	}
	msg := fmt.Sprintf("%s by task %d (%s) at %s is unordered with %s by task %d at %s", what, cur.id, cur.name, fr.site(), kind, prev.task, prev.site)
	r.i.ps.violation("race", "data race", fr.site(), msg, nil)
	panic(engineAbort{"stop", "data race: " + msg})
}

func (r *raceState) access(fr *frame, key any, write bool) {
	s := r.i.sched
	if len(s.tasks) < 2 || r.i.raceOff > 0 {
		return
	}
	cur := s.cur
	h := r.hist(key)
	if h.w != nil && h.w.task != cur.id && !cur.vc.sees(h.w.task, h.w.clk) {
		r.report(fr, "write", *h.w, write)
	}
	if write {
		for t, rd := range h.reads {
			if t != cur.id && !cur.vc.sees(rd.task, rd.clk) {
				r.report(fr, "read", rd, write)
			}
		}
		h.w = &accessRec{cur.id, cur.vc[cur.id], fr.site()}
		h.reads = map[int]accessRec{}
	} else {
		h.reads[cur.id] = accessRec{cur.id, cur.vc[cur.id], fr.site()}
	}
}

// atomicAccess: atomics never race with each other and act as release+acquire.
func (r *raceState) atomicAccess(fr *frame, key any, write bool) {
	s := r.i.sched
	cur := s.cur
	h := r.hist(key)
	if h.avc == nil {
		h.avc = vclock{}
	}
	cur.vc.join(h.avc)
	if write {
		h.avc.join(cur.vc)
		cur.vc.tick(cur.id)
	}
}
