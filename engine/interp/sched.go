package interp

// Cooperative tasks (interpreted goroutines), channels and the scheduler.
// Exactly one task runs at any time (a baton is passed through per-task
// wake channels), so execution is deterministic given the decision
// sequence; tasks switch only at synchronisation operations.

import (
	"fmt"
	"strings"
	"sync"
)

type task struct {
	id    int
	wake  chan bool
	done  bool
	cond  func() bool
	what  string
	name  string
	vc    vclock
	locks []*value
	waitOn any // the mutex this task is blocked on in Lock (for hand-off at Unlock)
	daemon bool // engine-provided pseudo task (ticker): not part of the program's goroutines
}

type scheduler struct {
	i       *interpreter
	tasks   []*task
	cur     *task
	wg      sync.WaitGroup
	abort   *engineAbort // set by a non-main task that must abort the path
	preempt int
	closing bool
	timers  []*timerObj
}

func newScheduler(i *interpreter) *scheduler {
	s := &scheduler{i: i}
	main := &task{id: 0, wake: make(chan bool, 1), name: "main", vc: vclock{}}
	s.tasks = []*task{main}
	s.cur = main
	s.preempt = i.ex.Lim.Preempt
	return s
}

func (t *task) enabled() bool {
	return !t.done && (t.cond == nil || t.cond())
}

// spawn creates a new task running fn(args).
func (s *scheduler) spawn(fn value, args []value, name string) {
	t := &task{id: len(s.tasks), wake: make(chan bool, 1), name: name}
	t.vc = s.cur.vc.fork(s.cur.id, t.id)
	s.tasks = append(s.tasks, t)
	s.wg.Add(1)
	i := s.i
	go func() {
		defer s.wg.Done()
		if ok := <-t.wake; !ok {
			t.done = true
			return
		}
		defer func() {
			r := recover()
			t.done = true
			if s.closing {
				return
			}
			if r != nil {
				switch r := r.(type) {
				case engineAbort:
					if s.abort == nil {
						s.abort = &r
					}
				case targetPanic:
					// an unrecovered panic in a goroutine kills the process
					i.ps.violation("taskpanic", "panic escaped goroutine "+t.name, "", "panic: "+i.panicString(r), nil)
					s.abort = &engineAbort{"stop", "panic escaped goroutine " + t.name + ": " + i.panicString(r)}
				default:
					s.abort = &engineAbort{"internal", fmt.Sprintf("host panic in task %s: %v", t.name, r)}
				}
				s.handoff(s.tasks[0])
				return
			}
			s.taskExit(t)
		}()
		call(i, nil, 0, fn, args)
	}()
}

// handoff passes the baton to next without waiting (the caller's goroutine ends).
func (s *scheduler) handoff(next *task) {
	s.cur = next
	next.wake <- true
}

func (s *scheduler) taskExit(t *task) {
	next := s.pickNext(nil)
	if next == nil {
		// everyone is blocked: the main task is woken to report
		a := engineAbort{"deadlock", s.describe()}
		s.abort = &a
		next = s.tasks[0]
	}
	s.handoff(next)
}

func (s *scheduler) describe() string {
	var sb strings.Builder
	for _, t := range s.tasks {
		if t.done || t.daemon {
			continue
		}
		fmt.Fprintf(&sb, "[task %d %s blocked on %s] ", t.id, t.name, t.what)
	}
	return sb.String()
}

// pickNext chooses the next task to run among the enabled ones.
// cur (may be nil) is the yielding task, preferred when it is enabled.
func (s *scheduler) pickNext(cur *task) *task {
	var en []*task
	for _, t := range s.tasks {
		if t.enabled() {
			en = append(en, t)
		}
	}
	for _, tm := range s.timers {
		_ = tm
	}
	if len(en) == 0 {
		return nil
	}
	if cur != nil && cur.enabled() {
		// non-blocking yield: stay unless a preemption is bought
		if s.preempt > 0 && len(en) > 1 {
			k := s.i.ps.choose(len(en), "preempt", cur.what)
			if en[k] != cur {
				s.preempt--
			}
			return en[k]
		}
		return cur
	}
	if len(en) == 1 || s.i.cfg.Sched == "first" {
		return en[0]
	}
	var label string
	if cur != nil {
		label = cur.what
	}
	k := s.i.ps.choose(len(en), "sched", label)
	return en[k]
}

// switchTo transfers control from the current task to next and waits to be resumed.
func (s *scheduler) switchTo(next *task) {
	me := s.cur
	if next == me {
		return
	}
	s.cur = next
	next.wake <- true
	ok := <-me.wake
	if !ok {
		panic(engineAbort{"stop", "task aborted at path end"})
	}
	s.cur = me
	if me.id == 0 && s.abort != nil {
		a := *s.abort
		panic(a)
	}
}

// block suspends the current task until cond holds.
func (s *scheduler) block(cond func() bool, what string) {
	me := s.cur
	if cond() && s.preempt == 0 {
		return
	}
	me.cond, me.what = cond, what
	next := s.pickNext(me)
	if next == nil {
		a := engineAbort{"deadlock", s.describe()}
		if me.id == 0 {
			me.cond = nil
			panic(a)
		}
		s.abort = &a
		next = s.tasks[0]
	}
	s.switchTo(next)
	me.cond, me.what = nil, ""
}

// yield is a non-blocking scheduling point (only matters with a preemption budget).
func (s *scheduler) yield(what string) {
	if s.preempt == 0 || len(s.tasks) == 1 {
		return
	}
	s.block(func() bool { return true }, what)
}

// preemptPoint is an explicit scheduling decision: any enabled task
// (including the caller) may run next.
func (s *scheduler) preemptPoint(what string) {
	me := s.cur
	var en []*task
	for _, t := range s.tasks {
		if t == me || t.enabled() {
			en = append(en, t)
		}
	}
	if len(en) < 2 || s.i.cfg.Sched == "first" {
		return
	}
	k := s.i.ps.choose(len(en), "preempt", what)
	if en[k] == me {
		return
	}
	me.cond, me.what = func() bool { return true }, what
	s.switchTo(en[k])
	me.cond, me.what = nil, ""
}

// handoff models the Go mutex's starvation mode (and plain timing): at
// Unlock a goroutine already blocked in Lock on the same mutex may acquire it
// before the unlocking goroutine runs on, even if that one relocks at once.
// An explicit decision, independent of the preemption budget.
func (s *scheduler) lockHandoff(m any) {
	if s.i.cfg.Sched == "first" {
		return
	}
	me := s.cur
	en := []*task{me}
	for _, t := range s.tasks {
		if t != me && !t.done && t.waitOn == m && t.enabled() {
			en = append(en, t)
		}
	}
	if len(en) < 2 {
		return
	}
	k := s.i.ps.choose(len(en), "handoff", "Mutex.Unlock")
	if en[k] == me {
		return
	}
	me.cond, me.what = func() bool { return true }, "Mutex.Unlock"
	s.switchTo(en[k])
	me.cond, me.what = nil, ""
}

// quiesce runs the other tasks until none of them is enabled and
// returns the number of live (blocked) tasks besides the caller.
func (s *scheduler) quiesce() int {
	me := s.cur
	s.block(func() bool {
		for _, t := range s.tasks {
			if t != me && !t.daemon && t.enabled() {
				return false
			}
		}
		return true
	}, "quiesce")
	n := 0
	for _, t := range s.tasks {
		if t != me && !t.done && !t.daemon {
			n++
		}
		if t != me && t.done {
			me.vc.join(t.vc) // observing that a goroutine has ended orders its effects before the observer
		}
	}
	return n
}

// shutdown aborts every unfinished task at the end of a path.
func (s *scheduler) shutdown() {
	s.closing = true
	for _, t := range s.tasks[1:] {
		if !t.done {
			t.wake <- false
		}
	}
	s.wg.Wait()
}

// ---- channels

type sendOffer struct {
	v     value
	taken bool
	vc    vclock
}

type channel struct {
	id      int
	buf     []value
	bufvc   []vclock
	cap     int
	closed  bool
	waiting int // receivers currently blocked on this channel
	offers  []*sendOffer
	zero    value
	vc      vclock // last close / sync clock
}

func (i *interpreter) newChan(capacity int, zero value) *channel {
	i.nchan++
	return &channel{id: i.nchan, cap: capacity, zero: zero}
}

func (c *channel) recvReady() bool {
	return c != nil && (len(c.buf) > 0 || len(c.offers) > 0 || c.closed)
}

func (c *channel) sendReady() bool {
	if c == nil {
		return false
	}
	if c.closed {
		return true // will panic
	}
	if c.cap > 0 {
		return len(c.buf) < c.cap
	}
	return c.waiting > 0
}

func (i *interpreter) chanSend(c *channel, v value) {
	s := i.sched
	if c == nil {
		s.block(func() bool { return false }, "send on nil channel")
	}
	if c.closed {
		panic(i.rtPanic("send on closed channel"))
	}
	me := s.cur
	if c.cap > 0 {
		s.block(func() bool { return len(c.buf) < c.cap || c.closed }, fmt.Sprintf("chan send (chan %d)", c.id))
		if c.closed {
			panic(i.rtPanic("send on closed channel"))
		}
		c.buf = append(c.buf, v)
		c.bufvc = append(c.bufvc, me.vc.copy())
		me.vc.tick(me.id)
		s.yield("after chan send")
		return
	}
	o := &sendOffer{v: v, vc: me.vc.copy()}
	me.vc.tick(me.id)
	c.offers = append(c.offers, o)
	s.block(func() bool { return o.taken || c.closed }, fmt.Sprintf("chan send (unbuffered chan %d)", c.id))
	if !o.taken {
		panic(i.rtPanic("send on closed channel"))
	}
}

// takeFrom removes one value from a ready channel.
func (i *interpreter) takeFrom(c *channel) (value, bool) {
	me := i.sched.cur
	if len(c.buf) > 0 {
		v := c.buf[0]
		c.buf = c.buf[1:]
		me.vc.join(c.bufvc[0])
		c.bufvc = c.bufvc[1:]
		return v, true
	}
	if len(c.offers) > 0 {
		o := c.offers[0]
		c.offers = c.offers[1:]
		o.taken = true
		me.vc.join(o.vc)
		return o.v, true
	}
	if c.closed {
		me.vc.join(c.vc)
		return c.zero, false
	}
	panic(engineAbort{"internal", "takeFrom on channel that is not ready"})
}

func (i *interpreter) chanRecv(c *channel) (value, bool) {
	s := i.sched
	if c == nil {
		s.block(func() bool { return false }, "receive from nil channel")
	}
	c.waiting++
	s.block(c.recvReady, fmt.Sprintf("chan receive (chan %d)", c.id))
	c.waiting--
	return i.takeFrom(c)
}

func (i *interpreter) chanClose(c *channel) {
	if c == nil {
		panic(i.rtPanic("close of nil channel"))
	}
	if c.closed {
		panic(i.rtPanic("close of closed channel"))
	}
	c.closed = true
	me := i.sched.cur
	c.vc = me.vc.copy()
	me.vc.tick(me.id)
	i.sched.yield("after close")
}

type selCase struct {
	send bool
	c    *channel
	v    value
}

// chanSelect implements select; returns chosen index (-1 = default), received value and ok.
func (i *interpreter) chanSelect(cases []selCase, blocking bool) (int, value, bool) {
	s := i.sched
	ready := func() []int {
		var r []int
		for k, sc := range cases {
			if sc.c == nil {
				continue
			}
			if sc.send && sc.c.sendReady() || !sc.send && sc.c.recvReady() {
				r = append(r, k)
			}
		}
		return r
	}
	r := ready()
	if len(r) == 0 {
		if !blocking {
			return -1, nil, false
		}
		for _, sc := range cases {
			if sc.c != nil && !sc.send {
				sc.c.waiting++
			}
		}
		s.block(func() bool { return len(ready()) > 0 }, "select")
		for _, sc := range cases {
			if sc.c != nil && !sc.send {
				sc.c.waiting--
			}
		}
		r = ready()
	}
	k := r[0]
	if len(r) > 1 {
		k = r[i.ps.choose(len(r), "select", "")]
	}
	sc := cases[k]
	if sc.send {
		if sc.c.closed {
			panic(i.rtPanic("send on closed channel"))
		}
		me := s.cur
		if sc.c.cap > 0 {
			sc.c.buf = append(sc.c.buf, sc.v)
			sc.c.bufvc = append(sc.c.bufvc, me.vc.copy())
		} else {
			sc.c.offers = append(sc.c.offers, &sendOffer{v: sc.v, vc: me.vc.copy()})
		}
		me.vc.tick(me.id)
		return k, nil, false
	}
	v, ok := i.takeFrom(sc.c)
	return k, v, ok
}

// ---- vector clocks (happens-before for the race check)

type vclock map[int]int

func (v vclock) copy() vclock {
	r := make(vclock, len(v))
	for k, x := range v {
		r[k] = x
	}
	return r
}

func (v vclock) tick(id int) { v[id]++ }

func (v vclock) join(o vclock) {
	for k, x := range o {
		if x > v[k] {
			v[k] = x
		}
	}
}

// fork returns the child's clock and advances the parent.
func (v vclock) fork(parent, child int) vclock {
	c := v.copy()
	c[child] = 1
	v.tick(parent)
	return c
}

// leq reports whether event (id, clk) happens-before-or-equals clock v.
func (v vclock) sees(id, clk int) bool { return v[id] >= clk }

// ---- timers (time.NewTicker / time.After / time.NewTimer)

type timerObj struct {
	c     *channel
	fires int
	stop  bool
}

// ---- time.Ticker / time.Timer / time.After: a daemon task that may
// deliver a tick at any scheduling point, at most cfg "ticks" times.

func (s *scheduler) spawnDaemon(name string, body func(t *task)) *task {
	t := &task{id: len(s.tasks), wake: make(chan bool, 1), name: name, daemon: true}
	t.vc = s.cur.vc.fork(s.cur.id, t.id)
	s.tasks = append(s.tasks, t)
	s.wg.Add(1)
	go func() {
		defer s.wg.Done()
		if ok := <-t.wake; !ok {
			t.done = true
			return
		}
		defer func() {
			r := recover()
			t.done = true
			if s.closing {
				return
			}
			if r != nil {
				if ea, ok := r.(engineAbort); ok {
					if s.abort == nil {
						s.abort = &ea
					}
				} else {
					s.abort = &engineAbort{"internal", fmt.Sprintf("host panic in daemon %s: %v", name, r)}
				}
				s.handoff(s.tasks[0])
				return
			}
			s.taskExit(t)
		}()
		body(t)
	}()
	return t
}

func (i *interpreter) newTicker(once bool) *timerObj {
	s := i.sched
	tm := &timerObj{c: i.newChan(1, nil)}
	max := i.cfg.Params["ticks"]
	if max == 0 {
		max = 1
	}
	if once {
		max = 1
	}
	s.timers = append(s.timers, tm)
	s.spawnDaemon("ticker", func(t *task) {
		for tm.fires < max {
			s.block(func() bool { return tm.stop || len(tm.c.buf) == 0 }, "ticker idle")
			if tm.stop {
				// a stopped ticker stays silent; wait for a Reset
				s.block(func() bool { return !tm.stop }, "ticker stopped")
				continue
			}
			tm.fires++
			tm.c.buf = append(tm.c.buf, i.timeValue())
			tm.c.bufvc = append(tm.c.bufvc, t.vc.copy())
			t.vc.tick(t.id)
			// give the receiver a chance before the next tick
			s.block(func() bool { return tm.stop || len(tm.c.buf) == 0 }, "ticker delivered")
		}
	})
	return tm
}
