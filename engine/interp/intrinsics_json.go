package interp

// Type-directed model of encoding/json over interpreter values (the real
// package is driven by reflect + unsafe). Concrete JSON text only.

import (
	"bytes"
	"encoding/base64"
	"encoding/json"
	"fmt"
	"go/token"
	"go/types"
	"io"
	"math"
	"reflect"
	"sort"
	"strconv"
	"strings"
)

func init() {
	for k, v := range map[string]externalFn{
		"encoding/json.Marshal":               jsonMarshal,
		"encoding/json.MarshalIndent":         jsonMarshal,
		"encoding/json.Unmarshal":             jsonUnmarshal,
		"encoding/json.Valid":                 func(fr *frame, a []value) value { return json.Valid([]byte(fr.cbytes(a[0]))) },
		"(*encoding/json.Decoder).Decode":     jsonDecoderDecode,
		"(*encoding/json.Encoder).Encode":     jsonEncoderEncode,
		"(*encoding/json.Decoder).More":       func(fr *frame, a []value) value { panic(unsupported("json.Decoder.More")) },
		"(*encoding/json.Decoder).Token":      func(fr *frame, a []value) value { panic(unsupported("json.Decoder.Token")) },
		"(*encoding/json.Decoder).Buffered":   func(fr *frame, a []value) value { panic(unsupported("json.Decoder.Buffered")) },
		"(encoding/json.Number).Int64":        nil,
		"(encoding/json.RawMessage).MarshalJSON": nil,
	} {
		if v != nil {
			externals[k] = v
		}
	}
}

// ordered JSON object
type jobj struct {
	keys []string
	vals []any
}

func parseJSONOrdered(dec *json.Decoder) (any, error) {
	tok, err := dec.Token()
	if err != nil {
		return nil, err
	}
	switch t := tok.(type) {
	case json.Delim:
		switch t {
		case '{':
			o := &jobj{}
			for dec.More() {
				kt, err := dec.Token()
				if err != nil {
					return nil, err
				}
				k, ok := kt.(string)
				if !ok {
					return nil, fmt.Errorf("invalid object key")
				}
				v, err := parseJSONOrdered(dec)
				if err != nil {
					return nil, err
				}
				o.keys = append(o.keys, k)
				o.vals = append(o.vals, v)
			}
			if _, err := dec.Token(); err != nil {
				return nil, err
			}
			return o, nil
		case '[':
			arr := []any{}
			for dec.More() {
				v, err := parseJSONOrdered(dec)
				if err != nil {
					return nil, err
				}
				arr = append(arr, v)
			}
			if _, err := dec.Token(); err != nil {
				return nil, err
			}
			return arr, nil
		}
		return nil, fmt.Errorf("unexpected delimiter %v", t)
	default:
		return tok, nil // nil, bool, json.Number, string
	}
}

// decodeFirstJSON decodes the first JSON value of data the way
// (*json.Decoder).Decode does and returns the number of bytes consumed.
func decodeFirstJSON(data []byte) (v any, n int, err error) {
	// json.Decoder.Decode validates the whole value first; use it for the error text
	chk := json.NewDecoder(bytes.NewReader(data))
	var raw json.RawMessage
	if err := chk.Decode(&raw); err != nil {
		return nil, 0, err
	}
	n = int(chk.InputOffset())
	dec := json.NewDecoder(bytes.NewReader(raw))
	dec.UseNumber()
	v, err = parseJSONOrdered(dec)
	return v, n, err
}

func rawOf(v any) []byte {
	var sb bytes.Buffer
	var w func(v any)
	w = func(v any) {
		switch v := v.(type) {
		case nil:
			sb.WriteString("null")
		case bool:
			sb.WriteString(strconv.FormatBool(v))
		case json.Number:
			sb.WriteString(string(v))
		case string:
			b, _ := json.Marshal(v)
			sb.Write(b)
		case []any:
			sb.WriteByte('[')
			for k, e := range v {
				if k > 0 {
					sb.WriteByte(',')
				}
				w(e)
			}
			sb.WriteByte(']')
		case *jobj:
			sb.WriteByte('{')
			for k := range v.keys {
				if k > 0 {
					sb.WriteByte(',')
				}
				b, _ := json.Marshal(v.keys[k])
				sb.Write(b)
				sb.WriteByte(':')
				w(v.vals[k])
			}
			sb.WriteByte('}')
		}
	}
	w(v)
	return sb.Bytes()
}

type jsonDec struct {
	fr        *frame
	useNumber bool
	firstErr  string
}

func (d *jsonDec) typeErr(what string, t types.Type) {
	if d.firstErr == "" {
		d.firstErr = fmt.Sprintf("json: cannot unmarshal %s into Go value of type %s", what, types.TypeString(t, func(p *types.Package) string { return p.Name() }))
	}
}

func jsonKindName(v any) string {
	switch v.(type) {
	case nil:
		return "null"
	case bool:
		return "bool"
	case json.Number:
		return "number"
	case string:
		return "string"
	case []any:
		return "array"
	case *jobj:
		return "object"
	}
	return "value"
}

// hasMethod reports whether *T or T has the named method (pointer receiver allowed).
func (d *jsonDec) ptrMethod(t types.Type, name string) bool {
	i := d.fr.i
	if _, isIface := t.Underlying().(*types.Interface); isIface {
		return false
	}
	return i.findMethod(types.NewPointer(t), name) != nil
}

func (d *jsonDec) generic(v any) value {
	i := d.fr.i
	switch v := v.(type) {
	case nil:
		return iface{}
	case bool:
		return iface{types.Typ[types.Bool], v}
	case json.Number:
		if d.useNumber {
			return iface{i.pkgType("encoding/json", "Number"), string(v)}
		}
		f, _ := strconv.ParseFloat(string(v), 64)
		return iface{types.Typ[types.Float64], f}
	case string:
		return iface{types.Typ[types.String], v}
	case []any:
		s := make([]value, len(v))
		for k, e := range v {
			s[k] = d.generic(e)
		}
		return iface{types.NewSlice(types.NewInterfaceType(nil, nil)), s}
	case *jobj:
		mt := types.NewMap(types.Typ[types.String], types.NewInterfaceType(nil, nil))
		m := makeMap(types.Typ[types.String], 0).(*hashmap)
		for k := range v.keys {
			m.insert(v.keys[k], d.generic(v.vals[k]))
		}
		return iface{mt, m}
	}
	panic("generic json")
}

// assign stores JSON value v into the cell addr of static type t.
func (d *jsonDec) assign(t types.Type, addr *value, v any) {
	fr := d.fr
	i := fr.i
	// Unmarshaler / TextUnmarshaler on *T
	if _, isPtr := t.Underlying().(*types.Pointer); !isPtr {
		if d.ptrMethod(t, "UnmarshalJSON") {
			if isNamed(t, "encoding/json", "RawMessage") {
				i.setCell(addr, bytesToValue(rawOf(v)))
				return
			}
			if v == nil {
				return // like encoding/json: null is a no-op for Unmarshalers reached by value... (calls UnmarshalJSON only for non-pointer-null)
			}
			m := i.findMethod(types.NewPointer(t), "UnmarshalJSON")
			r := call(i, fr, token.NoPos, m, []value{addr, bytesToValue(rawOf(v))})
			if e, ok := r.(iface); ok && e.t != nil && d.firstErr == "" {
				d.firstErr = fr.errorString(e)
			}
			return
		}
		if s, ok := v.(string); ok && d.ptrMethod(t, "UnmarshalText") {
			m := i.findMethod(types.NewPointer(t), "UnmarshalText")
			r := call(i, fr, token.NoPos, m, []value{addr, bytesToValue([]byte(s))})
			if e, ok := r.(iface); ok && e.t != nil && d.firstErr == "" {
				d.firstErr = fr.errorString(e)
			}
			return
		}
	}
	switch tt := t.Underlying().(type) {
	case *types.Pointer:
		if v == nil {
			i.setCell(addr, (*value)(nil))
			return
		}
		p, _ := (*addr).(*value)
		if p == nil {
			cell := zero(tt.Elem())
			p = &cell
			i.setCell(addr, p)
		}
		d.assign(tt.Elem(), p, v)
	case *types.Interface:
		if v == nil {
			i.setCell(addr, iface{})
			return
		}
		if tt.NumMethods() != 0 {
			// non-empty interface holding a pointer: decode into it (encoding/json does that); else type error
			if cur := (*addr).(iface); cur.t != nil {
				if pt, ok := cur.t.Underlying().(*types.Pointer); ok && cur.v.(*value) != nil {
					d.assign(pt.Elem(), cur.v.(*value), v)
					return
				}
			}
			d.typeErr(jsonKindName(v), t)
			return
		}
		if cur := (*addr).(iface); cur.t != nil {
			if pt, ok := cur.t.Underlying().(*types.Pointer); ok && cur.v.(*value) != nil {
				d.assign(pt.Elem(), cur.v.(*value), v)
				return
			}
		}
		i.setCell(addr, d.generic(v))
	case *types.Struct:
		o, ok := v.(*jobj)
		if v == nil {
			return
		}
		if !ok {
			d.typeErr(jsonKindName(v), t)
			return
		}
		s := (*addr).(structure)
		for k := range o.keys {
			if cell, ft := d.findField(tt, s, o.keys[k]); cell != nil {
				d.assign(ft, cell, o.vals[k])
			}
		}
	case *types.Map:
		if v == nil {
			i.setCell(addr, (*hashmap)(nil))
			return
		}
		o, ok := v.(*jobj)
		if !ok {
			d.typeErr(jsonKindName(v), t)
			return
		}
		if kb, ok := tt.Key().Underlying().(*types.Basic); !ok || kb.Kind() != types.String {
			panic(unsupported("json: map key type %s", tt.Key()))
		}
		m, _ := (*addr).(*hashmap)
		if m == nil {
			m = makeMap(tt.Key(), 0).(*hashmap)
			i.setCell(addr, m)
		}
		for k := range o.keys {
			cell := zero(tt.Elem())
			if old := m.lookup(o.keys[k]); old != nil {
				cell = old
			}
			d.assign(tt.Elem(), &cell, o.vals[k])
			i.mapInsert(m, o.keys[k], cell)
		}
	case *types.Slice:
		if v == nil {
			i.setCell(addr, []value(nil))
			return
		}
		if eb, ok := tt.Elem().Underlying().(*types.Basic); ok && eb.Kind() == types.Uint8 {
			if s, ok := v.(string); ok {
				b, err := base64.StdEncoding.DecodeString(s)
				if err != nil {
					d.typeErr("string", t)
					return
				}
				i.setCell(addr, bytesToValue(b))
				return
			}
		}
		arr, ok := v.([]any)
		if !ok {
			d.typeErr(jsonKindName(v), t)
			return
		}
		out := make([]value, len(arr))
		for k := range arr {
			out[k] = zero(tt.Elem())
			d.assign(tt.Elem(), &out[k], arr[k])
		}
		i.setCell(addr, out)
	case *types.Array:
		arr, ok := v.([]any)
		if !ok {
			if v != nil {
				d.typeErr(jsonKindName(v), t)
			}
			return
		}
		a := (*addr).(array)
		for k := range a {
			if k < len(arr) {
				d.assign(tt.Elem(), &a[k], arr[k])
			}
		}
	case *types.Basic:
		if v == nil {
			return
		}
		switch {
		case tt.Kind() == types.String:
			s, ok := v.(string)
			if !ok {
				if n, isNum := v.(json.Number); isNum && isNamed(t, "encoding/json", "Number") {
					i.setCell(addr, string(n))
					return
				}
				d.typeErr(jsonKindName(v), t)
				return
			}
			i.setCell(addr, s)
		case tt.Kind() == types.Bool:
			b, ok := v.(bool)
			if !ok {
				d.typeErr(jsonKindName(v), t)
				return
			}
			i.setCell(addr, b)
		case tt.Info()&types.IsInteger != 0:
			n, ok := v.(json.Number)
			if !ok {
				d.typeErr(jsonKindName(v), t)
				return
			}
			w := kindWidth(tt.Kind())
			if kindSigned(tt.Kind()) {
				x, err := strconv.ParseInt(string(n), 10, w)
				if err != nil {
					d.typeErr("number "+string(n), t)
					return
				}
				i.setCell(addr, concreteOfKind(tt.Kind(), uint64(x)))
			} else {
				x, err := strconv.ParseUint(string(n), 10, w)
				if err != nil {
					d.typeErr("number "+string(n), t)
					return
				}
				i.setCell(addr, concreteOfKind(tt.Kind(), x))
			}
		case tt.Info()&types.IsFloat != 0:
			n, ok := v.(json.Number)
			if !ok {
				d.typeErr(jsonKindName(v), t)
				return
			}
			f, err := strconv.ParseFloat(string(n), 64)
			if err != nil {
				d.typeErr("number "+string(n), t)
				return
			}
			if tt.Kind() == types.Float32 {
				i.setCell(addr, float32(f))
			} else {
				i.setCell(addr, f)
			}
		default:
			panic(unsupported("json decode into %s", t))
		}
	default:
		panic(unsupported("json decode into %s", t))
	}
}

func isNamed(t types.Type, pkg, name string) bool {
	n, ok := types.Unalias(t).(*types.Named)
	return ok && n.Obj().Pkg() != nil && n.Obj().Pkg().Path() == pkg && n.Obj().Name() == name
}

func jsonTag(st *types.Struct, k int) (name string, omitempty, skip bool) {
	f := st.Field(k)
	name = f.Name()
	tag := reflect.StructTag(st.Tag(k)).Get("json")
	if tag == "-" {
		return "", false, true
	}
	parts := strings.Split(tag, ",")
	if parts[0] != "" {
		name = parts[0]
	}
	for _, p := range parts[1:] {
		if p == "omitempty" {
			omitempty = true
		}
	}
	return
}

func (d *jsonDec) findField(st *types.Struct, s structure, key string) (*value, types.Type) {
	var fold *value
	var foldT types.Type
	for k := 0; k < st.NumFields(); k++ {
		f := st.Field(k)
		if f.Anonymous() {
			if es, ok := f.Type().Underlying().(*types.Struct); ok {
				if reflect.StructTag(st.Tag(k)).Get("json") == "" {
					if c, t := d.findField(es, s[k].(structure), key); c != nil {
						return c, t
					}
					continue
				}
			}
		}
		if !f.Exported() {
			continue
		}
		name, _, skip := jsonTag(st, k)
		if skip {
			continue
		}
		if name == key {
			return &s[k], f.Type()
		}
		if fold == nil && strings.EqualFold(name, key) {
			fold, foldT = &s[k], f.Type()
		}
	}
	return fold, foldT
}

func (fr *frame) errorString(e iface) string {
	m := fr.i.findMethod(e.t, "Error")
	if m == nil {
		return "error"
	}
	r := call(fr.i, fr, token.NoPos, m, []value{e.v})
	if s, ok := r.(string); ok {
		return s
	}
	return "error"
}

// jsonDecodeInto decodes data into target (an interface holding a pointer).
func (fr *frame) jsonDecodeInto(data []byte, target iface, useNumber bool) (consumed int, errv value) {
	v, n, err := decodeFirstJSON(data)
	if err != nil {
		if err == io.EOF {
			return 0, fr.i.globalValue("io", "EOF")
		}
		return 0, fr.newError(err.Error())
	}
	if target.t == nil {
		return n, fr.newError("json: Unmarshal(nil)")
	}
	pt, ok := target.t.Underlying().(*types.Pointer)
	if !ok || target.v.(*value) == nil {
		return n, fr.newError("json: Unmarshal(non-pointer " + target.t.String() + ")")
	}
	d := &jsonDec{fr: fr, useNumber: useNumber}
	d.assign(pt.Elem(), target.v.(*value), v)
	if d.firstErr != "" {
		return n, fr.newError(d.firstErr)
	}
	return n, iface{}
}

func (i *interpreter) globalValue(pkg, name string) value {
	p := i.prog.ImportedPackage(pkg)
	if p == nil {
		panic(unsupported("package %s not in program", pkg))
	}
	g := p.Var(name)
	if g == nil {
		panic(unsupported("global %s.%s not found", pkg, name))
	}
	if !i.inited[p] {
		i.lazyInit(p)
	}
	return *i.globals[g]
}

func jsonUnmarshal(fr *frame, a []value) value {
	data := []byte(fr.cbytes(a[0]))
	// Unmarshal rejects trailing data
	if !json.Valid(data) {
		var x any
		err := json.Unmarshal(data, &x)
		return fr.newError(err.Error())
	}
	_, e := fr.jsonDecodeInto(data, a[1].(iface), false)
	return e
}

func structFieldByName(t types.Type, s structure, name string) (*value, types.Type) {
	st := t.Underlying().(*types.Struct)
	for k := 0; k < st.NumFields(); k++ {
		if st.Field(k).Name() == name {
			return &s[k], st.Field(k).Type()
		}
	}
	panic(unsupported("field %s not found in %s", name, t))
}

type decSide struct{ rest []byte }

func jsonDecoderDecode(fr *frame, a []value) value {
	i := fr.i
	dp := fr.nilCheck(a[0].(*value))
	dt := i.pkgType("encoding/json", "Decoder")
	ds := (*dp).(structure)
	rcell, _ := structFieldByName(dt, ds, "r")
	dcell, dst := structFieldByName(dt, ds, "d")
	un, _ := structFieldByName(dst, (*dcell).(structure), "useNumber")
	useNumber, _ := (*un).(bool)
	side := sideOf(i, dp, func() *decSide { return &decSide{} })
	// read everything available
	r := call(i, fr, token.NoPos, i.pkgFunc("io", "ReadAll"), []value{*rcell}).(tuple)
	if e := r[1].(iface); e.t != nil {
		return e
	}
	data := append(side.rest, []byte(fr.cbytes(r[0]))...)
	n, e := fr.jsonDecodeInto(data, a[1].(iface), useNumber)
	side.rest = data[n:]
	return e
}

// ---- encoding

type jsonEnc struct {
	fr  *frame
	buf bytes.Buffer
	err string
}

func (e *jsonEnc) fail(msg string) {
	if e.err == "" {
		e.err = msg
	}
}

func isEmptyJSON(v value) bool {
	switch v := v.(type) {
	case bool:
		return !v
	case string:
		return v == ""
	case []value:
		return len(v) == 0
	case *hashmap:
		return v.len() == 0
	case *value:
		return v == nil
	case iface:
		return v.t == nil
	case array:
		return len(v) == 0
	}
	if k, ok := kindOfValue(v); ok {
		if kindIsFloat(k) {
			switch f := v.(type) {
			case float64:
				return f == 0
			case float32:
				return f == 0
			}
		}
		return asInt64(v) == 0
	}
	return false
}

func (e *jsonEnc) encode(t types.Type, v value) {
	fr := e.fr
	i := fr.i
	if sv, ok := v.(*SymVal); ok && sv.t.w < 0 {
		// a symbolic float: encoding/json fails on non-finite values and otherwise writes the
		// shortest text that parses back to the value (float token contract, intrinsics_float.go)
		x64 := fr.f64(sv)
		nonFinite := mkSym(types.Bool, app(0, "or", app(0, "fp.isInfinite", x64.t), app(0, "fp.isNaN", x64.t)))
		if fr.truth(nonFinite) {
			e.fail("json: unsupported value: <non-finite float>")
			return
		}
		bits := 64
		if sv.t.w == -32 {
			bits = 32
		}
		e.buf.WriteString(fr.newFloatTok(sv, 'g', -1, bits))
		return
	}
	switch v.(type) {
	case *SymVal, *symStr:
		panic(unsupported("json.Marshal of a symbolic value"))
	}
	if isNamed(t, "encoding/json", "RawMessage") {
		b, _ := v.([]value)
		if b == nil {
			e.buf.WriteString("null")
			return
		}
		raw := []byte(fr.cbytes(b))
		if !json.Valid(raw) {
			e.fail("json: error calling MarshalJSON for type json.RawMessage: invalid JSON")
			return
		}
		var cb bytes.Buffer
		json.Compact(&cb, raw)
		e.buf.Write(cb.Bytes())
		return
	}
	if _, isIface := t.Underlying().(*types.Interface); !isIface {
		if p, isPtr := v.(*value); !(isPtr && p == nil) {
			if m := i.findMethod(t, "MarshalJSON"); m != nil {
				r := call(i, fr, token.NoPos, m, []value{v}).(tuple)
				if er := r[1].(iface); er.t != nil {
					e.fail("json: error calling MarshalJSON for type " + t.String() + ": " + fr.errorString(er))
					return
				}
				raw := []byte(fr.cbytes(r[0]))
				if !json.Valid(raw) {
					e.fail("json: error calling MarshalJSON for type " + t.String() + ": invalid JSON")
					return
				}
				var cb bytes.Buffer
				json.Compact(&cb, raw)
				e.buf.Write(cb.Bytes())
				return
			}
			if m := i.findMethod(t, "MarshalText"); m != nil {
				r := call(i, fr, token.NoPos, m, []value{v}).(tuple)
				if er := r[1].(iface); er.t != nil {
					e.fail("json: error calling MarshalText for type " + t.String())
					return
				}
				b, _ := json.Marshal(fr.cbytes(r[0]))
				e.buf.Write(b)
				return
			}
		}
	}
	switch tt := t.Underlying().(type) {
	case *types.Pointer:
		p := v.(*value)
		if p == nil {
			e.buf.WriteString("null")
			return
		}
		e.encode(tt.Elem(), *p)
	case *types.Interface:
		it := v.(iface)
		if it.t == nil {
			e.buf.WriteString("null")
			return
		}
		e.encode(it.t, it.v)
	case *types.Struct:
		s := v.(structure)
		e.buf.WriteByte('{')
		first := true
		e.encodeFields(tt, s, &first)
		e.buf.WriteByte('}')
	case *types.Map:
		m := v.(*hashmap)
		if m == nil {
			e.buf.WriteString("null")
			return
		}
		type kv struct {
			k string
			v value
		}
		var kvs []kv
		for _, en := range m.live() {
			ks, ok := en.key.(string)
			if !ok {
				panic(unsupported("json.Marshal of map with key type %s", tt.Key()))
			}
			kvs = append(kvs, kv{ks, en.value})
		}
		sort.Slice(kvs, func(a, b int) bool { return kvs[a].k < kvs[b].k })
		e.buf.WriteByte('{')
		for k, x := range kvs {
			if k > 0 {
				e.buf.WriteByte(',')
			}
			b, _ := json.Marshal(x.k)
			e.buf.Write(b)
			e.buf.WriteByte(':')
			e.encode(tt.Elem(), x.v)
		}
		e.buf.WriteByte('}')
	case *types.Slice:
		s := v.([]value)
		if s == nil {
			e.buf.WriteString("null")
			return
		}
		if eb, ok := tt.Elem().Underlying().(*types.Basic); ok && eb.Kind() == types.Uint8 {
			b, _ := json.Marshal([]byte(fr.cbytes(s)))
			e.buf.Write(b)
			return
		}
		e.buf.WriteByte('[')
		for k, x := range s {
			if k > 0 {
				e.buf.WriteByte(',')
			}
			e.encode(tt.Elem(), x)
		}
		e.buf.WriteByte(']')
	case *types.Array:
		s := v.(array)
		e.buf.WriteByte('[')
		for k, x := range s {
			if k > 0 {
				e.buf.WriteByte(',')
			}
			e.encode(tt.Elem(), x)
		}
		e.buf.WriteByte(']')
	case *types.Basic:
		switch x := v.(type) {
		case string:
			if isNamed(t, "encoding/json", "Number") {
				if x == "" {
					x = "0"
				}
				e.buf.WriteString(x)
				return
			}
			b, _ := json.Marshal(x)
			e.buf.Write(b)
		case bool:
			e.buf.WriteString(strconv.FormatBool(x))
		case float64:
			if math.IsInf(x, 0) || math.IsNaN(x) {
				e.fail("json: unsupported value: " + strconv.FormatFloat(x, 'g', -1, 64))
				return
			}
			b, _ := json.Marshal(x)
			e.buf.Write(b)
		case float32:
			b, _ := json.Marshal(x)
			e.buf.Write(b)
		default:
			if k, ok := kindOfValue(v); ok && kindWidth(k) > 0 {
				if kindSigned(k) {
					e.buf.WriteString(strconv.FormatInt(asInt64(v), 10))
				} else {
					e.buf.WriteString(strconv.FormatUint(uint64(asInt64(v)), 10))
				}
				return
			}
			panic(unsupported("json.Marshal of %T", v))
		}
	case *types.Signature, *types.Chan:
		e.fail("json: unsupported type: " + t.String())
	default:
		panic(unsupported("json.Marshal of %s", t))
	}
}

func (e *jsonEnc) encodeFields(st *types.Struct, s structure, first *bool) {
	for k := 0; k < st.NumFields(); k++ {
		f := st.Field(k)
		if f.Anonymous() && reflect.StructTag(st.Tag(k)).Get("json") == "" {
			if es, ok := f.Type().Underlying().(*types.Struct); ok {
				e.encodeFields(es, s[k].(structure), first)
				continue
			}
		}
		if !f.Exported() {
			continue
		}
		name, omitempty, skip := jsonTag(st, k)
		if skip {
			continue
		}
		if omitempty && isEmptyJSON(s[k]) {
			continue
		}
		if !*first {
			e.buf.WriteByte(',')
		}
		*first = false
		b, _ := json.Marshal(name)
		e.buf.Write(b)
		e.buf.WriteByte(':')
		e.encode(f.Type(), s[k])
	}
}

func (fr *frame) jsonEncodeValue(v iface) ([]byte, string) {
	if v.t == nil {
		return []byte("null"), ""
	}
	e := &jsonEnc{fr: fr}
	e.encode(v.t, v.v)
	if e.err != "" {
		return nil, e.err
	}
	return e.buf.Bytes(), ""
}

func jsonMarshal(fr *frame, a []value) value {
	b, err := fr.jsonEncodeValue(a[0].(iface))
	if err != "" {
		return tuple{[]value(nil), fr.newError(err)}
	}
	return tuple{bytesToValue(b), iface{}}
}

func jsonEncoderEncode(fr *frame, a []value) value {
	i := fr.i
	ep := fr.nilCheck(a[0].(*value))
	et := i.pkgType("encoding/json", "Encoder")
	wcell, _ := structFieldByName(et, (*ep).(structure), "w")
	b, err := fr.jsonEncodeValue(a[1].(iface))
	if err != "" {
		return fr.newError(err)
	}
	b = append(b, '\n')
	w := (*wcell).(iface)
	m := i.findMethod(w.t, "Write")
	r := call(i, fr, token.NoPos, m, []value{w.v, bytesToValue(b)}).(tuple)
	return r[1]
}

// ---- crypto/sha256 (assembly / unsafe inside): native on concrete bytes

func init() {
	externals["crypto/sha256.Sum256"] = func(fr *frame, a []value) value {
		sum := sha256Sum([]byte(fr.cbytes(a[0])))
		arr := make(array, 32)
		for k := range arr {
			arr[k] = sum[k]
		}
		return arr
	}
	externals["github.com/go-viper/mapstructure/v2.Decode"] = mapstructureDecode
	// a sha256 digest object (sha256.New, Write, Sum, Reset) is interpreted from source; its
	// assembly block function is replaced by the package's own portable one
	externals["crypto/internal/boring/sig.StandardCrypto"] = func(fr *frame, a []value) value { return nil }
	externals["crypto/internal/boring/sig.BoringCrypto"] = func(fr *frame, a []value) value { return nil }
	externals["crypto.RegisterHash"] = func(fr *frame, a []value) value { return nil }
	// go:linkname'd into net/textproto
	externals["mime/multipart.readMIMEHeader"] = func(fr *frame, a []value) value {
		p := fr.i.prog.ImportedPackage("net/textproto")
		return call(fr.i, fr.caller, token.NoPos, p.Func("readMIMEHeader"), a)
	}
	externals["crypto/sha256.block"] = func(fr *frame, a []value) value {
		p := fr.i.prog.ImportedPackage("crypto/sha256")
		return call(fr.i, fr.caller, token.NoPos, p.Func("blockGeneric"), a)
	}
}

// mapstructureDecode models mapstructure.Decode(input, &struct) for flat
// structs with `mapstructure:"name"` tags (the only use in gqlgen): keys
// match case-insensitively; string <- string; integers <- any integer,
// float (truncated) or json.Number holding an integer; anything else is an
// error ("expected type ...").
func mapstructureDecode(fr *frame, a []value) value {
	in, out := a[0].(iface), a[1].(iface)
	pt, ok := out.t.Underlying().(*types.Pointer)
	if !ok {
		return fr.newError("result must be a pointer")
	}
	st, ok := pt.Elem().Underlying().(*types.Struct)
	if !ok {
		panic(unsupported("mapstructure.Decode into %s", out.t))
	}
	if in.t == nil {
		return iface{}
	}
	m, ok := in.v.(*hashmap)
	if !ok {
		return fr.newError("'' expected a map, got '" + in.t.String() + "'")
	}
	dst := (*out.v.(*value)).(structure)
	var errs []string
	for k := 0; k < st.NumFields(); k++ {
		name := st.Field(k).Name()
		if tag := reflect.StructTag(st.Tag(k)).Get("mapstructure"); tag != "" {
			name = strings.Split(tag, ",")[0]
		}
		var val value
		for _, e := range m.live() {
			if ks, ok := e.key.(string); ok && (ks == name || strings.EqualFold(ks, name)) {
				val = e.value
				if ks == name {
					break
				}
			}
		}
		if val == nil {
			continue
		}
		iv := val.(iface)
		if iv.t == nil {
			continue // nil input: zero value kept
		}
		ft := st.Field(k).Type().Underlying().(*types.Basic)
		switch {
		case ft.Kind() == types.String:
			s, ok := iv.v.(string)
			if !ok || isNamed(iv.t, "encoding/json", "Number") && false {
				errs = append(errs, "'"+name+"' expected type 'string', got unconvertible type '"+iv.t.String()+"'")
				continue
			}
			fr.i.setCell(&dst[k], s)
		case ft.Info()&types.IsInteger != 0:
			var n int64
			switch x := iv.v.(type) {
			case string:
				if !isNamed(iv.t, "encoding/json", "Number") {
					errs = append(errs, "'"+name+"' expected type '"+ft.Name()+"', got unconvertible type 'string'")
					continue
				}
				p, err := strconv.ParseInt(x, 10, 64)
				if err != nil {
					errs = append(errs, "cannot parse '"+name+"' as int")
					continue
				}
				n = p
			case float64:
				n = int64(x)
			case float32:
				n = int64(x)
			case bool:
				errs = append(errs, "'"+name+"' expected type '"+ft.Name()+"', got unconvertible type 'bool'")
				continue
			default:
				if _, ok := kindOfValue(x); !ok {
					errs = append(errs, "'"+name+"' expected type '"+ft.Name()+"', got unconvertible type '"+iv.t.String()+"'")
					continue
				}
				n = asInt64(x)
			}
			fr.i.setCell(&dst[k], concreteOfKind(ft.Kind(), uint64(n)))
		default:
			panic(unsupported("mapstructure.Decode field type %s", ft))
		}
	}
	if len(errs) > 0 {
		return fr.newError(strings.Join(errs, "; "))
	}
	return iface{}
}
