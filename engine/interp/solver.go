package interp

// One long-lived SMT solver process (z3 -in, or cvc5 --incremental) spoken
// to in SMT-LIB2 over pipes.

import (
	"bufio"
	"fmt"
	"io"
	"os"
	"os/exec"
	"strings"
	"time"
)

type Solver struct {
	name    string
	cmd     *exec.Cmd
	in      io.WriteCloser
	out     *bufio.Reader
	Queries int
	Time    time.Duration
	Errors  []string
	log     io.Writer
	depth   int
}

func solverArgv(name string, timeoutMs int) []string {
	switch name {
	case "cvc5":
		return []string{"cvc5", "--incremental", "--lang=smt2", "--produce-models", fmt.Sprintf("--tlimit-per=%d", timeoutMs)}
	case "z3-new":
		return []string{"z3-new", "-in", fmt.Sprintf("-t:%d", timeoutMs)}
	default:
		return []string{"z3", "-in", fmt.Sprintf("-t:%d", timeoutMs)}
	}
}

func NewSolver(name string, timeoutMs int, logPath string) (*Solver, error) {
	argv := solverArgv(name, timeoutMs)
	cmd := exec.Command(argv[0], argv[1:]...)
	in, err := cmd.StdinPipe()
	if err != nil {
		return nil, err
	}
	out, err := cmd.StdoutPipe()
	if err != nil {
		return nil, err
	}
	cmd.Stderr = os.Stderr
	if err := cmd.Start(); err != nil {
		return nil, err
	}
	s := &Solver{name: name, cmd: cmd, in: in, out: bufio.NewReaderSize(out, 1<<16)}
	if logPath != "" {
		f, err := os.Create(logPath)
		if err == nil {
			s.log = f
		}
	}
	if name == "cvc5" {
		s.Send("(set-logic ALL)")
	}
	s.Send("(set-option :produce-models true)")
	return s, nil
}

func (s *Solver) Send(line string) {
	if s.log != nil {
		io.WriteString(s.log, line+"\n")
	}
	io.WriteString(s.in, line)
	io.WriteString(s.in, "\n")
}

func (s *Solver) Push() { s.Send("(push 1)"); s.depth++ }
func (s *Solver) Pop()  { s.Send("(pop 1)"); s.depth-- }

// PopAll pops every open scope.
func (s *Solver) PopAll() {
	for s.depth > 0 {
		s.Pop()
	}
}

func (s *Solver) readLine() string {
	line, err := s.out.ReadString('\n')
	if err != nil {
		s.Errors = append(s.Errors, "solver pipe: "+err.Error())
		return "(error \"solver died\")"
	}
	return strings.TrimSpace(line)
}

// Check issues (check-sat) and returns "sat", "unsat" or "unknown".
// Any (error line makes the answer "unknown" (inconclusive).
func (s *Solver) Check() string {
	t0 := time.Now()
	s.Send("(check-sat)")
	s.Queries++
	res := "unknown"
	for {
		line := s.readLine()
		if line == "" {
			continue
		}
		if strings.HasPrefix(line, "(error") {
			s.Errors = append(s.Errors, line)
			if strings.Contains(line, "solver died") {
				break
			}
			continue
		}
		switch line {
		case "sat", "unsat", "unknown", "timeout":
			res = line
			if res == "timeout" {
				res = "unknown"
			}
		default:
			s.Errors = append(s.Errors, "unexpected solver output: "+line)
			continue
		}
		break
	}
	s.Time += time.Since(t0)
	return res
}

// GetValues returns the model values of the named constants as raw
// SMT-LIB text (after a sat answer).
func (s *Solver) GetValues(names []string) map[string]string {
	res := map[string]string{}
	const chunk = 64
	for i := 0; i < len(names); i += chunk {
		j := i + chunk
		if j > len(names) {
			j = len(names)
		}
		s.Send("(get-value (" + strings.Join(names[i:j], " ") + "))")
		// read a balanced s-expression
		var sb strings.Builder
		depth := 0
		started := false
		for !started || depth > 0 {
			line := s.readLine()
			if strings.HasPrefix(line, "(error") {
				s.Errors = append(s.Errors, line)
				return res
			}
			inBar := false
			for _, c := range line {
				switch {
				case c == '|':
					inBar = !inBar
				case inBar:
				case c == '(':
					depth++
					started = true
				case c == ')':
					depth--
				}
			}
			sb.WriteString(line)
			sb.WriteByte(' ')
		}
		parseValuePairs(sb.String(), res)
	}
	return res
}

// parseValuePairs parses "((name value) (name value) ...)".
func parseValuePairs(s string, out map[string]string) {
	toks := tokenizeSexp(s)
	// expect ( ( name value ) ... )
	pos := 0
	if pos >= len(toks) || toks[pos] != "(" {
		return
	}
	pos++
	for pos < len(toks) && toks[pos] == "(" {
		pos++
		name := toks[pos]
		pos++
		// value: atom or balanced list
		start := pos
		if toks[pos] == "(" {
			d := 0
			for {
				if toks[pos] == "(" {
					d++
				} else if toks[pos] == ")" {
					d--
				}
				pos++
				if d == 0 {
					break
				}
			}
		} else {
			pos++
		}
		out[name] = strings.Join(toks[start:pos], " ")
		pos++ // closing )
	}
}

func tokenizeSexp(s string) []string {
	var toks []string
	i := 0
	for i < len(s) {
		c := s[i]
		switch {
		case c == ' ' || c == '\n' || c == '\t' || c == '\r':
			i++
		case c == '(' || c == ')':
			toks = append(toks, string(c))
			i++
		case c == '|':
			j := strings.IndexByte(s[i+1:], '|')
			toks = append(toks, s[i:i+j+2])
			i += j + 2
		default:
			j := i
			for j < len(s) && s[j] != ' ' && s[j] != '(' && s[j] != ')' && s[j] != '\n' {
				j++
			}
			toks = append(toks, s[i:j])
			i = j
		}
	}
	return toks
}

func (s *Solver) Close() {
	if s == nil || s.cmd == nil {
		return
	}
	s.Send("(exit)")
	s.in.Close()
	done := make(chan struct{})
	go func() { s.cmd.Wait(); close(done) }()
	select {
	case <-done:
	case <-time.After(2 * time.Second):
		s.cmd.Process.Kill()
	}
}
