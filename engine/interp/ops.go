// Copyright 2013 The Go Authors. All rights reserved.
// Use of this source code is governed by a BSD-style
// license that can be found in the LICENSE file.

package interp

import (
	"bytes"
	"fmt"
	"go/constant"
	"go/token"
	"go/types"
	"os"
	"strings"
	"unsafe"

	"golang.org/x/tools/go/ssa"
)

// If the target program panics, the interpreter panics with this type.
type targetPanic struct {
	v  value
	rt bool // raised by the engine as a Go run-time error (nil dereference, bounds, ...)
	where string
}

func (p targetPanic) String() string {
	return toString(p.v)
}

// If the target program calls exit, the interpreter panics with this type.
type exitPanic int

// constValue returns the value of the constant with the
// dynamic type tag appropriate for c.Type().
func constValue(c *ssa.Const) value {
	if c.Value == nil {
		return zero(c.Type()) // typed zero
	}
	// c is not a type parameter so it's underlying type is basic.

	if t, ok := c.Type().Underlying().(*types.Basic); ok {
		// TODO(adonovan): eliminate untyped constants from SSA form.
		switch t.Kind() {
		case types.Bool, types.UntypedBool:
			return constant.BoolVal(c.Value)
		case types.Int, types.UntypedInt:
			// Assume sizeof(int) is same on host and target.
			return int(c.Int64())
		case types.Int8:
			return int8(c.Int64())
		case types.Int16:
			return int16(c.Int64())
		case types.Int32, types.UntypedRune:
			return int32(c.Int64())
		case types.Int64:
			return c.Int64()
		case types.Uint:
			// Assume sizeof(uint) is same on host and target.
			return uint(c.Uint64())
		case types.Uint8:
			return uint8(c.Uint64())
		case types.Uint16:
			return uint16(c.Uint64())
		case types.Uint32:
			return uint32(c.Uint64())
		case types.Uint64:
			return c.Uint64()
		case types.Uintptr:
			// Assume sizeof(uintptr) is same on host and target.
			return uintptr(c.Uint64())
		case types.Float32:
			return float32(c.Float64())
		case types.Float64, types.UntypedFloat:
			return c.Float64()
		case types.Complex64:
			return complex64(c.Complex128())
		case types.Complex128, types.UntypedComplex:
			return c.Complex128()
		case types.String, types.UntypedString:
			if c.Value.Kind() == constant.String {
				return constant.StringVal(c.Value)
			}
			return string(rune(c.Int64()))
		}
	}

	panic(fmt.Sprintf("constValue: %s", c))
}

// fitsInt returns true if x fits in type int according to sizes.
func fitsInt(x int64, sizes types.Sizes) bool {
	intSize := sizes.Sizeof(types.Typ[types.Int])
	if intSize < sizes.Sizeof(types.Typ[types.Int64]) {
		maxInt := int64(1)<<((intSize*8)-1) - 1
		minInt := -int64(1) << ((intSize * 8) - 1)
		return minInt <= x && x <= maxInt
	}
	return true
}

// asInt64 converts x, which must be an integer, to an int64.
//
// Callers that need a value directly usable as an int should combine this with fitsInt().
func asInt64(x value) int64 {
	switch x := x.(type) {
	case int:
		return int64(x)
	case int8:
		return int64(x)
	case int16:
		return int64(x)
	case int32:
		return int64(x)
	case int64:
		return x
	case uint:
		return int64(x)
	case uint8:
		return int64(x)
	case uint16:
		return int64(x)
	case uint32:
		return int64(x)
	case uint64:
		return int64(x)
	case uintptr:
		return int64(x)
	}
	panic(fmt.Sprintf("cannot convert %T to int64", x))
}

// asUint64 converts x, which must be an unsigned integer, to a uint64
// suitable for use as a bitwise shift count.
func asUint64(x value) uint64 {
	switch x := x.(type) {
	case uint:
		return uint64(x)
	case uint8:
		return uint64(x)
	case uint16:
		return uint64(x)
	case uint32:
		return uint64(x)
	case uint64:
		return x
	case uintptr:
		return uint64(x)
	}
	panic(fmt.Sprintf("cannot convert %T to uint64", x))
}

// asUnsigned returns the value of x, which must be an integer type, as its equivalent unsigned type,
// and returns true if x is non-negative.
func asUnsigned(x value) (value, bool) {
	switch x := x.(type) {
	case int:
		return uint(x), x >= 0
	case int8:
		return uint8(x), x >= 0
	case int16:
		return uint16(x), x >= 0
	case int32:
		return uint32(x), x >= 0
	case int64:
		return uint64(x), x >= 0
	case uint, uint8, uint32, uint64, uintptr:
		return x, true
	}
	panic(fmt.Sprintf("cannot convert %T to unsigned", x))
}

// zero returns a new "zero" value of the specified type.
func zero(t types.Type) value {
	switch t := t.(type) {
	case *types.Basic:
		if t.Kind() == types.UntypedNil {
			panic("untyped nil has no zero value")
		}
		if t.Info()&types.IsUntyped != 0 {
			// TODO(adonovan): make it an invariant that
			// this is unreachable.  Currently some
			// constants have 'untyped' types when they
			// should be defaulted by the typechecker.
			t = types.Default(t).(*types.Basic)
		}
		switch t.Kind() {
		case types.Bool:
			return false
		case types.Int:
			return int(0)
		case types.Int8:
			return int8(0)
		case types.Int16:
			return int16(0)
		case types.Int32:
			return int32(0)
		case types.Int64:
			return int64(0)
		case types.Uint:
			return uint(0)
		case types.Uint8:
			return uint8(0)
		case types.Uint16:
			return uint16(0)
		case types.Uint32:
			return uint32(0)
		case types.Uint64:
			return uint64(0)
		case types.Uintptr:
			return uintptr(0)
		case types.Float32:
			return float32(0)
		case types.Float64:
			return float64(0)
		case types.Complex64:
			return complex64(0)
		case types.Complex128:
			return complex128(0)
		case types.String:
			return ""
		case types.UnsafePointer:
			return unsafe.Pointer(nil)
		default:
			panic(fmt.Sprint("zero for unexpected type:", t))
		}
	case *types.Pointer:
		return (*value)(nil)
	case *types.Array:
		a := make(array, t.Len())
		for i := range a {
			a[i] = zero(t.Elem())
		}
		return a
	case *types.Named:
		return zero(t.Underlying())
	case *types.Alias:
		return zero(types.Unalias(t))
	case *types.Interface:
		return iface{} // nil type, methodset and value
	case *types.Slice:
		return []value(nil)
	case *types.Struct:
		s := make(structure, t.NumFields())
		for i := range s {
			s[i] = zero(t.Field(i).Type())
		}
		return s
	case *types.Tuple:
		if t.Len() == 1 {
			return zero(t.At(0).Type())
		}
		s := make(tuple, t.Len())
		for i := range s {
			s[i] = zero(t.At(i).Type())
		}
		return s
	case *types.Chan:
		return (*channel)(nil)
	case *types.Map:
		return (*hashmap)(nil)
	case *types.Signature:
		return (*ssa.Function)(nil)
	}
	panic(fmt.Sprint("zero: unexpected ", t))
}

// slice returns x[lo:hi:max].  Any of lo, hi and max may be nil.
func (fr *frame) slice(x, lo, hi, max value) value {
	var Len, Cap int
	switch x := x.(type) {
	case string:
		Len = len(x)
		Cap = Len
	case *symStr:
		Len = len(x.b)
		Cap = Len
	case []value:
		Len = len(x)
		Cap = cap(x)
	case *value: // *array
		a := (*fr.nilCheck(x)).(array)
		Len = len(a)
		Cap = cap(a)
	}

	l := int64(0)
	if lo != nil {
		l = fr.sliceBound(lo, int64(Cap))
	}

	h := int64(Len)
	if hi != nil {
		h = fr.sliceBound(hi, int64(Cap))
	}

	m := int64(Cap)
	if max != nil {
		m = fr.sliceBound(max, int64(Cap))
	}
	if _, isStr := x.(string); isStr || isStrSym(x) {
		if l < 0 || h < l || h > int64(Len) {
			panic(fr.i.rtPanic(fmt.Sprintf("slice bounds out of range [%d:%d] with length %d", l, h, Len)))
		}
	} else if l < 0 || h < l || m < h || m > int64(Cap) {
		panic(fr.i.rtPanic(fmt.Sprintf("slice bounds out of range [%d:%d:%d] with capacity %d", l, h, m, Cap)))
	}

	switch x := x.(type) {
	case string:
		return x[l:h]
	case *symStr:
		return normStr(x.b[l:h])
	case []value:
		return x[l:h:m]
	case *value: // *array
		a := (*x).(array)
		return []value(a)[l:h:m]
	}
	panic(fmt.Sprintf("slice: unexpected X type: %T", x))
}

func isStrSym(x value) bool { _, ok := x.(*symStr); return ok }

// sliceBound concretises a slice bound; a symbolic bound outside [0,max]
// is the Go run-time panic, a symbolic bound inside is enumerated.
func (fr *frame) sliceBound(v value, max int64) int64 {
	s, ok := v.(*SymVal)
	if !ok {
		return asInt64(v)
	}
	w := s.t.w
	var in Term
	if kindSigned(s.k) {
		in = tAnd(app(0, "bvsge", s.t, bvLit(0, w)), app(0, "bvsle", s.t, bvLit(uint64(max), w)))
	} else {
		in = app(0, "bvule", s.t, bvLit(uint64(max), w))
	}
	if !fr.i.ps.branch(in, fr.site()+"#slicebound") {
		panic(fr.i.rtPanic(fmt.Sprintf("slice bounds out of range [symbolic] with capacity %d", max)))
	}
	return fr.concretizeInt(v, 0, max, "slice bound")
}

// index returns x[idx] for arrays and strings.
func (fr *frame) index(x, idx value) value {
	switch x := x.(type) {
	case array:
		if s, ok := idx.(*SymVal); ok {
			return fr.symTableIndex(x, s)
		}
		return x[fr.concretizeIndex(idx, len(x), "index")]
	case string:
		if s, ok := idx.(*SymVal); ok {
			return fr.symTableIndex(strBytes(x), s)
		}
		return x[fr.concretizeIndex(idx, len(x), "index")]
	case *symStr:
		return x.b[fr.concretizeIndex(idx, len(x.b), "index")]
	}
	panic(fmt.Sprintf("unexpected x type in Index: %T", x))
}

// symTableIndex reads a table of scalars at a symbolic index: an ite-chain
// when every element is scalar (after forking off the out-of-range case).
func (fr *frame) symTableIndex(tab []value, idx *SymVal) value {
	n := len(tab)
	scalar := n > 0
	var k types.BasicKind
	for j, e := range tab {
		var ek types.BasicKind
		switch e := e.(type) {
		case *SymVal:
			ek = e.k
		default:
			kk, ok := kindOfValue(e)
			if !ok {
				scalar = false
			}
			ek = kk
		}
		if j == 0 {
			k = ek
		}
	}
	if !scalar || n > 512 {
		return tab[fr.concretizeIndex(idx, n, "index")]
	}
	w := idx.t.w
	var inRange Term
	if kindSigned(idx.k) {
		inRange = tAnd(app(0, "bvsge", idx.t, bvLit(0, w)), app(0, "bvslt", idx.t, bvLit(uint64(n), w)))
	} else {
		inRange = app(0, "bvult", idx.t, bvLit(uint64(n), w))
	}
	if !fr.i.ps.branch(inRange, fr.site()+"#bounds") {
		panic(fr.i.rtPanic(fmt.Sprintf("index out of range [symbolic] with length %d", n)))
	}
	t := lift(tab[n-1])
	for j := n - 2; j >= 0; j-- {
		t = tIte(tEq(idx.t, bvLit(uint64(j), w)), lift(tab[j]), t)
	}
	return mkSym(k, fr.i.ps.define(t))
}

// lookup returns x[idx] where x is a map.
func (fr *frame) lookup(instr *ssa.Lookup, x, idx value) value {
	switch x := x.(type) { // map or string
	case *hashmap:
		v := x.lookup(fr.mapKey(idx))
		ok := v != nil
		if !ok {
			v = zero(instr.X.Type().Underlying().(*types.Map).Elem())
		}
		if instr.CommaOk {
			v = tuple{v, ok}
		}
		return v
	}
	panic(fmt.Sprintf("unexpected x type in Lookup: %T", x))
}

// binop implements all arithmetic and logical binary operators for
// numeric datatypes and strings.  Both operands must have identical
// dynamic type.
func (fr *frame) binop(op token.Token, t types.Type, x, y value) value {
	if isSym(x) || isSym(y) {
		if op == token.EQL || op == token.NEQ {
			if _, ok := t.Underlying().(*types.Basic); !ok {
				r := fr.symEquals(t, x, y)
				if op == token.NEQ {
					return notValue(r)
				}
				return r
			}
		}
		return fr.symBinop(op, x, y)
	}
	if isStrSym(x) || isStrSym(y) {
		switch op {
		case token.ADD:
			return strConcat(x, y)
		case token.EQL:
			return fr.symEquals(t, x, y)
		case token.NEQ:
			return notValue(fr.symEquals(t, x, y))
		}
		panic(unsupported("operator %s on symbolic strings", op))
	}
	if (op == token.EQL || op == token.NEQ) && (containsSym(x) || containsSym(y)) {
		r := fr.symEquals(t, x, y)
		if op == token.NEQ {
			return notValue(r)
		}
		return r
	}
	return binop(op, t, x, y)
}

func notValue(v value) value {
	switch v := v.(type) {
	case bool:
		return !v
	case *SymVal:
		return mkSym(types.Bool, tNot(v.t))
	}
	panic("notValue")
}

func binop(op token.Token, t types.Type, x, y value) value {
	switch op {
	case token.ADD:
		switch x.(type) {
		case int:
			return x.(int) + y.(int)
		case int8:
			return x.(int8) + y.(int8)
		case int16:
			return x.(int16) + y.(int16)
		case int32:
			return x.(int32) + y.(int32)
		case int64:
			return x.(int64) + y.(int64)
		case uint:
			return x.(uint) + y.(uint)
		case uint8:
			return x.(uint8) + y.(uint8)
		case uint16:
			return x.(uint16) + y.(uint16)
		case uint32:
			return x.(uint32) + y.(uint32)
		case uint64:
			return x.(uint64) + y.(uint64)
		case uintptr:
			return x.(uintptr) + y.(uintptr)
		case float32:
			return x.(float32) + y.(float32)
		case float64:
			return x.(float64) + y.(float64)
		case complex64:
			return x.(complex64) + y.(complex64)
		case complex128:
			return x.(complex128) + y.(complex128)
		case string:
			return x.(string) + y.(string)
		}

	case token.SUB:
		switch x.(type) {
		case int:
			return x.(int) - y.(int)
		case int8:
			return x.(int8) - y.(int8)
		case int16:
			return x.(int16) - y.(int16)
		case int32:
			return x.(int32) - y.(int32)
		case int64:
			return x.(int64) - y.(int64)
		case uint:
			return x.(uint) - y.(uint)
		case uint8:
			return x.(uint8) - y.(uint8)
		case uint16:
			return x.(uint16) - y.(uint16)
		case uint32:
			return x.(uint32) - y.(uint32)
		case uint64:
			return x.(uint64) - y.(uint64)
		case uintptr:
			return x.(uintptr) - y.(uintptr)
		case float32:
			return x.(float32) - y.(float32)
		case float64:
			return x.(float64) - y.(float64)
		case complex64:
			return x.(complex64) - y.(complex64)
		case complex128:
			return x.(complex128) - y.(complex128)
		}

	case token.MUL:
		switch x.(type) {
		case int:
			return x.(int) * y.(int)
		case int8:
			return x.(int8) * y.(int8)
		case int16:
			return x.(int16) * y.(int16)
		case int32:
			return x.(int32) * y.(int32)
		case int64:
			return x.(int64) * y.(int64)
		case uint:
			return x.(uint) * y.(uint)
		case uint8:
			return x.(uint8) * y.(uint8)
		case uint16:
			return x.(uint16) * y.(uint16)
		case uint32:
			return x.(uint32) * y.(uint32)
		case uint64:
			return x.(uint64) * y.(uint64)
		case uintptr:
			return x.(uintptr) * y.(uintptr)
		case float32:
			return x.(float32) * y.(float32)
		case float64:
			return x.(float64) * y.(float64)
		case complex64:
			return x.(complex64) * y.(complex64)
		case complex128:
			return x.(complex128) * y.(complex128)
		}

	case token.QUO:
		if k, ok := kindOfValue(y); ok && kindWidth(k) > 0 && asInt64(y) == 0 {
			panic(targetPanic{v: iface{theRuntimeErrorString, "runtime error: integer divide by zero"}, rt: true})
		}
		switch x.(type) {
		case int:
			return x.(int) / y.(int)
		case int8:
			return x.(int8) / y.(int8)
		case int16:
			return x.(int16) / y.(int16)
		case int32:
			return x.(int32) / y.(int32)
		case int64:
			return x.(int64) / y.(int64)
		case uint:
			return x.(uint) / y.(uint)
		case uint8:
			return x.(uint8) / y.(uint8)
		case uint16:
			return x.(uint16) / y.(uint16)
		case uint32:
			return x.(uint32) / y.(uint32)
		case uint64:
			return x.(uint64) / y.(uint64)
		case uintptr:
			return x.(uintptr) / y.(uintptr)
		case float32:
			return x.(float32) / y.(float32)
		case float64:
			return x.(float64) / y.(float64)
		case complex64:
			return x.(complex64) / y.(complex64)
		case complex128:
			return x.(complex128) / y.(complex128)
		}

	case token.REM:
		if asInt64(y) == 0 {
			panic(targetPanic{v: iface{theRuntimeErrorString, "runtime error: integer divide by zero"}, rt: true})
		}
		switch x.(type) {
		case int:
			return x.(int) % y.(int)
		case int8:
			return x.(int8) % y.(int8)
		case int16:
			return x.(int16) % y.(int16)
		case int32:
			return x.(int32) % y.(int32)
		case int64:
			return x.(int64) % y.(int64)
		case uint:
			return x.(uint) % y.(uint)
		case uint8:
			return x.(uint8) % y.(uint8)
		case uint16:
			return x.(uint16) % y.(uint16)
		case uint32:
			return x.(uint32) % y.(uint32)
		case uint64:
			return x.(uint64) % y.(uint64)
		case uintptr:
			return x.(uintptr) % y.(uintptr)
		}

	case token.AND:
		switch x.(type) {
		case int:
			return x.(int) & y.(int)
		case int8:
			return x.(int8) & y.(int8)
		case int16:
			return x.(int16) & y.(int16)
		case int32:
			return x.(int32) & y.(int32)
		case int64:
			return x.(int64) & y.(int64)
		case uint:
			return x.(uint) & y.(uint)
		case uint8:
			return x.(uint8) & y.(uint8)
		case uint16:
			return x.(uint16) & y.(uint16)
		case uint32:
			return x.(uint32) & y.(uint32)
		case uint64:
			return x.(uint64) & y.(uint64)
		case uintptr:
			return x.(uintptr) & y.(uintptr)
		}

	case token.OR:
		switch x.(type) {
		case int:
			return x.(int) | y.(int)
		case int8:
			return x.(int8) | y.(int8)
		case int16:
			return x.(int16) | y.(int16)
		case int32:
			return x.(int32) | y.(int32)
		case int64:
			return x.(int64) | y.(int64)
		case uint:
			return x.(uint) | y.(uint)
		case uint8:
			return x.(uint8) | y.(uint8)
		case uint16:
			return x.(uint16) | y.(uint16)
		case uint32:
			return x.(uint32) | y.(uint32)
		case uint64:
			return x.(uint64) | y.(uint64)
		case uintptr:
			return x.(uintptr) | y.(uintptr)
		}

	case token.XOR:
		switch x.(type) {
		case int:
			return x.(int) ^ y.(int)
		case int8:
			return x.(int8) ^ y.(int8)
		case int16:
			return x.(int16) ^ y.(int16)
		case int32:
			return x.(int32) ^ y.(int32)
		case int64:
			return x.(int64) ^ y.(int64)
		case uint:
			return x.(uint) ^ y.(uint)
		case uint8:
			return x.(uint8) ^ y.(uint8)
		case uint16:
			return x.(uint16) ^ y.(uint16)
		case uint32:
			return x.(uint32) ^ y.(uint32)
		case uint64:
			return x.(uint64) ^ y.(uint64)
		case uintptr:
			return x.(uintptr) ^ y.(uintptr)
		}

	case token.AND_NOT:
		switch x.(type) {
		case int:
			return x.(int) &^ y.(int)
		case int8:
			return x.(int8) &^ y.(int8)
		case int16:
			return x.(int16) &^ y.(int16)
		case int32:
			return x.(int32) &^ y.(int32)
		case int64:
			return x.(int64) &^ y.(int64)
		case uint:
			return x.(uint) &^ y.(uint)
		case uint8:
			return x.(uint8) &^ y.(uint8)
		case uint16:
			return x.(uint16) &^ y.(uint16)
		case uint32:
			return x.(uint32) &^ y.(uint32)
		case uint64:
			return x.(uint64) &^ y.(uint64)
		case uintptr:
			return x.(uintptr) &^ y.(uintptr)
		}

	case token.SHL:
		u, ok := asUnsigned(y)
		if !ok {
			panic(targetPanic{v: iface{theRuntimeErrorString, "runtime error: negative shift amount"}, rt: true})
		}
		y := asUint64(u)
		switch x.(type) {
		case int:
			return x.(int) << y
		case int8:
			return x.(int8) << y
		case int16:
			return x.(int16) << y
		case int32:
			return x.(int32) << y
		case int64:
			return x.(int64) << y
		case uint:
			return x.(uint) << y
		case uint8:
			return x.(uint8) << y
		case uint16:
			return x.(uint16) << y
		case uint32:
			return x.(uint32) << y
		case uint64:
			return x.(uint64) << y
		case uintptr:
			return x.(uintptr) << y
		}

	case token.SHR:
		u, ok := asUnsigned(y)
		if !ok {
			panic(targetPanic{v: iface{theRuntimeErrorString, "runtime error: negative shift amount"}, rt: true})
		}
		y := asUint64(u)
		switch x.(type) {
		case int:
			return x.(int) >> y
		case int8:
			return x.(int8) >> y
		case int16:
			return x.(int16) >> y
		case int32:
			return x.(int32) >> y
		case int64:
			return x.(int64) >> y
		case uint:
			return x.(uint) >> y
		case uint8:
			return x.(uint8) >> y
		case uint16:
			return x.(uint16) >> y
		case uint32:
			return x.(uint32) >> y
		case uint64:
			return x.(uint64) >> y
		case uintptr:
			return x.(uintptr) >> y
		}

	case token.LSS:
		switch x.(type) {
		case int:
			return x.(int) < y.(int)
		case int8:
			return x.(int8) < y.(int8)
		case int16:
			return x.(int16) < y.(int16)
		case int32:
			return x.(int32) < y.(int32)
		case int64:
			return x.(int64) < y.(int64)
		case uint:
			return x.(uint) < y.(uint)
		case uint8:
			return x.(uint8) < y.(uint8)
		case uint16:
			return x.(uint16) < y.(uint16)
		case uint32:
			return x.(uint32) < y.(uint32)
		case uint64:
			return x.(uint64) < y.(uint64)
		case uintptr:
			return x.(uintptr) < y.(uintptr)
		case float32:
			return x.(float32) < y.(float32)
		case float64:
			return x.(float64) < y.(float64)
		case string:
			return x.(string) < y.(string)
		}

	case token.LEQ:
		switch x.(type) {
		case int:
			return x.(int) <= y.(int)
		case int8:
			return x.(int8) <= y.(int8)
		case int16:
			return x.(int16) <= y.(int16)
		case int32:
			return x.(int32) <= y.(int32)
		case int64:
			return x.(int64) <= y.(int64)
		case uint:
			return x.(uint) <= y.(uint)
		case uint8:
			return x.(uint8) <= y.(uint8)
		case uint16:
			return x.(uint16) <= y.(uint16)
		case uint32:
			return x.(uint32) <= y.(uint32)
		case uint64:
			return x.(uint64) <= y.(uint64)
		case uintptr:
			return x.(uintptr) <= y.(uintptr)
		case float32:
			return x.(float32) <= y.(float32)
		case float64:
			return x.(float64) <= y.(float64)
		case string:
			return x.(string) <= y.(string)
		}

	case token.EQL:
		return eqnil(t, x, y)

	case token.NEQ:
		return !eqnil(t, x, y)

	case token.GTR:
		switch x.(type) {
		case int:
			return x.(int) > y.(int)
		case int8:
			return x.(int8) > y.(int8)
		case int16:
			return x.(int16) > y.(int16)
		case int32:
			return x.(int32) > y.(int32)
		case int64:
			return x.(int64) > y.(int64)
		case uint:
			return x.(uint) > y.(uint)
		case uint8:
			return x.(uint8) > y.(uint8)
		case uint16:
			return x.(uint16) > y.(uint16)
		case uint32:
			return x.(uint32) > y.(uint32)
		case uint64:
			return x.(uint64) > y.(uint64)
		case uintptr:
			return x.(uintptr) > y.(uintptr)
		case float32:
			return x.(float32) > y.(float32)
		case float64:
			return x.(float64) > y.(float64)
		case string:
			return x.(string) > y.(string)
		}

	case token.GEQ:
		switch x.(type) {
		case int:
			return x.(int) >= y.(int)
		case int8:
			return x.(int8) >= y.(int8)
		case int16:
			return x.(int16) >= y.(int16)
		case int32:
			return x.(int32) >= y.(int32)
		case int64:
			return x.(int64) >= y.(int64)
		case uint:
			return x.(uint) >= y.(uint)
		case uint8:
			return x.(uint8) >= y.(uint8)
		case uint16:
			return x.(uint16) >= y.(uint16)
		case uint32:
			return x.(uint32) >= y.(uint32)
		case uint64:
			return x.(uint64) >= y.(uint64)
		case uintptr:
			return x.(uintptr) >= y.(uintptr)
		case float32:
			return x.(float32) >= y.(float32)
		case float64:
			return x.(float64) >= y.(float64)
		case string:
			return x.(string) >= y.(string)
		}
	}
	panic(fmt.Sprintf("invalid binary op: %T %s %T", x, op, y))
}

// eqnil returns the comparison x == y using the equivalence relation
// appropriate for type t.
// If t is a reference type, at most one of x or y may be a nil value
// of that type.
func eqnil(t types.Type, x, y value) bool {
	switch t.Underlying().(type) {
	case *types.Map, *types.Signature, *types.Slice:
		// Since these types don't support comparison,
		// one of the operands must be a literal nil.
		switch x := x.(type) {
		case *hashmap:
			return (x != nil) == (y.(*hashmap) != nil)
		case *ssa.Function:
			switch y := y.(type) {
			case *ssa.Function:
				return (x != nil) == (y != nil)
			case *closure:
				return true
			}
		case *closure:
			switch y := y.(type) {
			case *ssa.Function:
				return (x != nil) == (y != nil)
			case *closure:
				return (x != nil) == (y != nil)
			}
		case *hostFunc:
			return false
		case []value:
			return (x != nil) == (y.([]value) != nil)
		}
		panic(fmt.Sprintf("eqnil(%s): illegal dynamic type: %T", t, x))
	}

	return equals(t, x, y)
}

func (fr *frame) unop(instr *ssa.UnOp, x value) value {
	if s, ok := x.(*SymVal); ok {
		return fr.symUnop(instr.Op, s)
	}
	switch instr.Op {
	case token.ARROW: // receive
		c, _ := x.(*channel)
		v, ok := fr.i.chanRecv(c)
		if instr.CommaOk {
			v = tuple{v, ok}
		}
		return v
	case token.SUB:
		switch x := x.(type) {
		case int:
			return -x
		case int8:
			return -x
		case int16:
			return -x
		case int32:
			return -x
		case int64:
			return -x
		case uint:
			return -x
		case uint8:
			return -x
		case uint16:
			return -x
		case uint32:
			return -x
		case uint64:
			return -x
		case uintptr:
			return -x
		case float32:
			return -x
		case float64:
			return -x
		case complex64:
			return -x
		case complex128:
			return -x
		}
	case token.MUL:
		addr := fr.nilCheck(x.(*value))
		if fr.i.sched != nil && fr.i.cfg.Race {
			fr.i.raceAccess(fr, addr, false)
		}
		return load(mustDeref(instr.X.Type()), addr)
	case token.NOT:
		return !x.(bool)
	case token.XOR:
		switch x := x.(type) {
		case int:
			return ^x
		case int8:
			return ^x
		case int16:
			return ^x
		case int32:
			return ^x
		case int64:
			return ^x
		case uint:
			return ^x
		case uint8:
			return ^x
		case uint16:
			return ^x
		case uint32:
			return ^x
		case uint64:
			return ^x
		case uintptr:
			return ^x
		}
	}
	panic(fmt.Sprintf("invalid unary op %s %T", instr.Op, x))
}

// typeAssert checks whether dynamic type of itf is instr.AssertedType.
// It returns the extracted value on success, and panics on failure,
// unless instr.CommaOk, in which case it always returns a "value,ok" tuple.
func typeAssert(i *interpreter, instr *ssa.TypeAssert, itf iface) value {
	var v value
	err := ""
	if itf.t == nil {
		err = fmt.Sprintf("interface conversion: interface is nil, not %s", instr.AssertedType)

	} else if idst, ok := instr.AssertedType.Underlying().(*types.Interface); ok {
		v = itf
		err = checkInterface(i, idst, itf)

	} else if types.Identical(itf.t, instr.AssertedType) {
		v = itf.v // extract value

	} else {
		err = fmt.Sprintf("interface conversion: interface is %s, not %s", itf.t, instr.AssertedType)
	}
	// Note: if instr.Underlying==true ever becomes reachable from interp check that
	// types.Identical(itf.t.Underlying(), instr.AssertedType)

	if err != "" {
		if !instr.CommaOk {
			panic(i.rtPanic(err))
		}
		return tuple{zero(instr.AssertedType), false}
	}
	if instr.CommaOk {
		return tuple{v, true}
	}
	return v
}

// This variable is no longer used but remains to prevent build breakage.
var CapturedOutput *bytes.Buffer

// callBuiltin interprets a call to builtin fn with arguments args,
// returning its result.
func callBuiltin(caller *frame, callpos token.Pos, fn *ssa.Builtin, args []value) value {
	i := caller.i
	switch fn.Name() {
	case "append":
		if len(args) == 1 {
			return args[0]
		}
		arg0 := args[0].([]value)
		var src []value
		if isStr(args[1]) {
			// append([]byte, ...string) []byte
			src = strBytes(args[1])
		} else {
			src = args[1].([]value)
		}
		if len(src) == 0 {
			return arg0
		}
		if len(arg0)+len(src) <= cap(arg0) {
			// in-place: log the overwritten spare capacity
			full := arg0[:len(arg0)+len(src)]
			for k := len(arg0); k < len(full); k++ {
				if i.logging {
					i.logStore(&full[k])
				}
				// a store into the shared backing array: visible to the race check
				i.raceAccess(caller, &full[k], true)
			}
			return append(arg0, src...)
		}
		// reallocate deterministically (Go's growth policy is unspecified; we double)
		ncap := 2 * cap(arg0)
		if n := len(arg0) + len(src); ncap < n {
			ncap = n
		}
		r := make([]value, len(arg0), ncap)
		copy(r, arg0)
		return append(r, src...)

	case "copy": // copy([]T, []T) int or copy([]byte, string) int
		var src []value
		if isStr(args[1]) {
			src = strBytes(args[1])
		} else {
			src = args[1].([]value)
		}
		dst := args[0].([]value)
		n := len(src)
		if len(dst) < n {
			n = len(dst)
		}
		if i.logging {
			for k := 0; k < n; k++ {
				i.logStore(&dst[k])
			}
		}
		return copy(dst, src)

	case "close": // close(chan T)
		c, _ := args[0].(*channel)
		i.chanClose(c)
		return nil

	case "delete": // delete(map[K]value, K)
		switch m := args[0].(type) {
		case *hashmap:
			if m != nil && i.sched != nil && i.cfg.Race && i.race != nil {
				i.race.access(caller, m, true)
			}
			i.mapDelete(m, caller.mapKey(args[1]))
		default:
			panic(fmt.Sprintf("illegal map type: %T", m))
		}
		return nil

	case "print", "println": // print(any, ...)
		ln := fn.Name() == "println"
		var buf bytes.Buffer
		for i, arg := range args {
			if i > 0 && ln {
				buf.WriteRune(' ')
			}
			buf.WriteString(toString(arg))
		}
		if ln {
			buf.WriteRune('\n')
		}
		if os.Getenv("SYMGO_PRINT") != "" {
			os.Stderr.Write(buf.Bytes())
		}
		return nil

	case "len":
		switch x := args[0].(type) {
		case string:
			return len(x)
		case *symStr:
			return len(x.b)
		case array:
			return len(x)
		case *value:
			return len((*x).(array))
		case []value:
			return len(x)
		case *hashmap:
			return x.len()
		case *channel:
			if x == nil {
				return 0
			}
			return len(x.buf)
		default:
			panic(fmt.Sprintf("len: illegal operand: %T", x))
		}

	case "cap":
		switch x := args[0].(type) {
		case array:
			return cap(x)
		case *value:
			return cap((*x).(array))
		case []value:
			return cap(x)
		case *channel:
			if x == nil {
				return 0
			}
			return x.cap
		default:
			panic(fmt.Sprintf("cap: illegal operand: %T", x))
		}

	case "clear":
		switch x := args[0].(type) {
		case *hashmap:
			for _, e := range x.live() {
				i.mapDelete(x, e.key)
			}
		case []value:
			panic(unsupported("clear of slice"))
		}
		return nil

	case "min":
		return foldLeft(caller.minv, args)
	case "max":
		return foldLeft(caller.maxv, args)

	case "real":
		switch c := args[0].(type) {
		case complex64:
			return real(c)
		case complex128:
			return real(c)
		default:
			panic(fmt.Sprintf("real: illegal operand: %T", c))
		}

	case "imag":
		switch c := args[0].(type) {
		case complex64:
			return imag(c)
		case complex128:
			return imag(c)
		default:
			panic(fmt.Sprintf("imag: illegal operand: %T", c))
		}

	case "complex":
		switch f := args[0].(type) {
		case float32:
			return complex(f, args[1].(float32))
		case float64:
			return complex(f, args[1].(float64))
		default:
			panic(fmt.Sprintf("complex: illegal operand: %T", f))
		}

	case "panic":
		// ssa.Panic handles most cases; this is only for "go
		// panic" or "defer panic".
		panic(targetPanic{v: args[0]})

	case "recover":
		return doRecover(caller)

	case "ssa:wrapnilchk":
		recv := args[0]
		if recv.(*value) == nil {
			recvType := args[1]
			methodName := args[2]
			panic(i.rtPanic(fmt.Sprintf("value method (%s).%s called using nil *%s pointer",
				recvType, methodName, recvType)))
		}
		return recv

	case "ssa:deferstack":
		return &caller.defers
	}

	panic("unknown built-in: " + fn.Name())
}

func (fr *frame) rangeIter(x value, t types.Type) iter {
	switch x := x.(type) {
	case *hashmap:
		es := x.live()
		if n := len(es); n > 1 && n <= fr.i.cfg.MapPermute {
			// iteration order of a map is unspecified: explore rotations
			k := fr.i.ps.choose(n, "maporder", fr.site())
			es = append(append([]*entry{}, es[k:]...), es[:k]...)
		}
		return &hashmapIter{es: es}
	case string:
		return &stringIter{Reader: strings.NewReader(x)}
	case *symStr:
		return &symStringIter{fr: fr, b: x.b}
	}
	panic(fmt.Sprintf("cannot range over %T", x))
}

func (fr *frame) minv(x, y value) value {
	if isSym(x) || isSym(y) {
		if fr.truth(fr.symBinop(token.LSS, y, x)) {
			return y
		}
		return x
	}
	return min(x, y)
}

func (fr *frame) maxv(x, y value) value {
	if isSym(x) || isSym(y) {
		if fr.truth(fr.symBinop(token.GTR, y, x)) {
			return y
		}
		return x
	}
	return max(x, y)
}

// widen widens a basic typed value x to the widest type of its
// category, one of:
//
//	bool, int64, uint64, float64, complex128, string.
//
// This is inefficient but reduces the size of the cross-product of
// cases we have to consider.
func widen(x value) value {
	switch y := x.(type) {
	case bool, int64, uint64, float64, complex128, string, unsafe.Pointer:
		return x
	case int:
		return int64(y)
	case int8:
		return int64(y)
	case int16:
		return int64(y)
	case int32:
		return int64(y)
	case uint:
		return uint64(y)
	case uint8:
		return uint64(y)
	case uint16:
		return uint64(y)
	case uint32:
		return uint64(y)
	case uintptr:
		return uint64(y)
	case float32:
		return float64(y)
	case complex64:
		return complex128(y)
	}
	panic(fmt.Sprintf("cannot widen %T", x))
}

// conv converts the value x of type t_src to type t_dst and returns
// the result.
// Possible cases are described with the ssa.Convert operator.
func (fr *frame) conv(t_dst, t_src types.Type, x value) value {
	switch x := x.(type) {
	case *SymVal:
		return fr.symConv(t_dst, x)
	case *symStr:
		switch ut := t_dst.Underlying().(type) {
		case *types.Basic:
			if ut.Kind() == types.String {
				return x
			}
		case *types.Slice:
			if ut.Elem().Underlying().(*types.Basic).Kind() == types.Byte {
				return append([]value{}, x.b...)
			}
		}
		panic(unsupported("conversion of symbolic string to %s", t_dst))
	case []value:
		if ut, ok := t_dst.Underlying().(*types.Basic); ok && ut.Kind() == types.String {
			for _, e := range x {
				if _, ok := e.(*SymVal); ok {
					if basicKindOf(t_src.Underlying().(*types.Slice).Elem()) != types.Byte {
						panic(unsupported("conversion of symbolic []rune to string"))
					}
					return normStr(x)
				}
			}
		}
	}
	return conv(t_dst, t_src, x)
}

func conv(t_dst, t_src types.Type, x value) value {
	ut_src := t_src.Underlying()
	ut_dst := t_dst.Underlying()

	// Destination type is not an "untyped" type.
	if b, ok := ut_dst.(*types.Basic); ok && b.Info()&types.IsUntyped != 0 {
		panic("oops: conversion to 'untyped' type: " + b.String())
	}

	// Nor is it an interface type.
	if _, ok := ut_dst.(*types.Interface); ok {
		if _, ok := ut_src.(*types.Interface); ok {
			panic("oops: Convert should be ChangeInterface")
		} else {
			panic("oops: Convert should be MakeInterface")
		}
	}

	// Remaining conversions:
	//    + untyped string/number/bool constant to a specific
	//      representation.
	//    + conversions between non-complex numeric types.
	//    + conversions between complex numeric types.
	//    + integer/[]byte/[]rune -> string.
	//    + string -> []byte/[]rune.
	//
	// All are treated the same: first we extract the value to the
	// widest representation (int64, uint64, float64, complex128,
	// or string), then we convert it to the desired type.

	switch ut_src := ut_src.(type) {
	case *types.Pointer:
		switch ut_dst := ut_dst.(type) {
		case *types.Basic:
			// *value to unsafe.Pointer?
			if ut_dst.Kind() == types.UnsafePointer {
				return unsafe.Pointer(x.(*value))
			}
		}

	case *types.Slice:
		// []byte or []rune -> string
		switch ut_src.Elem().Underlying().(*types.Basic).Kind() {
		case types.Byte:
			x := x.([]value)
			b := make([]byte, 0, len(x))
			for i := range x {
				b = append(b, x[i].(byte))
			}
			return string(b)

		case types.Rune:
			x := x.([]value)
			r := make([]rune, 0, len(x))
			for i := range x {
				r = append(r, x[i].(rune))
			}
			return string(r)
		}

	case *types.Basic:
		x = widen(x)

		// integer -> string?
		if ut_src.Info()&types.IsInteger != 0 {
			if ut_dst, ok := ut_dst.(*types.Basic); ok && ut_dst.Kind() == types.String {
				return fmt.Sprintf("%c", x)
			}
		}

		// string -> []rune, []byte or string?
		if s, ok := x.(string); ok {
			switch ut_dst := ut_dst.(type) {
			case *types.Slice:
				var res []value
				switch ut_dst.Elem().Underlying().(*types.Basic).Kind() {
				case types.Rune:
					for _, r := range []rune(s) {
						res = append(res, r)
					}
					return res
				case types.Byte:
					for _, b := range []byte(s) {
						res = append(res, b)
					}
					return res
				}
			case *types.Basic:
				if ut_dst.Kind() == types.String {
					return x.(string)
				}
			}
			break // fail: no other conversions for string
		}

		// unsafe.Pointer -> *value
		if ut_src.Kind() == types.UnsafePointer {
			// TODO(adonovan): this is wrong and cannot
			// really be fixed with the current design.
			//
			// return (*value)(x.(unsafe.Pointer))
			// creates a new pointer of a different
			// type but the underlying interface value
			// knows its "true" type and so cannot be
			// meaningfully used through the new pointer.
			//
			// To make this work, the interpreter needs to
			// simulate the memory layout of a real
			// compiled implementation.
			//
			// To at least preserve type-safety, we'll
			// just return the zero value of the
			// destination type.
			return zero(t_dst)
		}

		// Conversions between complex numeric types?
		if ut_src.Info()&types.IsComplex != 0 {
			switch ut_dst.(*types.Basic).Kind() {
			case types.Complex64:
				return complex64(x.(complex128))
			case types.Complex128:
				return x.(complex128)
			}
			break // fail: no other conversions for complex
		}

		// Conversions between non-complex numeric types?
		if ut_src.Info()&types.IsNumeric != 0 {
			kind := ut_dst.(*types.Basic).Kind()
			switch x := x.(type) {
			case int64: // signed integer -> numeric?
				switch kind {
				case types.Int:
					return int(x)
				case types.Int8:
					return int8(x)
				case types.Int16:
					return int16(x)
				case types.Int32:
					return int32(x)
				case types.Int64:
					return int64(x)
				case types.Uint:
					return uint(x)
				case types.Uint8:
					return uint8(x)
				case types.Uint16:
					return uint16(x)
				case types.Uint32:
					return uint32(x)
				case types.Uint64:
					return uint64(x)
				case types.Uintptr:
					return uintptr(x)
				case types.Float32:
					return float32(x)
				case types.Float64:
					return float64(x)
				}

			case uint64: // unsigned integer -> numeric?
				switch kind {
				case types.Int:
					return int(x)
				case types.Int8:
					return int8(x)
				case types.Int16:
					return int16(x)
				case types.Int32:
					return int32(x)
				case types.Int64:
					return int64(x)
				case types.Uint:
					return uint(x)
				case types.Uint8:
					return uint8(x)
				case types.Uint16:
					return uint16(x)
				case types.Uint32:
					return uint32(x)
				case types.Uint64:
					return uint64(x)
				case types.Uintptr:
					return uintptr(x)
				case types.Float32:
					return float32(x)
				case types.Float64:
					return float64(x)
				}

			case float64: // floating point -> numeric?
				switch kind {
				case types.Int:
					return int(x)
				case types.Int8:
					return int8(x)
				case types.Int16:
					return int16(x)
				case types.Int32:
					return int32(x)
				case types.Int64:
					return int64(x)
				case types.Uint:
					return uint(x)
				case types.Uint8:
					return uint8(x)
				case types.Uint16:
					return uint16(x)
				case types.Uint32:
					return uint32(x)
				case types.Uint64:
					return uint64(x)
				case types.Uintptr:
					return uintptr(x)
				case types.Float32:
					return float32(x)
				case types.Float64:
					return float64(x)
				}
			}
		}
	}

	panic(fmt.Sprintf("unsupported conversion: %s  -> %s, dynamic type %T", t_src, t_dst, x))
}

// sliceToArrayPointer converts the value x of type slice to type t_dst
// a pointer to array and returns the result.
func sliceToArrayPointer(t_dst, t_src types.Type, x value) value {
	if _, ok := t_src.Underlying().(*types.Slice); ok {
		if ptr, ok := t_dst.Underlying().(*types.Pointer); ok {
			if arr, ok := ptr.Elem().Underlying().(*types.Array); ok {
				x := x.([]value)
				if arr.Len() > int64(len(x)) {
					panic("array length is greater than slice length")
				}
				if x == nil {
					return zero(t_dst)
				}
				v := value(array(x[:arr.Len()]))
				return &v
			}
		}
	}

	panic(fmt.Sprintf("unsupported conversion: %s  -> %s, dynamic type %T", t_src, t_dst, x))
}

// checkInterface checks that the method set of x implements the
// interface itype.
// On success it returns "", on failure, an error message.
func checkInterface(i *interpreter, itype *types.Interface, x iface) string {
	if meth, _ := types.MissingMethod(x.t, itype, true); meth != nil {
		return fmt.Sprintf("interface conversion: %v is not %v: missing method %s",
			x.t, itype, meth.Name())
	}
	return "" // ok
}

func foldLeft(op func(value, value) value, args []value) value {
	x := args[0]
	for _, arg := range args[1:] {
		x = op(x, arg)
	}
	return x
}

func min(x, y value) value {
	switch x := x.(type) {
	case float32:
		return fmin(x, y.(float32))
	case float64:
		return fmin(x, y.(float64))
	}

	// return (y < x) ? y : x
	if binop(token.LSS, nil, y, x).(bool) {
		return y
	}
	return x
}

func max(x, y value) value {
	switch x := x.(type) {
	case float32:
		return fmax(x, y.(float32))
	case float64:
		return fmax(x, y.(float64))
	}

	// return (y > x) ? y : x
	if binop(token.GTR, nil, y, x).(bool) {
		return y
	}
	return x
}

// copied from $GOROOT/src/runtime/minmax.go

type floaty interface{ ~float32 | ~float64 }

func fmin[F floaty](x, y F) F {
	if y != y || y < x {
		return y
	}
	if x != x || x < y || x != 0 {
		return x
	}
	// x and y are both ±0
	// if either is -0, return -0; else return +0
	return forbits(x, y)
}

func fmax[F floaty](x, y F) F {
	if y != y || y > x {
		return y
	}
	if x != x || x > y || x != 0 {
		return x
	}
	// x and y are both ±0
	// if both are -0, return -0; else return +0
	return fandbits(x, y)
}

func forbits[F floaty](x, y F) F {
	switch unsafe.Sizeof(x) {
	case 4:
		*(*uint32)(unsafe.Pointer(&x)) |= *(*uint32)(unsafe.Pointer(&y))
	case 8:
		*(*uint64)(unsafe.Pointer(&x)) |= *(*uint64)(unsafe.Pointer(&y))
	}
	return x
}

func fandbits[F floaty](x, y F) F {
	switch unsafe.Sizeof(x) {
	case 4:
		*(*uint32)(unsafe.Pointer(&x)) &= *(*uint32)(unsafe.Pointer(&y))
	case 8:
		*(*uint64)(unsafe.Pointer(&x)) &= *(*uint64)(unsafe.Pointer(&y))
	}
	return x
}
