package interp

// Strings of concrete length whose bytes may be symbolic.

import (
	"fmt"
	"go/types"
)

// symStr is a string value with at least one symbolic byte.
// Elements are uint8 or *SymVal of kind Uint8.
type symStr struct {
	b []value
}

func (s *symStr) String() string { return fmt.Sprintf("symstr<%d>", len(s.b)) }

// normStr returns a native string if every byte is concrete.
func normStr(b []value) value {
	for _, e := range b {
		if _, ok := e.(*SymVal); ok {
			cp := make([]value, len(b))
			copy(cp, b)
			return &symStr{cp}
		}
	}
	bs := make([]byte, len(b))
	for i, e := range b {
		bs[i] = e.(uint8)
	}
	return string(bs)
}

// strBytes returns the byte values of a string value (native or symbolic).
func strBytes(x value) []value {
	switch x := x.(type) {
	case string:
		r := make([]value, len(x))
		for i := 0; i < len(x); i++ {
			r[i] = x[i]
		}
		return r
	case *symStr:
		return x.b
	}
	panic(engineAbort{"internal", fmt.Sprintf("strBytes of %T", x)})
}

func isStr(x value) bool {
	switch x.(type) {
	case string, *symStr:
		return true
	}
	return false
}

func strLen(x value) int {
	switch x := x.(type) {
	case string:
		return len(x)
	case *symStr:
		return len(x.b)
	}
	panic(engineAbort{"internal", fmt.Sprintf("strLen of %T", x)})
}

func strConcat(x, y value) value {
	a, b := strBytes(x), strBytes(y)
	r := make([]value, 0, len(a)+len(b))
	r = append(r, a...)
	r = append(r, b...)
	return normStr(r)
}

func symStrEq(x *symStr, y value) Term {
	yb := strBytes(y)
	if len(yb) != len(x.b) {
		return boolLit(false)
	}
	r := boolLit(true)
	for i := range x.b {
		_, s1 := x.b[i].(*SymVal)
		_, s2 := yb[i].(*SymVal)
		if !s1 && !s2 {
			if x.b[i].(uint8) != yb[i].(uint8) {
				return boolLit(false)
			}
			continue
		}
		r = tAnd(r, tEq(lift(x.b[i]), lift(yb[i])))
	}
	return r
}

// concreteString returns the Go string of a value if it is fully concrete.
func concreteString(x value) (string, bool) {
	s, ok := x.(string)
	return s, ok
}

// ---- symbolic UTF-8 decoding (the semantics of range-over-string and
// utf8.DecodeRuneInString), forking on the class of each byte.

// byteIn decides lo <= b <= hi.
func (fr *frame) byteIn(b value, lo, hi uint8) bool {
	if c, ok := b.(uint8); ok {
		return lo <= c && c <= hi
	}
	t := b.(*SymVal).t
	var c Term
	switch {
	case lo == hi:
		c = tEq(t, bvLit(uint64(lo), 8))
	case lo == 0:
		c = app(0, "bvule", t, bvLit(uint64(hi), 8))
	case hi == 0xff:
		c = app(0, "bvuge", t, bvLit(uint64(lo), 8))
	default:
		c = tAnd(app(0, "bvuge", t, bvLit(uint64(lo), 8)), app(0, "bvule", t, bvLit(uint64(hi), 8)))
	}
	return fr.i.ps.branch(c, fr.site()+"#utf8")
}

const runeError = int32(0xFFFD)

// decodeRune decodes the first rune of b, returning (rune value, width).
func (fr *frame) decodeRune(b []value) (value, int) {
	n := len(b)
	if n == 0 {
		return runeError, 0
	}
	b0 := b[0]
	if fr.byteIn(b0, 0, 0x7f) {
		return runeOf(b0, 0x7f, 0), 1
	}
	var sz int
	var lo, hi uint8 = 0x80, 0xbf
	switch {
	case fr.byteIn(b0, 0xc2, 0xdf):
		sz = 2
	case fr.byteIn(b0, 0xe0, 0xe0):
		sz, lo = 3, 0xa0
	case fr.byteIn(b0, 0xe1, 0xec):
		sz = 3
	case fr.byteIn(b0, 0xed, 0xed):
		sz, hi = 3, 0x9f
	case fr.byteIn(b0, 0xee, 0xef):
		sz = 3
	case fr.byteIn(b0, 0xf0, 0xf0):
		sz, lo = 4, 0x90
	case fr.byteIn(b0, 0xf1, 0xf3):
		sz = 4
	case fr.byteIn(b0, 0xf4, 0xf4):
		sz, hi = 4, 0x8f
	default:
		return runeError, 1
	}
	if n < sz {
		return runeError, 1
	}
	if !fr.byteIn(b[1], lo, hi) {
		return runeError, 1
	}
	if sz == 2 {
		return runeOr(runeOf(b0, 0x1f, 6), runeOf(b[1], 0x3f, 0)), 2
	}
	if !fr.byteIn(b[2], 0x80, 0xbf) {
		return runeError, 1
	}
	if sz == 3 {
		return runeOr(runeOr(runeOf(b0, 0x0f, 12), runeOf(b[1], 0x3f, 6)), runeOf(b[2], 0x3f, 0)), 3
	}
	if !fr.byteIn(b[3], 0x80, 0xbf) {
		return runeError, 1
	}
	return runeOr(runeOr(runeOr(runeOf(b0, 0x07, 18), runeOf(b[1], 0x3f, 12)), runeOf(b[2], 0x3f, 6)), runeOf(b[3], 0x3f, 0)), 4
}

// runeOf returns int32((b & mask) << shift).
func runeOf(b value, mask uint8, shift uint) value {
	if c, ok := b.(uint8); ok {
		return int32(c&mask) << shift
	}
	t := resize(app(8, "bvand", b.(*SymVal).t, bvLit(uint64(mask), 8)), false, 32)
	if shift > 0 {
		t = app(32, "bvshl", t, bvLit(uint64(shift), 32))
	}
	return mkSym(types.Int32, t)
}

func runeOr(a, b value) value {
	ca, oka := a.(int32)
	cb, okb := b.(int32)
	if oka && okb {
		return ca | cb
	}
	return mkSym(types.Int32, app(32, "bvor", lift(a), lift(b)))
}

// symStringIter ranges over a symStr.
type symStringIter struct {
	fr *frame
	b  []value
	i  int
}

func (it *symStringIter) next() tuple {
	if it.i >= len(it.b) {
		return tuple{false, nil, nil}
	}
	r, w := it.fr.decodeRune(it.b[it.i:])
	k := it.i
	it.i += w
	return tuple{true, k, r}
}
