module verif/engine

go 1.23.8

require golang.org/x/tools v0.32.0

require (
	golang.org/x/mod v0.24.0 // indirect
	golang.org/x/sync v0.13.0 // indirect
)
